"""C14 NumPy functions on time series compute what NumPy computes, time axis intact (partial: NumPy's own numerics)."""
import itertools
import random
import warnings

import numpy as np

import common as C
import gen as G

LEVEL = "proof"
DRIVERS = ["driver_c14"]
TRUSTED = ["model: coq/Model/NpWrap.v (construct, init_out = _initialize_tsd_output, array_ufunc, array_function, mixed_ufunc, concat_tsd incl. _check_time_equals, "
           "split_tsd incl. np.split/np.array_split division points, split_tsd_axis = the literal `axis == 0` dispatch (not extracted: stated and refuted in Coq only), split_other) "
           "over Model/Restrict.v and Model/Iset.v; theorems: Proofs/NpWrapProofs.v",
           "follows /repo as repaired: 0-d results passed through, multi-output ufuncs wrapped per output (array_ufunc_multi), np.array_split divides the index with np.array_split",
           "PARTIAL: what a NumPy function computes is a parameter of every wrapper theorem (Section variable f with the single law 'an array result fills its shape'); "
           "the commuting diagram values(wrap f x) = f(values x) is proved of the model and tied to /repo by exact comparison with the same NumPy call on the raw array",
           "NumPy's contracts transcribed in the model: row-major concatenate along axis 0 (cat0), np.split/np.array_split division points, np.allclose broadcasting (1-d)"]
ASSUMPTIONS = ["operands are well-formed time series (sorted timestamps inside a canonical support; an empty series has the empty support) built with an explicit time_support",
               "concatenation, theorem side: 'all timestamps lie in the union of the supports' is a visible hypothesis of C14_concat_time (IntervalSet.union trims touching intervals by 1 us); "
               "proved for two operands whose timestamps are farther than 1 us from every support endpoint (C14_concat_support_two) and for any number of operands none of whose timestamps "
               "lies in the closed microsecond [p - 1 us, p] before a START p of an operand's support (C14_concat_support_all); the three-operand gap the pairwise fold leaves is "
               "C14_concat_fold_union_refuted, the 1 ns time-axis equality is C14_concat_time_equal_1ns_refuted",
               "concatenation, oracle side: NO tolerance - the result support must be the exact union of the operands' supports except for the open microsecond (p - 1 us, p) before a point p "
               "where two merged components touch (C01's statement), and every row must be present unless its timestamp lies in such a microsecond (recorded finding)",
               "np.allclose(atol=1e-9) of _check_time_equals is modelled as |a - b| <= 1 tick; for values exactly 1 ns apart the float comparison is decided by rounding: those cases are "
               "counted float_ambiguous in the model comparison (the statement-level oracle still judges them: a time series result must carry every operand's time axis exactly)",
               "split: the model's split_tsd is the `axis == 0` branch; the negative spelling of the time axis (axis=-ndim) and the keyword spelling (ary=) are judged by the oracle only "
               "(C14_split_negative_axis_refuted records what the code's literal test does)",
               "not modelled: in-place operators / out= holding a time series (the implementation recurses), kwargs holding time series, TsdFrame metadata (C13), negative split indices, jax backend",
               "argument-form cases: the model is asked whenever the form reaches the code it models (all dtypes, labels coded as integers, histories, placements, units); it is NOT asked (statement oracle only) for "
               "np.concatenate with a positional axis that is not a Python int (the model takes NumPy's output as given and has no argument parsing), np.array / np.asarray conversions (not dispatched), negative split indices; "
               "with non-finite data the model's cell comparison is dropped (class, time axis, support, shape and labels are still compared)"]

U = 1953125  # 2^-9 s in ticks


def _nap():
    import pynapple as nap
    return nap


# ------------------------------------------------------------------------------------------------
# objects
SEC = 10 ** 9
DTYPES = [np.float32, np.int64, np.int32, np.int16, np.int8, np.uint8, np.uint16, np.uint32, np.uint64, np.bool_]
FILLS = ["nan", "pinf", "ninf", "pminf", "equal", "zeros"]
LABELS = ["str", "int_unsorted", "float", "mixed", "default", "str_unsorted"]
TFORMS = ["list", "tuple", "pd.Index", "pd.Series", "tsindex", "other.t", "ms", "us", "kw"]
TFORMS_INT = ["int64", "int32", "uint64", "uint8", "pyint_list", "ms_int"]   # need whole-second ticks
_TMP = [None]


def tmpdir():
    if _TMP[0] is None:
        import tempfile
        _TMP[0] = tempfile.mkdtemp(prefix="c14_", dir=C.CACHE if __import__("os").path.isdir(C.CACHE) else None)
    return _TMP[0]


def fill_data(shape, dtype, base, fill=None):
    """distinct small integer cells of the given dtype (bool: a mixed pattern); `fill` overwrites with special values"""
    size = int(np.prod(shape))
    dt = np.dtype(dtype)
    if dt.kind == "b" and fill is not None:
        d = ((np.arange(size) + base) % 3 != 0).reshape(shape)
    else:
        d = (np.arange(size) + base).reshape(shape).astype(dtype)
    if fill in (None, "arange"):
        return d
    d = np.array(d)
    flat = d.reshape(-1)
    if fill == "zeros":
        flat[:] = 0
    elif fill == "equal":
        flat[:] = 3
    elif dt.kind == "f" and size:
        if fill == "nan":
            flat[::3] = np.nan
        elif fill == "pinf":
            flat[1::3] = np.inf
            flat[:1] = np.inf
        elif fill == "ninf":
            flat[::4] = -np.inf
        elif fill == "pminf":                        # +inf and -inf side by side (their sum is NaN), a NaN at the end
            flat[0] = np.inf
            flat[1:2] = -np.inf
            if size > 2:
                flat[-1] = np.nan
    return d


def labels_for(kind, k, cb):
    if kind == "str":
        return ["c%d" % (cb + j) for j in range(k)]
    if kind == "str_unsorted":
        return ["c%d" % (cb + (k - 1 - j)) for j in range(k)]
    if kind == "int_unsorted":                       # integers that are neither 0..k-1 nor sorted
        return [cb + 3 * ((j * 2 + 1) % max(k, 1)) + (50 if j % 2 else 0) for j in range(k)]
    if kind == "float":
        return [cb + j + 0.5 for j in range(k)]
    if kind == "mixed":
        return [("c%d" % (cb + j)) if j % 2 else cb + j for j in range(k)]
    if kind == "default":
        return None
    return [cb + j for j in range(k)]


def lab(c):
    """a column label as a plain Python value"""
    if isinstance(c, (bool, np.bool_)):
        return bool(c)
    if isinstance(c, (int, np.integer)):
        return int(c)
    if isinstance(c, (float, np.floating)):
        return float(c)
    return str(c)


def colcode(l):
    """injective integer code of a label (the model's labels are integers): ints (< 1000) as they are, 'c<k>' -> 1000 + k, k + 0.5 -> 2000 + 2k + 1"""
    if isinstance(l, bool):
        return 3000 + int(l)
    if isinstance(l, int):
        return l
    if isinstance(l, float):
        return 2000 + int(round(2 * l))
    return 1000 + int(l[1:]) if l[:1] == "c" and l[1:].isdigit() else 4000 + sum(map(ord, l))


def split_support(sup, ticks):
    """the same samples under MANY intervals: every gap between two consecutive distinct samples of an interval is cut into
    [.., p + g/8], an island [p + 3g/8, p + 5g/8] holding no sample, [q - g/8, ..]: intervals with one sample and with none"""
    out = []
    for a, b in sup:
        ins = sorted(set(t for t in ticks if a <= t <= b))
        cur = a
        for p, q in zip(ins, ins[1:]):
            g = q - p
            if g < 80000:
                continue
            out.append((cur, p + g // 8))
            out.append((p + 3 * g // 8, p + 5 * g // 8))
            cur = q - g // 8
        out.append((cur, b))
    return out


def time_arg(nap, ticks, tform):
    """the timestamps `ticks` in the argument form `tform` -> (t, time_units)"""
    import pandas as pd
    a = G.arr(ticks)
    if tform in (None, "ndarray", "kw", "pandas_ctor"):
        return a, "s"
    if tform == "list":
        return a.tolist(), "s"
    if tform == "tuple":
        return tuple(a.tolist()), "s"
    if tform == "pd.Index":
        return pd.Index(a, dtype=np.float64), "s"
    if tform == "pd.Series":
        return pd.Series(a, dtype=np.float64), "s"
    if tform == "tsindex":                          # another object's TsIndex
        return nap.Ts(a).index, "s"
    if tform == "other.t":
        return nap.Ts(a).t, "s"
    if tform == "ms":
        return np.asarray(ticks, dtype=np.float64) / 1e6 if len(ticks) else np.array([]), "ms"
    if tform == "us":
        return np.asarray(ticks, dtype=np.float64) / 1e3 if len(ticks) else np.array([]), "us"
    if tform == "ms_int":
        assert all(t % 10 ** 6 == 0 for t in ticks)
        return np.asarray([t // 10 ** 6 for t in ticks], dtype=np.int64), "ms"
    assert all(t % SEC == 0 for t in ticks), "integer time forms need whole seconds"
    secs = [t // SEC for t in ticks]
    if tform == "pyint_list":
        return [int(v) for v in secs], "s"
    return np.asarray(secs, dtype={"int64": np.int64, "int32": np.int32, "uint64": np.uint64, "uint8": np.uint8}[tform]), "s"


def mk(nap, shape, t0=0, sup=None, dtype=float, base=1, cols_base=10, ticks=None, v=None):
    """time series of the class given by the rank of `shape`; times t0 + 2U*i (or `ticks`); distinct small integer cells.
    v = variant of the ARGUMENT FORMS (all optional): fill (special data values), tform (form of t), step (tick spacing), origin (shift of every time),
    sup ('one' | 'many' | 'default' = no time_support passed), labels, metadata, dup ('pairs' | 'all_equal'), hist (a multi-step history)"""
    v = v or {}
    n = shape[0]
    hist = v.get("hist")
    pad = 1 if hist in ("slice", "restrict", "get", "split_piece", "bool_index") else 0      # the parent holds one more row at each end
    org = v.get("origin", 0)
    step = v.get("step", 2 * U)
    t0 = t0 + org
    m = n + 2 * pad
    if ticks is None:
        ticks = [t0 + step * (i - pad) for i in range(m)]
        if v.get("dup") == "pairs":
            ticks = [t0 + step * ((i - pad) // 2) for i in range(m)]
        elif v.get("dup") == "all_equal":
            ticks = [t0] * m
    else:
        ticks = [t + org for t in ticks]
        assert not pad
    if sup is None:
        sup = [(t0 - step // 2 - pad * step, t0 + 2 * step + 1000), (t0 + 3 * step - 1000, t0 + step * (max(n, 5) + pad) + step // 2)]
    else:
        sup = [(s + org, e + org) for s, e in sup]
        assert not pad
    skind = v.get("sup")
    if skind == "one":
        sup = [(sup[0][0], sup[-1][1])]
    elif skind == "many":
        sup = split_support(sup, ticks)
    dshape = (m,) + tuple(shape[1:])
    d = fill_data(dshape, dtype, base, v.get("fill"))
    if v.get("dform") == "list" and m > 0:         # (an empty nested list has lost its trailing dimensions)
        d = d.tolist()
    tform = v.get("tform")
    if tform == "pd.Series" and len(shape) == 1:
        tform = "pd.Index"          # Tsd(t=<pandas Series>, d) IS the pandas constructor (the Series' index becomes the time axis and d is ignored): not a form of t for a Tsd
    t, units = time_arg(nap, ticks, tform)
    kw = {}
    if not (skind == "default" and len(set(ticks)) >= 2):
        kw["time_support"] = nap.IntervalSet(G.arr([s for s, _ in sup]), G.arr([e for _, e in sup]))
    if units != "s":
        kw["time_units"] = units
    rank = len(shape)
    if rank == 2:
        lb = labels_for(v.get("labels"), shape[1], cols_base)
        if lb is not None:
            kw["columns"] = lb
        if v.get("metadata"):
            kw["metadata"] = {"grp": [j % 2 for j in range(shape[1])]}
    cls = nap.Tsd if rank == 1 else nap.TsdFrame if rank == 2 else nap.TsdTensor
    if tform == "pandas_ctor" and rank <= 2:
        import pandas as pd
        kw.pop("columns", None)
        if rank == 1:
            x = nap.Tsd(pd.Series(np.asarray(d), index=G.arr(ticks)), **kw)
        else:
            lb = labels_for(v.get("labels"), shape[1], cols_base)
            x = nap.TsdFrame(pd.DataFrame(np.asarray(d), index=G.arr(ticks), columns=lb if lb is not None else list(range(shape[1]))), **kw)
    elif tform == "kw":
        x = cls(t=t, d=d, **kw)
    else:
        x = cls(t, d, **kw)
    if hist is None:
        return x
    lo, hi = (ticks[pad], ticks[m - 1 - pad]) if n else (None, None)
    if hist == "slice":
        return x[pad:pad + n]
    if hist == "split_piece":
        return np.split(x, [pad, pad + n])[1]
    if hist == "bool_index":
        mask = np.zeros(m, dtype=bool)
        mask[pad:pad + n] = True
        return x[mask]
    if hist == "get":
        return x.get(lo / 1e9, hi / 1e9) if n else x[0:0]
    if hist == "restrict":
        if not n:
            return x[0:0]
        return x.restrict(nap.IntervalSet(G.arr([lo - step // 4, lo + step // 2] if n > 1 else [lo - step // 4]), G.arr([lo + step // 4, hi + step // 4] if n > 1 else [hi + step // 4])))
    if hist == "arith":
        return (x + 0) if np.dtype(dtype).kind != "b" else (x | False)
    if hist == "npfunc":
        return np.flip(np.flip(x, -1), -1) if rank > 1 else np.copy(x)
    if hist == "astype":
        return x.astype(np.dtype(dtype))
    if hist == "concat":
        return np.concatenate([x[:n // 2], x[n // 2:]]) if n >= 2 else x
    if hist == "saveload":
        import os
        _TMP.append(0)
        path = os.path.join(tmpdir(), "o%d.npz" % (len(_TMP) % 40))
        x.save(path)
        return nap.load_file(path)
    if hist == "loc" and rank == 2 and shape[1] >= 1:
        cols = list(x.columns)
        return x.loc[cols]
    return x


def is_nap(nap, r):
    return isinstance(r, (nap.Tsd, nap.TsdFrame, nap.TsdTensor))


def short(r):
    """a short description of an outcome for the evidence (repr of a time series may itself raise: it is not what is being checked here)"""
    try:
        return str(r)[:80]
    except Exception:  # noqa: BLE001
        return type(r).__name__


HIST_C14 = ("arith", "npfunc", "astype", "concat", "split_piece")    # histories made of this property's own operations


def build(nap, res, shape, v=None, **kw):
    """mk, robust: when a receiver cannot be built, (a) it is a violation if the failing step is one of THIS property's operations (the history is an arithmetic /
    NumPy function / astype / split / concatenate call on an object the constructor accepts), (b) otherwise it is not an input of this property (counted)"""
    try:
        x = mk(nap, shape, v=v, **kw)
        if x.shape[0] == 0 and len(x.time_support):
            # ASSUMPTIONS: "an empty series has the empty support" (the base constructor gives every empty result the empty support): not an input of this property
            res.count("not_generated:empty_series_with_non_empty_support")
            return None
        return x
    except Exception as ex:  # noqa: BLE001
        h = (v or {}).get("hist")
        if h in HIST_C14:
            try:
                mk(nap, shape, v={k: w for k, w in v.items() if k != "hist"}, **kw)
                viol(res, {"op": "array_function", "part": "raises", "receiver_history": h}, "NumPy accepts the call on the raw array but the history step '%s' on the time series raises %s" % (h, type(ex).__name__),
                     {"shape": list(shape), "variant": vname(v)}, impl=type(ex).__name__)
                return None
            except Exception:  # noqa: BLE001
                pass
        res.count("receiver_not_constructible:" + type(ex).__name__)
        return None


def klass(nap, r):
    return 0 if isinstance(r, nap.Tsd) else 1 if isinstance(r, nap.TsdFrame) else 2


def ticks_of(r):
    return [C.to_ns(v) for v in r.t]


def sup_of(r):
    return [(C.to_ns(s), C.to_ns(e)) for s, e in r.time_support.values]


def cols_of(nap, r):
    return [lab(c) for c in r.columns] if isinstance(r, nap.TsdFrame) else []


def exact_cells(v):
    """cells as integers when they ARE integers (small integer data of any dtype), else None"""
    v = np.asarray(v)
    if v.dtype.kind in "iub":
        return [int(c) for c in v.ravel()]
    with np.errstate(all="ignore"):
        if v.dtype.kind == "f" and (not v.size or (bool(np.all(np.isfinite(v))) and bool(np.all(v == np.floor(v))))):
            return [int(c) for c in v.ravel()]
    return None


def int_cells(v):
    """cells for the model (which never looks inside a NumPy result): non-finite / fractional cells are replaced by their position"""
    c = exact_cells(v)
    return c if c is not None else list(range(np.asarray(v).size))


def ts6(nap, x):
    """the 6 driver args of an operand"""
    if is_nap(nap, x):
        v = np.asarray(x.values)
        return "\t".join([str(klass(nap, x)), C.fmt_ints(ticks_of(x)), C.fmt_iset(sup_of(x)), C.fmt_ints(v.shape),
                          C.fmt_ints(int_cells(v)), C.fmt_ints([colcode(l) for l in cols_of(nap, x)])])
    v = np.asarray(x)
    return "\t".join(["9", "", "", C.fmt_ints(v.shape), C.fmt_ints(int_cells(v)), ""])


def npres_arg(exp):
    if isinstance(exp, np.ndarray):
        return "1 " + C.fmt_ints(exp.shape) if exp.ndim else "1"
    return "0"


def same_values(a, b):
    """exact equality of what NumPy computed: same structure, shape, dtype and bits (NaN == NaN)"""
    if isinstance(b, (tuple, list)):
        return isinstance(a, type(b)) and len(a) == len(b) and all(same_values(p, q) for p, q in zip(a, b))
    a = np.asarray(a)
    b = np.asarray(b)
    if a.shape != b.shape or a.dtype != b.dtype:
        return False
    if a.dtype.kind in "fc":
        return bool(np.array_equal(a, b, equal_nan=True))
    return bool(np.array_equal(a, b))


def raw(nap, r):
    if is_nap(nap, r):
        return np.asarray(r.values)
    if isinstance(r, (tuple, list)):
        return type(r)(raw(nap, q) for q in r)
    return r


def call(f, *a):
    try:
        with np.errstate(all="ignore"):
            return ("ok", f(*a))
    except RecursionError:
        return ("exc", "RecursionError")
    except Exception as ex:  # noqa: BLE001
        return ("exc", type(ex).__name__)


ERRMAP = {"AssertLen": "AssertionError", "AssertDim": "AssertionError", "RuntimeDim": "RuntimeError",
          "RuntimeOrder": "RuntimeError", "ValueSplit": "ValueError", "ValueBroadcast": "ValueError"}


def parse_out(s):
    """model verdict -> dict"""
    s = s.strip()
    if s.startswith("TS "):
        k, t, sup, shape, cells, cols = s[3:].split("|")
        sp = [int(v) for v in sup.split()]
        return {"kind": "TS", "k": int(k), "t": [int(v) for v in t.split()], "sup": list(zip(sp[0::2], sp[1::2])),
                "shape": tuple(int(v) for v in shape.split()), "cells": [int(v) for v in cells.split()], "cols": [int(v) for v in cols.split()]}
    if s.startswith("ARR "):
        shape, cells = s[4:].split("|")
        return {"kind": "ARR", "shape": tuple(int(v) for v in shape.split()), "cells": [int(v) for v in cells.split()]}
    if s.startswith("ERR "):
        return {"kind": "ERR", "err": s[4:]}
    return {"kind": s}


def agree(nap, m, got, cells_expected=None):
    """does the implementation's outcome `got` = ("ok", r) | ("exc", name) match the model verdict m? returns None or a reason"""
    if m["kind"] == "REFUSED":
        return None if got == ("exc", "TypeError") else "model: refused (TypeError)"
    if m["kind"] == "ERR":
        return None if got == ("exc", ERRMAP.get(m["err"], "?")) else "model: raises " + ERRMAP.get(m["err"], m["err"])
    if got[0] != "ok":
        return "implementation raised %s, model returns %s" % (got[1], m["kind"])
    r = got[1]
    if m["kind"] == "OTHER":
        return None if (not is_nap(nap, r) and not isinstance(r, np.ndarray)) else "model: not array-like result passed through"
    if m["kind"] == "ARR":
        if is_nap(nap, r) or not isinstance(r, np.ndarray):
            return "model: raw ndarray"
        if r.shape != m["shape"]:
            return "model: raw ndarray of shape %s" % (m["shape"],)
        return None
    if m["kind"] == "TS":
        if not is_nap(nap, r):
            return "model: time series"
        if klass(nap, r) != m["k"] or ticks_of(r) != m["t"] or sup_of(r) != m["sup"] or tuple(r.values.shape) != m["shape"]:
            return "model: class %d t %s sup %s shape %s" % (m["k"], m["t"], m["sup"], m["shape"])
        if m["k"] == 1 and [colcode(l) for l in cols_of(nap, r)] != m["cols"]:
            return "model: columns %s" % m["cols"]
        if cells_expected is not None and m["cells"] != cells_expected:
            return "model cells differ from NumPy's"
        return None
    return "unparsed model verdict"


# ------------------------------------------------------------------------------------------------
# function table: (name, tag, f(X, o), other-operand builder or None)
def M(nap, X, name, *a, **k):
    """method form on a time series, function form on the raw array"""
    return getattr(X, name)(*a, **k) if is_nap(nap, X) else getattr(np, name)(X, *a, **k)


NEW_KINDS = ["pyint", "pyfloat", "pybool", "np.float32", "np.int64", "np.uint8", "np.float64", "0d", "0d_f32", "list", "tuple", "int32_array", "bool_array",
             "float_array", "nan", "inf", "-inf", "complex", "self.values", "self.values[::-1]", "self.values.T", "fortran_array", "strided_view", "self.t", "self.index"]


def others(shape, dtype, x=None):
    """operand kinds for binary functions, built from x's shape"""
    size = int(np.prod(shape))
    arr = (np.arange(size).reshape(shape) % 3 + 1).astype(dtype)
    out = {"scalar": dtype(2), "array": arr,
           # a plain Python number (NumPy 2 treats it as a weak scalar: the result keeps x's dtype, and wraps for small integer dtypes)
           "pyscalar": 100 if np.dtype(dtype).kind in "iu" else 1.5}
    if len(shape) >= 2:
        out["row"] = (np.arange(int(np.prod(shape[1:]))).reshape(shape[1:]) + 1).astype(dtype)       # broadcast along time
        out["col"] = (np.arange(shape[0]).reshape((shape[0],) + (1,) * (len(shape) - 1)) + 1).astype(dtype)
    out["higher"] = (np.arange(2 * size).reshape((2,) + tuple(shape)) + 1).astype(dtype)             # rank + 1, leading axis 2
    # ---- argument FORMS of the second operand (axis 2): Python int / float / bool, NumPy scalars, 0-d arrays, list, tuple, arrays of another dtype, non-finite scalars
    out.update({"pyint": 2, "pyfloat": 2.0, "pybool": True, "np.float32": np.float32(2), "np.int64": np.int64(2), "np.uint8": np.uint8(2), "np.float64": np.float64(2.5),
                "0d": np.array(2, dtype=dtype), "0d_f32": np.array(2, dtype=np.float32), "list": arr.tolist(), "tuple": tuple(arr.tolist()),
                "int32_array": arr.astype(np.int32), "bool_array": (arr % 2).astype(bool), "float_array": arr.astype(np.float64) + 0.5,
                "nan": float("nan"), "inf": float("inf"), "-inf": float("-inf"), "complex": 1j,
                "fortran_array": np.asfortranarray(arr), "strided_view": np.repeat(arr, 2, axis=0)[::2]})
    # ---- operands that share memory with x (axis 8)
    if x is not None:
        out["self.values"] = x.values
        out["self.values[::-1]"] = x.values[::-1]
        out["self.t"] = x.t                            # the receiver's own timestamps as an operand: ndarray, and the TsIndex (an ndarray subclass)
        out["self.index"] = x.index
        if len(shape) == 2 and shape[0] == shape[1]:
            out["self.values.T"] = x.values.T
    return out


def table(nap):
    T = []

    def add(name, tag, f, operand=None, dtype=float):
        T.append((name, tag, f, operand, dtype))
    # unary ufuncs (element-wise)
    for u in ["negative", "positive", "absolute", "fabs", "exp", "exp2", "log", "log1p", "sqrt", "cbrt", "square", "reciprocal", "sin", "tanh",
              "sign", "floor", "ceil", "rint", "isnan", "isfinite", "signbit", "logical_not"]:
        add(u, "ew", (lambda X, o, u=u: getattr(np, u)(X)))
    add("invert", "ew", lambda X, o: np.invert(X), dtype=np.int64)
    for u in ["modf", "frexp"]:
        add(u, "ew_multi", (lambda X, o, u=u: getattr(np, u)(X)))
    # binary ufuncs, every operand kind, both operand orders
    for u in ["add", "subtract", "multiply", "true_divide", "floor_divide", "power", "maximum", "minimum", "fmod", "mod", "hypot", "arctan2",
              "copysign", "greater", "less_equal", "equal", "not_equal", "logical_and"]:
        for kind in ["scalar", "array", "row", "col", "higher"]:
            add(u, "ew", (lambda X, o, u=u: getattr(np, u)(X, o)), kind)
        add(u + ":r", "ew", (lambda X, o, u=u: getattr(np, u)(o, X)), "array")
    for u in ["bitwise_and", "left_shift", "gcd"]:
        for kind in ["scalar", "array"]:
            add(u, "ew", (lambda X, o, u=u: getattr(np, u)(X, o)), kind, np.int64)
    for kind in ["scalar", "array", "row"]:
        add("divmod", "ew_multi", lambda X, o: np.divmod(X, o), kind)
    add("opdivmod", "ew_multi", lambda X, o: divmod(X, o), "scalar")
    add("divmod:r", "ew_multi", lambda X, o: np.divmod(o, X), "array")
    # operators
    ops = {"neg": lambda X, o: -X, "abs": lambda X, o: abs(X), "+": lambda X, o: X + o, "r+": lambda X, o: o + X, "-": lambda X, o: X - o, "r-": lambda X, o: o - X,
           "*": lambda X, o: X * o, "/": lambda X, o: X / o, "r/": lambda X, o: o / X, "//": lambda X, o: X // o, "**": lambda X, o: X ** o, "%": lambda X, o: X % o,
           "<": lambda X, o: X < o, "<=": lambda X, o: X <= o, ">": lambda X, o: X > o, ">=": lambda X, o: X >= o, "==": lambda X, o: X == o, "!=": lambda X, o: X != o}
    for name, f in ops.items():
        if name in ("neg", "abs"):
            add("op" + name, "ew", f)
        else:
            for kind in ["scalar", "array"]:
                add("op" + name, "ew", f, kind)
    # non-default dtypes with a plain Python scalar operand (seed C14-6: operands passed through np.asarray lose their weak-scalar status)
    for dt in (np.uint8, np.int16, np.float32, np.int64, float):
        for name in ("+", "r-", "*", "<"):
            add("op" + name + "@" + np.dtype(dt).name, "ew", ops[name], "pyscalar", dt)
        for u in ("add", "multiply", "maximum"):
            add(u + "@" + np.dtype(dt).name, "ew", (lambda X, o, u=u: getattr(np, u)(X, o)), "pyscalar", dt)
        add("subtract:r@" + np.dtype(dt).name, "ew", lambda X, o: np.subtract(o, X), "pyscalar", dt)
    add("left_shift@uint8", "ew", lambda X, o: np.left_shift(X, 1), None, np.uint8)
    add("op&", "ew", lambda X, o: X & o, "array", np.int64)
    add("op~", "ew", lambda X, o: ~X, None, np.int64)
    add("op@", "plain", lambda X, o: X @ o, "matvec")
    add("matmul", "plain", lambda X, o: np.matmul(X, o), "matvec")
    add("dot", "plain", lambda X, o: np.dot(X, o), "matvec")
    # reductions over every axis, function and method forms
    for r in ["sum", "mean", "std", "var", "min", "max", "prod", "median", "nansum", "nanmean", "argmax", "argmin", "any", "all", "ptp", "count_nonzero"]:
        for ax in [None, 0, 1, 2, -1]:
            add("%s(axis=%s)" % (r, ax), "plain", (lambda X, o, r=r, ax=ax: getattr(np, r)(X, axis=ax)))
    for r in ["sum", "mean", "max", "std", "argmax", "any"]:
        for ax in [None, 0, 1]:
            add("x.%s(axis=%s)" % (r, ax), "plain", (lambda X, o, r=r, ax=ax: M(nap, X, r, axis=ax)))
    for ax in [0, 1]:
        add("sum(axis=%d,keepdims)" % ax, "plain", (lambda X, o, ax=ax: np.sum(X, axis=ax, keepdims=True)))
    add("percentile(50,axis=0)", "plain", lambda X, o: np.percentile(X, 50, axis=0))
    add("quantile([.25,.75],axis=0)", "plain", lambda X, o: np.quantile(X, [0.25, 0.75], axis=0))
    add("average(axis=0)", "plain", lambda X, o: np.average(X, axis=0))
    # cumulative
    for c in ["cumsum", "cumprod", "nancumsum"]:
        for ax in [None, 0, 1]:
            add("%s(axis=%s)" % (c, ax), "plain", (lambda X, o, c=c, ax=ax: getattr(np, c)(X, axis=ax)))
    add("x.cumsum(axis=0)", "plain", lambda X, o: M(nap, X, "cumsum", axis=0))
    for ax in [0, -1]:
        add("diff(axis=%d)" % ax, "plain", (lambda X, o, ax=ax: np.diff(X, axis=ax)))
    add("gradient(axis=0)", "plain", lambda X, o: np.gradient(X, axis=0))
    # reshaping / indexing
    add("reshape(-1)", "plain", lambda X, o: np.reshape(X, (-1,)))
    add("reshape(n,-1)", "plain", lambda X, o: np.reshape(X, (X.shape[0], -1)) if X.shape[0] else np.reshape(X, (0, 1)))
    add("reshape(-1,1)", "plain", lambda X, o: np.reshape(X, (-1, 1)))
    add("x.reshape(same)", "plain", lambda X, o: M(nap, X, "reshape", X.shape))
    add("ravel", "plain", lambda X, o: np.ravel(X))
    add("transpose", "plain", lambda X, o: np.transpose(X))
    add("x.transpose()", "plain", lambda X, o: M(nap, X, "transpose"))
    add("swapaxes(0,-1)", "plain", lambda X, o: np.swapaxes(X, 0, -1))
    add("moveaxis(0,-1)", "plain", lambda X, o: np.moveaxis(X, 0, -1))
    add("squeeze", "plain", lambda X, o: np.squeeze(X))
    add("x.squeeze()", "plain", lambda X, o: M(nap, X, "squeeze"))
    for ax in [0, 1, -1]:
        add("expand_dims(%d)" % ax, "plain", (lambda X, o, ax=ax: np.expand_dims(X, ax)))
    add("atleast_2d", "plain", lambda X, o: np.atleast_2d(X))
    add("atleast_3d", "plain", lambda X, o: np.atleast_3d(X))
    for ax in [None, 0, -1]:
        add("flip(%s)" % ax, "plain", (lambda X, o, ax=ax: np.flip(X, ax)))
    add("roll(1,axis=0)", "plain", lambda X, o: np.roll(X, 1, axis=0))
    # permutations of the columns (axis 1): same shape, so labels are kept - the DATA columns move
    add("roll(1,axis=1)", "plain", lambda X, o: np.roll(X, 1, axis=1))
    add("flip(1)", "plain", lambda X, o: np.flip(X, 1))
    add("fliplr", "plain", lambda X, o: np.fliplr(X))
    add("take(reversed,axis=1)", "plain", lambda X, o: np.take(X, list(range(X.shape[1]))[::-1], axis=1))
    add("flipud", "plain", lambda X, o: np.flipud(X))
    for ax in [None, 0, -1]:
        add("repeat(2,%s)" % ax, "plain", (lambda X, o, ax=ax: np.repeat(X, 2, axis=ax)))
    add("tile(2)", "plain", lambda X, o: np.tile(X, 2))
    add("tile((2,1..))", "plain", lambda X, o: np.tile(X, (2,) + (1,) * (X.ndim - 1)))
    add("take([0],axis=0)", "plain", lambda X, o: np.take(X, [0], axis=0))
    add("take(all,axis=0)", "plain", lambda X, o: np.take(X, list(range(X.shape[0]))[::-1], axis=0))
    add("take([0],axis=-1)", "plain", lambda X, o: np.take(X, [0], axis=-1))
    add("take(0)", "plain", lambda X, o: np.take(X, 0))
    add("delete(0,axis=0)", "plain", lambda X, o: np.delete(X, 0, axis=0))
    add("insert(0,7,axis=0)", "plain", lambda X, o: np.insert(X, 0, 7, axis=0))
    add("append(axis=None)", "plain", lambda X, o: np.append(X, 7))
    add("pad(1)", "plain", lambda X, o: np.pad(X, 1))
    add("clip", "ew", lambda X, o: np.clip(X, 2, 4))
    add("x.clip", "ew", lambda X, o: M(nap, X, "clip", 2, 4))
    add("round", "ew", lambda X, o: np.round(X))
    add("x.round()", "ew", lambda X, o: M(nap, X, "round"))
    add("around", "ew", lambda X, o: np.around(X, 1))
    add("nan_to_num", "ew", lambda X, o: np.nan_to_num(X))
    add("copy", "ew", lambda X, o: np.copy(X))
    add("x.copy()", "ew", lambda X, o: M(nap, X, "copy"))
    add("x.astype(int)", "ew", lambda X, o: X.astype(np.int64) if not is_nap(nap, X) else X.astype(np.int64))
    add("zeros_like", "ew", lambda X, o: np.zeros_like(X))
    add("ones_like", "ew", lambda X, o: np.ones_like(X))
    add("full_like", "ew", lambda X, o: np.full_like(X, 3))
    add("where(c,x,0)", "ew", lambda X, o: np.where(np.asarray(X) > 2, X, 0))
    add("isin", "ew", lambda X, o: np.isin(X, [1, 2, 3]))
    add("real", "ew", lambda X, o: np.real(X))
    add("angle", "ew", lambda X, o: np.angle(X))
    add("argsort(axis=0)", "plain", lambda X, o: np.argsort(X, axis=0))
    add("unique", "plain", lambda X, o: np.unique(X))
    add("stack([x,x])", "plain", lambda X, o: np.stack([X, X]))
    add("stack([x,x],-1)", "plain", lambda X, o: np.stack([X, X], axis=-1))
    add("column_stack", "plain", lambda X, o: np.column_stack([X, X]))
    add("outer", "plain", lambda X, o: np.outer(X, [1.0, 2.0]))
    add("broadcast_to", "plain", lambda X, o: np.broadcast_to(X, (2,) + X.shape))
    add("tril", "plain", lambda X, o: np.tril(X))
    add("trace", "plain", lambda X, o: np.trace(X))
    add("diagonal", "plain", lambda X, o: np.diagonal(X))
    add("convolve", "plain", lambda X, o: np.convolve(X, [1.0, 1.0], "same"))
    add("interp", "plain", lambda X, o: np.interp([1.5, 2.5], np.arange(X.shape[0]), X))
    add("searchsorted", "plain", lambda X, o: np.searchsorted(X, [2.5]))
    add("digitize", "plain", lambda X, o: np.digitize(X, [2.0, 4.0]))
    add("bincount", "plain", lambda X, o: np.bincount(X), None, np.int64)
    # results that are not arrays
    add("shape", "plain", lambda X, o: np.shape(X))
    add("ndim", "plain", lambda X, o: np.ndim(X))
    add("size", "plain", lambda X, o: np.size(X))
    add("nonzero", "plain", lambda X, o: np.nonzero(X))
    add("where(c)", "plain", lambda X, o: np.where(np.asarray(X) > 2))
    add("histogram", "plain", lambda X, o: np.histogram(X, bins=3, range=(0, 30)))
    add("array_equal", "plain", lambda X, o: np.array_equal(X, X))
    add("allclose", "plain", lambda X, o: np.allclose(X, 1.0))
    add("unique(counts)", "plain", lambda X, o: np.unique(X, return_counts=True))
    add("meshgrid", "plain", lambda X, o: np.meshgrid(X, [1.0, 2.0]))
    # refused: the exclusion list and np.fft.*
    add("sort", "excluded", lambda X, o: np.sort(X))
    add("x.sort()", "excluded", lambda X, o: M(nap, X, "sort"))
    add("sort_complex", "excluded", lambda X, o: np.sort_complex(X))
    add("partition", "excluded", lambda X, o: np.partition(X, 0, axis=0))
    add("argpartition", "excluded", lambda X, o: np.argpartition(X, 0, axis=0))
    add("lexsort", "excluded", lambda X, o: np.lexsort(X))
    add("fft.fft", "fft", lambda X, o: np.fft.fft(X, axis=0))
    add("fft.rfft", "fft", lambda X, o: np.fft.rfft(X, axis=0))
    add("fft.fftshift", "fft", lambda X, o: np.fft.fftshift(X))
    return T


def table_forms(nap):
    """axis 3: the same calls with their parameters spelled positionally AND by keyword, optional parameters at non-default values, option flags COMBINED
    (every entry is judged like the entries of table(): bit-for-bit NumPy's result on the raw array, time axis / class / labels per the statement)"""
    T = []

    def add(name, tag, f, operand=None, dtype=float):
        T.append((name, tag, f, operand, dtype))

    def tail_mask(X):
        return (np.arange(int(np.prod(np.shape(X)))).reshape(np.shape(X)) % 2 == 0)
    # reductions: positional axis, method with positional axis, tuple axis, NumPy-integer axis, the array itself by keyword
    for r in ["sum", "mean", "max", "min", "prod", "any", "argmax", "std"]:
        for ax in [0, 1, -1]:
            add("%s(X,%d)" % (r, ax), "plain", (lambda X, o, r=r, ax=ax: getattr(np, r)(X, ax)))
        add("%s(a=X,axis=0)" % r, "plain", (lambda X, o, r=r: getattr(np, r)(a=X, axis=0)))
        add("%s(a=X,axis=1)" % r, "plain", (lambda X, o, r=r: getattr(np, r)(a=X, axis=1)))
        add("%s(X,axis=np.int64(1))" % r, "plain", (lambda X, o, r=r: getattr(np, r)(X, axis=np.int64(1))))
    for r in ["sum", "mean", "max", "std", "cumsum", "argmin", "all"]:
        for ax in [0, 1]:
            add("x.%s(%d)" % (r, ax), "plain", (lambda X, o, r=r, ax=ax: M(nap, X, r, ax)))
    for r in ["sum", "mean", "max", "std", "median", "nansum", "count_nonzero", "ptp"]:
        add("%s(axis=(0,1))" % r, "plain", (lambda X, o, r=r: getattr(np, r)(X, axis=(0, 1))))
        add("%s(axis=(1,))" % r, "plain", (lambda X, o, r=r: getattr(np, r)(X, axis=(1,))))
        add("%s(axis=(1,2))" % r, "plain", (lambda X, o, r=r: getattr(np, r)(X, axis=(1, 2))))
        add("%s(axis=1,keepdims)" % r, "plain", (lambda X, o, r=r: getattr(np, r)(X, axis=1, keepdims=True)))
        add("%s(axis=None,keepdims)" % r, "plain", (lambda X, o, r=r: getattr(np, r)(X, axis=None, keepdims=True)))
    # optional parameters at None where None is the documented default
    add("sum(X,None)", "plain", lambda X, o: np.sum(X, None))
    add("mean(axis=None,dtype=None,out=None)", "plain", lambda X, o: np.mean(X, axis=None, dtype=None, out=None))
    add("cumsum(X,None)", "plain", lambda X, o: np.cumsum(X, None))
    add("squeeze(X,None)", "plain", lambda X, o: np.squeeze(X, None))
    add("argmax(X,None)", "plain", lambda X, o: np.argmax(X, None))
    add("std(axis=0,dtype=None,out=None,ddof=0)", "plain", lambda X, o: np.std(X, axis=0, dtype=None, out=None, ddof=0))
    add("round(X,0,None)", "ew", lambda X, o: np.round(X, 0, None))
    add("clip(X,2,4,None)", "ew", lambda X, o: np.clip(X, 2, 4, None))
    add("repeat(X,2,None)", "plain", lambda X, o: np.repeat(X, 2, None))
    add("take(X,[0],None)", "plain", lambda X, o: np.take(X, [0], None))
    add("roll(X,1,None)", "plain", lambda X, o: np.roll(X, 1, None))
    add("transpose(X,None)", "plain", lambda X, o: np.transpose(X, None))
    add("delete(X,0,None)", "plain", lambda X, o: np.delete(X, 0, None))
    add("add(X,1,None)", "ew", lambda X, o: np.add(X, 1, None))
    add("add(X,1,out=None,where=True,dtype=None)", "ew", lambda X, o: np.add(X, 1, out=None, where=True, dtype=None))
    # option flags combined
    add("sum(axis=1,dtype=f32,keepdims)", "plain", lambda X, o: np.sum(X, axis=1, dtype=np.float32, keepdims=True))
    add("sum(axis=1,dtype=f32)", "plain", lambda X, o: np.sum(X, axis=1, dtype=np.float32))
    add("sum(X,1,f32,None,True)", "plain", lambda X, o: np.sum(X, 1, np.float32, None, True))
    add("sum(axis=1,where,initial)", "plain", lambda X, o: np.sum(X, axis=1, where=tail_mask(X), initial=5))
    add("sum(axis=0,where,keepdims)", "plain", lambda X, o: np.sum(X, axis=0, where=tail_mask(X), keepdims=True))
    add("mean(axis=1,dtype=f64,keepdims)", "plain", lambda X, o: np.mean(X, axis=1, dtype=np.float64, keepdims=True))
    add("mean(axis=-1,where)", "plain", lambda X, o: np.mean(X, axis=-1, where=tail_mask(X)))
    add("std(axis=1,ddof=1,keepdims)", "plain", lambda X, o: np.std(X, axis=1, ddof=1, keepdims=True))
    add("std(X,0,None,None,1)", "plain", lambda X, o: np.std(X, 0, None, None, 1))
    add("var(axis=0,ddof=1,dtype=f32)", "plain", lambda X, o: np.var(X, axis=0, ddof=1, dtype=np.float32))
    add("max(axis=1,initial,keepdims)", "plain", lambda X, o: np.max(X, axis=1, initial=3, keepdims=True))
    add("min(axis=1,initial,where)", "plain", lambda X, o: np.min(X, axis=1, initial=100, where=tail_mask(X)))
    add("argmax(axis=1,keepdims)", "plain", lambda X, o: np.argmax(X, axis=1, keepdims=True))
    add("argmin(axis=0,keepdims)", "plain", lambda X, o: np.argmin(X, axis=0, keepdims=True))
    add("median(axis=1,keepdims)", "plain", lambda X, o: np.median(X, axis=1, keepdims=True))
    add("quantile(.5,axis=1,keepdims,method=lower)", "plain", lambda X, o: np.quantile(X, 0.5, axis=1, keepdims=True, method="lower"))
    add("quantile(q=,axis=-1)", "plain", lambda X, o: np.quantile(X, q=[0.25, 0.75], axis=-1))
    add("percentile(X,[25,75],1)", "plain", lambda X, o: np.percentile(X, [25, 75], 1))
    add("nanmean(axis=1,keepdims)", "plain", lambda X, o: np.nanmean(X, axis=1, keepdims=True))
    add("average(axis=1,weights)", "plain", lambda X, o: np.average(X, axis=1, weights=np.arange(np.shape(X)[1]) + 1.0))
    add("average(axis=0,weights,returned)", "plain", lambda X, o: np.average(X, axis=0, weights=np.arange(np.shape(X)[0]) + 1.0, returned=True))
    add("average(axis=1,keepdims)", "plain", lambda X, o: np.average(X, axis=1, keepdims=True))
    # cumulative / differences
    add("cumsum(X,0)", "plain", lambda X, o: np.cumsum(X, 0))
    add("cumsum(X,1)", "plain", lambda X, o: np.cumsum(X, 1))
    add("cumsum(axis=1,dtype=f32)", "plain", lambda X, o: np.cumsum(X, axis=1, dtype=np.float32))
    add("cumsum(a=X,axis=0,dtype=f64)", "plain", lambda X, o: np.cumsum(a=X, axis=0, dtype=np.float64))
    add("cumprod(X,0,f64)", "plain", lambda X, o: np.cumprod(X, 0, np.float64))
    add("diff(X,1,0)", "plain", lambda X, o: np.diff(X, 1, 0))
    add("diff(n=2,axis=0)", "plain", lambda X, o: np.diff(X, n=2, axis=0))
    add("diff(n=0)", "plain", lambda X, o: np.diff(X, n=0))
    add("diff(axis=0,prepend)", "plain", lambda X, o: np.diff(X, axis=0, prepend=0))
    add("diff(axis=0,prepend,append)", "plain", lambda X, o: np.diff(X, axis=0, prepend=0, append=0))
    add("diff(axis=-1,prepend)", "plain", lambda X, o: np.diff(X, axis=-1, prepend=0))
    add("gradient(X,2.0,axis=0,edge_order=1)", "plain", lambda X, o: np.gradient(X, 2.0, axis=0, edge_order=1))
    add("gradient(axis=(0,))", "plain", lambda X, o: np.gradient(X, axis=(0,)))
    # element-wise functions with keywords
    add("clip(a_min=,a_max=)", "ew", lambda X, o: np.clip(X, a_min=2, a_max=4))
    add("clip(a=X,a_min=,a_max=)", "ew", lambda X, o: np.clip(a=X, a_min=2, a_max=4))
    add("clip(X,None,4)", "ew", lambda X, o: np.clip(X, None, 4))
    add("clip(X,2,None)", "ew", lambda X, o: np.clip(X, 2, None))
    add("clip(X,lo_array,hi_array)", "ew", lambda X, o: np.clip(X, o, o + 2), "array")
    add("x.clip(min=,max=)", "ew", lambda X, o: M(nap, X, "clip", min=2, max=4))
    add("round(X,1)", "ew", lambda X, o: np.round(X, 1))
    add("round(decimals=-1)", "ew", lambda X, o: np.round(X, decimals=-1))
    add("round(a=X)", "ew", lambda X, o: np.round(a=X))
    add("x.round(1)", "ew", lambda X, o: M(nap, X, "round", 1))
    add("nan_to_num(nan=,posinf=,neginf=)", "ew", lambda X, o: np.nan_to_num(X, nan=7.0, posinf=8.0, neginf=-8.0))
    add("nan_to_num(x=X)", "ew", lambda X, o: np.nan_to_num(x=X))
    add("nan_to_num(X,True,1.0)", "ew", lambda X, o: np.nan_to_num(X, True, 1.0))
    add("copy(order=F)", "ew", lambda X, o: np.copy(X, order="F"))
    add("copy(a=X)", "ew", lambda X, o: np.copy(a=X))
    add("zeros_like(dtype=i8)", "ew", lambda X, o: np.zeros_like(X, dtype=np.int8))
    add("ones_like(a=X)", "ew", lambda X, o: np.ones_like(a=X))
    add("full_like(fill_value=,dtype=)", "ew", lambda X, o: np.full_like(X, fill_value=3, dtype=np.float32))
    add("empty_like.shape", "plain", lambda X, o: np.empty_like(X).shape)
    add("where(c,x,array)", "ew", lambda X, o: np.where(np.asarray(X) > 2, X, o), "array")
    add("where(c,array,x)", "ew", lambda X, o: np.where(np.asarray(X) > 2, o, X), "array")
    add("where(c,x,x)", "ew", lambda X, o: np.where(np.asarray(X) > 2, X, X))
    add("isin(test_elements=,invert)", "ew", lambda X, o: np.isin(X, test_elements=[1, 2, 3], invert=True))
    add("isclose(atol=1)", "ew", lambda X, o: np.isclose(X, 2.0, rtol=0, atol=1))
    add("isclose(equal_nan)", "ew", lambda X, o: np.isclose(X, X, equal_nan=True))
    add("x.astype(f32)", "ew", lambda X, o: X.astype(np.float32))
    add("x.astype(dtype=,copy=)", "ew", lambda X, o: X.astype(dtype=np.int16, copy=True) if not is_nap(nap, X) else X.astype(np.int16, copy=True))
    add("astype(X,bool)", "ew", lambda X, o: np.astype(X, bool))
    add("isneginf", "ew", lambda X, o: np.isneginf(X))
    add("isposinf", "ew", lambda X, o: np.isposinf(X))
    add("isinf", "ew", lambda X, o: np.isinf(X))
    add("sinc", "ew", lambda X, o: np.sinc(X))
    add("heaviside", "ew", lambda X, o: np.heaviside(X, 0.5))
    add("fix", "ew", lambda X, o: np.fix(X))
    add("trunc", "ew", lambda X, o: np.trunc(X))
    add("float_power", "ew", lambda X, o: np.float_power(X, 2))
    add("nextafter", "ew", lambda X, o: np.nextafter(X, 100))
    add("ldexp", "ew", lambda X, o: np.ldexp(X, 2))
    # ufunc keywords (flags combined)
    add("add(dtype=f32)", "ew", lambda X, o: np.add(X, 1, dtype=np.float32))
    add("add(out=None,casting=unsafe,dtype=i8)", "ew", lambda X, o: np.add(X, 1, out=None, casting="unsafe", dtype=np.int8))
    add("multiply(order=F,subok=False)", "ew", lambda X, o: np.multiply(X, 2, order="F", subok=False))
    add("sqrt(dtype=f32)", "ew", lambda X, o: np.sqrt(X, dtype=np.float32))
    add("negative(where,out=zeros)", "ew", lambda X, o: np.negative(X, where=tail_mask(X), out=np.zeros(np.shape(X))))
    add("add(where,out=zeros)", "ew", lambda X, o: np.add(X, 1, where=tail_mask(X), out=np.zeros(np.shape(X))))
    add("add(X,1,buffer)", "ew", lambda X, o: np.add(X, 1, np.zeros(np.shape(X))))
    add("add(out=(buffer,))", "ew", lambda X, o: np.add(X, 1, out=(np.zeros(np.shape(X)),)))
    add("greater(dtype=bool)", "ew", lambda X, o: np.greater(X, 2, dtype=bool))
    add("divmod(dtype=f64)", "ew_multi", lambda X, o: np.divmod(X, 2, dtype=np.float64))
    add("modf(out=(None,None))", "ew_multi", lambda X, o: np.modf(X, out=(None, None)))
    # three operands / combined operators (a result of one operation fed into the next)
    add("(x+1)*2-x.values", "ew", lambda X, o: (X + 1) * 2 - np.asarray(X))
    add("abs(-x)**2", "ew", lambda X, o: abs(-X) ** 2)
    add("~(x>2)", "ew", lambda X, o: ~(X > 2))
    add("cumsum(x*2,axis=0)", "plain", lambda X, o: np.cumsum(X * 2, axis=0))
    add("sum(x*x.values,axis=1)", "plain", lambda X, o: np.sum(X * np.asarray(X), axis=1))
    add("mean(x-mean(x,0),1)", "plain", lambda X, o: np.mean(X - np.mean(X, 0), 1))
    add("fma: add(multiply(x,2),array)", "ew", lambda X, o: np.add(np.multiply(X, 2), o), "array")
    # reshaping / indexing with keywords and non-default options
    add("reshape(X,shape,order=F)", "plain", lambda X, o: np.reshape(X, np.shape(X), order="F"))
    add("reshape(X,(n,-1),order=F)", "plain", lambda X, o: np.reshape(X, (np.shape(X)[0], -1), order="F") if np.shape(X)[0] else np.reshape(X, (0, 1)))
    add("x.reshape((n,-1))", "plain", lambda X, o: X.reshape((np.shape(X)[0], -1)) if np.shape(X)[0] else X.reshape((0, 1)))
    add("ravel(order=F)", "plain", lambda X, o: np.ravel(X, order="F"))
    add("transpose(axes=identity)", "plain", lambda X, o: np.transpose(X, axes=tuple(range(np.ndim(X)))))
    add("transpose(X,reversed)", "plain", lambda X, o: np.transpose(X, tuple(range(np.ndim(X)))[::-1]))
    add("transpose(keep time,swap others)", "plain", lambda X, o: np.transpose(X, (0,) + tuple(range(1, np.ndim(X)))[::-1]))
    add("swapaxes(axis1=,axis2=)", "plain", lambda X, o: np.swapaxes(X, axis1=0, axis2=-1))
    add("swapaxes(1,2)", "plain", lambda X, o: np.swapaxes(X, 1, 2))
    add("moveaxis(source=,destination=)", "plain", lambda X, o: np.moveaxis(X, source=0, destination=-1))
    add("moveaxis(-1,1)", "plain", lambda X, o: np.moveaxis(X, -1, 1))
    add("squeeze(axis=-1)", "plain", lambda X, o: np.squeeze(X, axis=-1))
    add("squeeze(axis=0)", "plain", lambda X, o: np.squeeze(X, axis=0))
    add("expand_dims(axis=)", "plain", lambda X, o: np.expand_dims(X, axis=1))
    add("expand_dims(a=X,axis=(1,2))", "plain", lambda X, o: np.expand_dims(a=X, axis=(1, 2)))
    add("flip(axis=0)", "plain", lambda X, o: np.flip(X, axis=0))
    add("flip(m=X,axis=(0,1))", "plain", lambda X, o: np.flip(m=X, axis=(0, 1)))
    add("roll(shift=,axis=)", "plain", lambda X, o: np.roll(X, shift=1, axis=0))
    add("roll((1,1),(0,1))", "plain", lambda X, o: np.roll(X, (1, 1), (0, 1)))
    add("roll(2)", "plain", lambda X, o: np.roll(X, 2))
    add("rot90", "plain", lambda X, o: np.rot90(X))
    add("rot90(k=2,axes=(0,1))", "plain", lambda X, o: np.rot90(X, k=2, axes=(0, 1)))
    add("repeat(repeats=,axis=0)", "plain", lambda X, o: np.repeat(X, repeats=2, axis=0))
    add("repeat(1,axis=0)", "plain", lambda X, o: np.repeat(X, 1, axis=0))
    add("repeat([..],0)", "plain", lambda X, o: np.repeat(X, [1] * np.shape(X)[0], 0))
    add("tile(reps=1)", "plain", lambda X, o: np.tile(X, reps=1))
    add("take(indices=,axis=0)", "plain", lambda X, o: np.take(X, indices=[0], axis=0))
    add("take(X,[0],0)", "plain", lambda X, o: np.take(X, [0], 0))
    add("take(identity,axis=0)", "plain", lambda X, o: np.take(X, list(range(np.shape(X)[0])), axis=0))
    add("take([0,0,9],axis=0,mode=clip)", "plain", lambda X, o: np.take(X, [0, 0, 9], axis=0, mode="clip"))
    add("take(ndarray,axis=1)", "plain", lambda X, o: np.take(X, np.array([0, 0]), axis=1))
    add("x.take([0],axis=0)", "plain", lambda X, o: M(nap, X, "take", [0], axis=0))
    add("take_along_axis", "plain", lambda X, o: np.take_along_axis(X, np.argsort(np.asarray(X), axis=0), axis=0))
    add("compress(axis=0)", "plain", lambda X, o: np.compress([True] * np.shape(X)[0], X, axis=0))
    add("compress(half,axis=0)", "plain", lambda X, o: np.compress([i % 2 == 0 for i in range(np.shape(X)[0])], X, axis=0))
    add("delete(obj=,axis=)", "plain", lambda X, o: np.delete(X, obj=0, axis=0))
    add("delete([],axis=0)", "plain", lambda X, o: np.delete(X, [], axis=0))
    add("delete(0,axis=1)", "plain", lambda X, o: np.delete(X, 0, axis=1))
    add("insert(obj=,values=,axis=)", "plain", lambda X, o: np.insert(X, obj=0, values=7, axis=0))
    add("insert(0,7,axis=1)", "plain", lambda X, o: np.insert(X, 0, 7, axis=1))
    add("append(x,row,axis=0)", "plain", lambda X, o: np.append(X, np.asarray(X)[:1], axis=0))
    add("pad(time only)", "plain", lambda X, o: np.pad(X, ((1, 1),) + ((0, 0),) * (np.ndim(X) - 1)))
    add("pad(others only)", "plain", lambda X, o: np.pad(X, ((0, 0),) + ((1, 1),) * (np.ndim(X) - 1)))
    add("pad(pad_width=,mode=edge)", "plain", lambda X, o: np.pad(X, pad_width=1, mode="edge"))
    add("pad(0)", "plain", lambda X, o: np.pad(X, 0))
    add("argsort(axis=0,kind=stable)", "plain", lambda X, o: np.argsort(X, axis=0, kind="stable"))
    add("argsort(X,-1)", "plain", lambda X, o: np.argsort(X, -1))
    add("x.argsort()", "plain", lambda X, o: M(nap, X, "argsort"))
    add("unique(axis=0)", "plain", lambda X, o: np.unique(X, axis=0))
    add("unique(index,inverse,counts)", "plain", lambda X, o: np.unique(X, return_index=True, return_inverse=True, return_counts=True))
    add("searchsorted(v=,side=right)", "plain", lambda X, o: np.searchsorted(X, v=[2.5], side="right"))
    add("digitize(bins=,right=)", "plain", lambda X, o: np.digitize(X, bins=[2.0, 4.0], right=True))
    add("convolve(v=,mode=full)", "plain", lambda X, o: np.convolve(X, v=[1.0, 1.0], mode="full"))
    add("convolve(mode=valid)", "plain", lambda X, o: np.convolve(X, [1.0], "valid"))
    add("correlate(same)", "plain", lambda X, o: np.correlate(X, [1.0, 2.0, 1.0], "same"))
    add("interp(x=,xp=,fp=X)", "plain", lambda X, o: np.interp(x=[1.5, 2.5], xp=np.arange(np.shape(X)[0]), fp=X))
    add("interp(X as x)", "plain", lambda X, o: np.interp(X, [0.0, 10.0], [0.0, 1.0]))
    add("histogram(density)", "plain", lambda X, o: np.histogram(X, bins=3, range=(0, 30), density=True))
    add("allclose(rtol=,atol=,equal_nan=)", "plain", lambda X, o: np.allclose(X, X, rtol=0, atol=0, equal_nan=True))
    add("array_equal(equal_nan)", "plain", lambda X, o: np.array_equal(X, X, equal_nan=True))
    add("stack(axis=1)", "plain", lambda X, o: np.stack([X, X], axis=1))
    add("stack(arrays=)", "plain", lambda X, o: np.stack(arrays=[X, X]))
    add("stack((x,raw))", "plain", lambda X, o: np.stack((X, np.asarray(X))))
    add("column_stack((x,))", "plain", lambda X, o: np.column_stack((X,)))
    add("einsum(i...->i...)", "plain", lambda X, o: np.einsum("i...->i...", X))
    add("tensordot(axes=0)", "plain", lambda X, o: np.tensordot(X, [1.0, 2.0], axes=0))
    add("kron", "plain", lambda X, o: np.kron(X, [1.0, 2.0]))
    add("cross-free: inner", "plain", lambda X, o: np.inner(X, X))
    add("triu(k=1)", "plain", lambda X, o: np.triu(X, k=1))
    add("diagonal(offset=,axis1=,axis2=)", "plain", lambda X, o: np.diagonal(X, offset=0, axis1=0, axis2=1))
    add("trace(axis1=0,axis2=1)", "plain", lambda X, o: np.trace(X, axis1=0, axis2=1))
    add("apply_along_axis(sum,1)", "plain", lambda X, o: np.apply_along_axis(np.sum, 1, X))
    add("apply_along_axis(cumsum,0)", "plain", lambda X, o: np.apply_along_axis(np.cumsum, 0, X))
    add("apply_over_axes(sum,[1])", "plain", lambda X, o: np.apply_over_axes(np.sum, X, [1]))
    add("nanmax(axis=1)", "plain", lambda X, o: np.nanmax(X, axis=1))
    add("nanargmax(axis=1)", "plain", lambda X, o: np.nanargmax(X, axis=1))
    add("nanstd(axis=1,ddof=1)", "plain", lambda X, o: np.nanstd(X, axis=1, ddof=1))
    add("nanmedian(axis=1)", "plain", lambda X, o: np.nanmedian(X, axis=1))
    add("nanquantile(.5,axis=1)", "plain", lambda X, o: np.nanquantile(X, 0.5, axis=1))
    add("nancumprod(axis=0)", "plain", lambda X, o: np.nancumprod(X, axis=0))
    add("matmul(x,matrix)", "plain", lambda X, o: np.matmul(X, o), "matvec")
    add("dot(a=,b=)", "plain", lambda X, o: np.dot(a=X, b=o), "matvec")
    add("x.dot(o)", "plain", lambda X, o: M(nap, X, "dot", o), "matvec")
    add("vdot-free: linalg.norm(axis=1)", "plain", lambda X, o: np.linalg.norm(X, axis=1))
    # conversions through __array__ (np.array / np.asarray are not dispatched: no wrapping decision, the extracted model is not asked)
    add("array(x)", "plain_nd", lambda X, o: np.array(X))
    add("asarray(x,dtype=f32)", "plain_nd", lambda X, o: np.asarray(X, dtype=np.float32))
    add("asarray(x)", "plain_nd", lambda X, o: np.asarray(X))
    add("array(x,dtype=i64,copy=True)", "plain_nd", lambda X, o: np.array(X, dtype=np.int64, copy=True))
    add("x.tolist-free: len", "plain", lambda X, o: len(X))
    add("iscomplexobj", "plain", lambda X, o: np.iscomplexobj(X))
    add("may_share_memory(x,x)", "plain", lambda X, o: np.may_share_memory(X, X))
    add("result_type", "plain", lambda X, o: str(np.result_type(X, np.float32)))
    add("sort(axis=0)", "excluded", lambda X, o: np.sort(X, axis=0))
    add("sort(a=X)", "excluded", lambda X, o: np.sort(a=X))
    add("partition(kth=)", "excluded", lambda X, o: np.partition(X, kth=0))
    add("fft.ifft", "fft", lambda X, o: np.fft.ifft(X))
    add("fft.fft(a=X)", "fft", lambda X, o: np.fft.fft(a=X))
    add("fft.fft2", "fft", lambda X, o: np.fft.fft2(X))
    return T


KIND_FUNCS = ["add", "subtract:r", "multiply", "true_divide", "power", "maximum", "greater", "equal", "logical_and", "floor_divide", "fmod",
              "op+", "opr-", "op*", "op/", "opr/", "op<", "op==", "op**", "op//", "opr+", "op%", "op>="]


def table_kinds(nap):
    """axis 2 / 8: binary ufuncs and operators with the second operand in every argument form of NEW_KINDS"""
    T = []
    ops = {"+": lambda X, o: X + o, "r+": lambda X, o: o + X, "r-": lambda X, o: o - X, "*": lambda X, o: X * o, "/": lambda X, o: X / o, "r/": lambda X, o: o / X,
           "//": lambda X, o: X // o, "**": lambda X, o: X ** o, "%": lambda X, o: X % o, "<": lambda X, o: X < o, ">=": lambda X, o: X >= o, "==": lambda X, o: X == o}
    for kind in NEW_KINDS:
        for fn in KIND_FUNCS:
            if fn.startswith("op"):
                T.append((fn, "ew", ops[fn[2:]], kind, float))
            elif fn.endswith(":r"):
                T.append((fn, "ew", (lambda X, o, u=fn[:-2]: getattr(np, u)(o, X)), kind, float))
            else:
                T.append((fn, "ew", (lambda X, o, u=fn: getattr(np, u)(X, o)), kind, float))
    return T


SHAPES = list(dict.fromkeys([(n,) for n in (0, 1, 2, 5)] + [(n, 3) for n in (0, 1, 2, 5)] + [(n, n) for n in (0, 1, 2, 5)] + [(n, 1) for n in (1, 2)]
                           + [(n, 3, 2) for n in (0, 1, 2, 5)] + [(n, n, 2) for n in (1, 2)] + [(2, 3, 2, 2), (2, 2, 2)]))

KINDNUM = {"plain": 0, "plain_nd": 0, "ew": 0, "ew_multi": 0, "excluded": 1, "fft": 2}


def viol(res, key, what, inp, impl=None, expected=None):
    res.violations.append({"key": key, "what": what, "input": inp, "impl": impl, "expected": expected})


class Snap:
    """what x IS when the call is made (taken once, before any call: a live object that is used several times is always judged against this)"""

    def __init__(self, nap, x):
        self.t, self.sup, self.cols = ticks_of(x), sup_of(x), cols_of(nap, x)
        self.v = np.array(x.values, copy=True)
        self.shape, self.cls, self.frame = tuple(self.v.shape), type(x), isinstance(x, nap.TsdFrame)
        self.line = ts6(nap, x)


def operand_for(operand, shape, dtype, x=None):
    if operand == "matvec":
        return np.arange(shape[-1] * 2).reshape(shape[-1], 2).astype(dtype) + 1 if len(shape) >= 2 else np.arange(shape[0]).astype(dtype) + 1
    return others(shape, dtype, x).get(operand)


def wrap_emit(nap, res, cases, lines, entry, shape, x, sn, variant=None, group="wrap"):
    """run one table entry on the raw array (NumPy's answer) and on the time series x; queue the model line"""
    name, tag, f, operand, dtype = entry
    dtype = sn.v.dtype.type if variant is not None else dtype
    o = None
    if operand is not None:
        o = operand_for(operand, shape, dtype, x)
        if o is None:
            return
    if sn.v.dtype.kind == "b" and "**" in name and (o is None or type(o) is int):
        # NumPy's own operator and NumPy's own ufunc differ here (ndarray.__pow__(bool, 2) takes the np.square fast path -> int8, np.power(bool, 2) -> int64):
        # the statement equates operator and ufunc, so it does not determine the dtype of this one form; not generated
        res.count("not_generated:bool**int")
        return
    exp = call(f, np.array(sn.v, copy=True), o)
    got = call(f, x, o)
    inp = {"function": name, "operand": operand, "shape": list(shape), "dtype": np.dtype(dtype).name}
    if variant is not None:
        inp["variant"] = variant
    ckey = (group, name, operand, shape) if variant is None else (group, name, operand, shape, str(variant))
    res.count("wrap:" + tag)
    if exp[0] == "exc":
        # NumPy itself rejects the call on the raw array (axis out of range, ...): the wrapper must not invent a result
        res.case(ckey, nontrivial=False)
        res.count("numpy_rejects")
        if got[0] == "ok":
            viol(res, {"op": "array_function", "part": "numpy_rejects_but_wrapper_returns"}, "NumPy raises on the raw array but the call on the time series returns", inp,
                 impl=type(got[1]).__name__, expected=exp[1])
        return
    e = exp[1]
    nontriv = isinstance(e, np.ndarray) and e.ndim >= 1 and shape[0] >= 1
    res.case(ckey, nontrivial=nontriv)
    cases.append((inp, tag, sn, e, got))
    if tag == "plain_nd":
        lines.append(None)
    elif tag == "ew_multi":
        lines.append("ufunc_multi\t1\t1\t%s\t%d\t%s" % (sn.line, len(e), "\t".join(npres_arg(q) for q in e)))
    else:
        lines.append("func\t%d\t%s\t%s" % (KINDNUM[tag], sn.line, npres_arg(e)))


def run_wrap(nap, res, tier):
    """one time series operand: ufuncs, operators, array functions, methods"""
    T = table(nap)
    cases, lines = [], []
    for shape in SHAPES:
        for entry in T:
            x = mk(nap, shape, dtype=entry[4])
            wrap_emit(nap, res, cases, lines, entry, shape, x, Snap(nap, x))
    wrap_judge(nap, res, cases, lines)


def wrap_judge(nap, res, cases, lines):
    mit = iter(C.run_model([l for l in lines if l is not None], driver="driver_c14"))
    for (inp, tag, x, e, got), l in zip(cases, lines):          # x: the Snap of the operand
        mo = next(mit) if l is not None else None
        n = x.shape[0]
        if mo is None:
            res.count("wrap_oracle_only(no model line)")
        else:
            m = parse_out(mo.split(" ; ")[0]) if tag == "ew_multi" else parse_out(mo)
            res.count("verdict:" + m["kind"])
            # ---- correspondence: extracted model vs implementation
            size = int(np.prod(e.shape)) if isinstance(e, np.ndarray) else 0
            if tag == "ew_multi":
                ms = [parse_out(q) for q in mo.split(" ; ")]
                if got[0] != "ok" or not isinstance(got[1], tuple) or len(got[1]) != len(ms):
                    why = "model: tuple of %d wrapped outputs" % len(ms)
                else:
                    why = next((w for w in (agree(nap, mq, ("ok", rq), cells_expected=list(range(eq.size))) for mq, rq, eq in zip(ms, got[1], e)) if w is not None), None)
            else:
                why = agree(nap, m, got, cells_expected=list(range(size)))
            if why is not None:
                res.disagreements.append({"op": "wrap", "input": inp, "model": mo[:200], "impl": got[1] if got[0] == "exc" else type(got[1]).__name__, "why": why})
        # ---- statement-level oracle on the implementation (independent of the model)
        if tag in ("excluded", "fft"):
            if got != ("exc", "TypeError"):
                viol(res, {"op": "array_function", "part": "exclusion_list"}, "a function pynapple declares unsupported (sort family / np.fft) did not raise TypeError", inp, impl=short(got[1]))
            continue
        if got[0] == "exc":
            part = "zero_dim_result" if (isinstance(e, np.ndarray) and e.ndim == 0) else "raises"
            viol(res, {"op": "array_function", "part": part}, "NumPy computes a result on the raw array but the call on the time series raises " + got[1], inp, impl=got[1],
                 expected="ndarray%s" % (e.shape,) if isinstance(e, np.ndarray) else type(e).__name__)
            continue
        r = got[1]
        if not same_values(raw(nap, r), e):
            viol(res, {"op": "array_function", "part": "values"}, "result differs from the same NumPy call on the raw array", inp, impl=str(raw(nap, r))[:120], expected=str(e)[:120])
            continue
        if is_nap(nap, r):
            if ticks_of(r) != x.t or sup_of(r) != x.sup:
                viol(res, {"op": "array_function", "part": "time_axis"}, "result is a time series but does not carry x's timestamps / time support", inp, impl=[ticks_of(r), sup_of(r)],
                     expected=[x.t, x.sup])
            if klass(nap, r) != min(r.values.ndim, 3) - 1:
                viol(res, {"op": "array_function", "part": "class"}, "class of the result does not match its rank", inp, impl=type(r).__name__)
            if isinstance(r, nap.TsdFrame) and x.frame and r.shape[1] == x.shape[1] and cols_of(nap, r) != x.cols:
                viol(res, {"op": "array_function", "part": "columns"}, "column count unchanged but the column labels are lost", inp, impl=cols_of(nap, r), expected=x.cols)
        if tag == "ew" and isinstance(e, np.ndarray) and e.shape == x.shape and not (is_nap(nap, r) and type(r) is x.cls):
            viol(res, {"op": "ufunc", "part": "elementwise_not_wrapped"}, "element-wise operation did not return a time series of x's class", inp, impl=type(r).__name__)
        if tag == "ew_multi":
            res.count("multi_output_ufunc")
            if not (isinstance(r, tuple) and all(is_nap(nap, q) and type(q) is x.cls for q, eq in zip(r, e) if eq.shape == x.shape)):
                viol(res, {"op": "ufunc", "part": "multi_output"}, "element-wise ufunc with two outputs returns raw arrays (time axis dropped)", inp, impl=[type(q).__name__ for q in r])
            else:
                for q in r:
                    if is_nap(nap, q) and (ticks_of(q) != x.t or sup_of(q) != x.sup
                                           or (x.frame and isinstance(q, nap.TsdFrame) and q.shape[1] == x.shape[1] and cols_of(nap, q) != x.cols)):
                        viol(res, {"op": "ufunc", "part": "multi_output_time_axis"}, "an output of a multi-output ufunc does not carry x's timestamps / support / labels", inp)
        # observation (NOT a violation: the statement keeps labels whenever the column count is unchanged): frame -> frame, same
        # labels in the same order, but the data columns are a non-trivial permutation of x's
        if x.frame and isinstance(r, nap.TsdFrame) and r.shape == x.shape and 2 <= x.shape[1] <= 5 and n >= 1 \
                and cols_of(nap, r) == x.cols and not np.array_equal(r.values, x.v):
            xv = x.v
            if any(np.array_equal(np.asarray(r.values), xv[:, list(pm)]) for pm in itertools.permutations(range(x.shape[1]))):
                res.count("observed:frame_data_columns_permuted_labels_unchanged")
                res.extra.setdefault("observed_column_permutations", [])
                if inp["function"] not in [o_["function"] for o_ in res.extra["observed_column_permutations"]]:
                    res.extra["observed_column_permutations"].append({"function": inp["function"], "shape": inp["shape"], "labels": cols_of(nap, r),
                                                                      "x_row0": xv[0].tolist(), "result_row0": np.asarray(r.values)[0].tolist()})
        if len(res.samples) < 3 and isinstance(e, np.ndarray) and e.ndim >= 1 and n == 2 and e.shape[0] == 2 and e.shape != x.shape \
                and inp["function"] in ("add", "sum(axis=0)", "transpose"):
            res.sample({"function": inp["function"], "operand": inp["operand"], "x.shape": list(x.shape), "result.shape": list(e.shape), "returned": type(r).__name__})


RANK_GROUPS = [[sh for sh in SHAPES if len(sh) == 1], [sh for sh in SHAPES if len(sh) == 2], [sh for sh in SHAPES if len(sh) >= 3]]

CORE = [("negative", None), ("exp", None), ("isnan", None), ("logical_not", None), ("add", "scalar"), ("add", "array"), ("add", "row"), ("multiply", "col"), ("greater", "scalar"),
        ("add:r", "array"), ("power", "higher"), ("modf", None), ("divmod", "scalar"), ("opneg", None), ("op+", "scalar"), ("opr-", "array"), ("op<", "scalar"), ("op==", "array"),
        ("op@", "matvec"), ("sum(axis=None)", None), ("sum(axis=0)", None), ("sum(axis=1)", None), ("mean(axis=-1)", None), ("x.sum(axis=0)", None), ("x.mean(axis=1)", None),
        ("sum(axis=1,keepdims)", None), ("cumsum(axis=0)", None), ("cumsum(axis=1)", None), ("diff(axis=0)", None), ("reshape(n,-1)", None), ("reshape(-1)", None),
        ("transpose", None), ("swapaxes(0,-1)", None), ("squeeze", None), ("expand_dims(0)", None), ("expand_dims(-1)", None), ("flip(0)", None), ("roll(1,axis=1)", None),
        ("fliplr", None), ("take([0],axis=0)", None), ("take(all,axis=0)", None), ("repeat(2,0)", None), ("clip", None), ("x.round()", None), ("copy", None), ("x.copy()", None),
        ("zeros_like", None), ("where(c,x,0)", None), ("argsort(axis=0)", None), ("stack([x,x],-1)", None), ("shape", None), ("nonzero", None), ("sort", None), ("fft.fft", None),
        ("x.astype(int)", None), ("nan_to_num", None), ("column_stack", None), ("(x+1)*2-x.values", None), ("sum(X,1)", None), ("x.sum(1)", None),
        ("clip(a=X,a_min=,a_max=)", None), ("add(dtype=f32)", None), ("median(axis=1,keepdims)", None), ("pad(others only)", None), ("delete(0,axis=1)", None),
        ("op*", "pyint"), ("op+", "np.float32"), ("multiply", "0d"), ("add", "list"), ("opr-", "self.values"), ("maximum", "nan"), ("sum(axis=(1,))", None)]


def receiver_variants(rng):
    """axes 2, 4, 5, 6, 7, 8 for the RECEIVER x: how it was built (form of t / units / data form), where it lies in time, its support, its labels, its history"""
    big = 10 ** 5 * SEC
    V = [{"tform": tf} for tf in TFORMS + ["pandas_ctor"]]
    V += [{"tform": tf, "step": SEC} for tf in TFORMS_INT if tf != "ms_int"] + [{"tform": "ms_int", "step": 2 * 10 ** 6}]
    V += [{"tform": "ms", "origin": -big}, {"tform": "us", "origin": big}, {"tform": "ms", "sup": "default"}, {"tform": "us", "sup": "default", "origin": -3 * U},
          {"tform": "int64", "step": SEC, "origin": -2 * SEC}, {"tform": "int32", "step": SEC, "origin": -big}, {"tform": "ms_int", "step": 2 * 10 ** 6, "origin": -4 * 10 ** 6},
          {"tform": "pyint_list", "step": SEC, "origin": -SEC, "sup": "default"}, {"tform": "uint64", "step": SEC, "origin": big}, {"tform": "tsindex", "origin": -6 * U}]
    V += [{"origin": -6 * U}, {"origin": -4 * U}, {"origin": -big}, {"origin": big}, {"origin": -big, "sup": "default"}, {"origin": big, "sup": "many"}, {"origin": -3 * U, "sup": "one"}]
    V += [{"sup": "one"}, {"sup": "many"}, {"sup": "default"}, {"sup": "many", "origin": -5 * U}]
    V += [{"dup": "pairs"}, {"dup": "all_equal"}, {"dup": "pairs", "sup": "one", "origin": -2 * U}]
    V += [{"labels": lb} for lb in LABELS] + [{"labels": "str", "metadata": True}, {"labels": "int_unsorted", "metadata": True}, {"labels": "default", "metadata": True}]
    V += [{"dform": "list"}, {"dform": "list", "tform": "list"}]
    V += [{"hist": h} for h in ["slice", "split_piece", "bool_index", "get", "restrict", "arith", "npfunc", "astype", "concat", "saveload", "loc"]]
    V += [{"hist": "restrict", "labels": "str"}, {"hist": "slice", "origin": -big, "tform": "ms"}, {"hist": "saveload", "labels": "str_unsorted", "origin": -4 * U},
          {"hist": "get", "origin": -3 * U, "sup": "one"}, {"hist": "loc", "labels": "mixed", "metadata": True}, {"hist": "concat", "labels": "float", "tform": "tsindex"},
          {"hist": "split_piece", "labels": "int_unsorted", "sup": "many"}]
    for _ in range(12):                                # option flags combined at random
        v = {"tform": rng.choice(TFORMS), "origin": rng.choice([0, -big, big, -3 * U, -6 * U]), "sup": rng.choice(["one", "many", "default", None]),
             "labels": rng.choice(LABELS), "fill": rng.choice(FILLS + [None]), "hist": rng.choice([None, None, "slice", "restrict", "arith", "get"]),
             "dtype": rng.choice([float, float, np.float32, np.int64, np.uint8, np.int16])}
        V.append({k: w for k, w in v.items() if w is not None})
    return V


def vname(v):
    return {k: (np.dtype(w).name if k == "dtype" else w) for k, w in sorted(v.items(), key=lambda kv: kv[0])}


def run_wrap_wide(nap, res, tier, seed):
    """the ARGUMENT-FORM axes of one-operand calls (sampled with the seeded rng in the quick tier, complete products in the thorough tier)"""
    quick = tier == "quick"
    rng = random.Random(seed * 1409 + 11)
    T0, TF, TK = table(nap), table_forms(nap), table_kinds(nap)
    byname = {(e[0], e[3]): e for e in T0 + TF + TK}
    core = [byname[k] for k in CORE]
    cases, lines = [], []

    def shapes_for(k):
        if not quick:
            return SHAPES
        return [rng.choice(g) for g in RANK_GROUPS] + [rng.choice(SHAPES) for _ in range(k)]

    # (a) axis 3: positional / keyword spellings, non-default options, combined flags: one shape of every rank + 3 random ones per entry (thorough: every shape)
    for entry in TF:
        for shape in dict.fromkeys(shapes_for(3)):
            x = mk(nap, shape, dtype=entry[4])
            res.count("forms:positional_keyword_flags")
            wrap_emit(nap, res, cases, lines, entry, shape, x, Snap(nap, x), group="wrap_forms")
    # (b) axis 2 / 8: the second operand in every argument form
    for entry in TK:
        for shape in dict.fromkeys(shapes_for(0)):
            x = mk(nap, shape, dtype=entry[4])
            res.count("operand_form:" + entry[3])
            wrap_emit(nap, res, cases, lines, entry, shape, x, Snap(nap, x), group="wrap_kinds")
    # (c) axis 1: dtype of the data and special values, over the whole table
    gen = [e for e in T0 + TF if e[4] is float and e[3] != "pyscalar"] + [e for e in TK if e[3] in ("pyint", "pyfloat", "np.float32", "np.int64", "0d_f32", "list", "nan")]
    plan = [(dt, None) for dt in DTYPES] + [(dt, fl) for dt in (float, np.float32) for fl in FILLS] + [(dt, fl) for dt in DTYPES for fl in ("equal", "zeros")]
    for dt, fl in plan:
        k = (80 if fl is None else 50 if np.dtype(dt).kind == "f" else 15) if quick else len(gen)
        for entry in (rng.sample(gen, k) if k < len(gen) else gen):
            for shape in ([rng.choice(SHAPES)] if quick else [rng.choice(g) for g in RANK_GROUPS]):
                v = {"dtype": dt, "fill": fl} if fl else {"dtype": dt}
                x = build(nap, res, shape, v, dtype=dt)
                if x is None:
                    continue
                res.count("data_dtype:" + np.dtype(dt).name)
                if fl:
                    res.count("data_fill:" + fl)
                wrap_emit(nap, res, cases, lines, entry, shape, x, Snap(nap, x), variant=vname(v), group="wrap_dtype")
    # (d) the receiver: the SAME live object goes through a batch of calls (core set + random entries of every table), each judged against its state before the first call
    allT = T0 + TF + TK
    for v in receiver_variants(rng):
        for g in RANK_GROUPS:
            shape = rng.choice(g)
            if v.get("tform") == "uint8" and shape[0] > 200:
                continue
            if v.get("hist") == "loc" and len(shape) != 2:
                continue
            dt = v.get("dtype", float)
            x = build(nap, res, shape, v, dtype=dt)
            if x is None:
                continue
            if tuple(x.shape) != tuple(shape):
                res.count("receiver_shape_differs_from_plan")
                shape = tuple(x.shape)
            sn = Snap(nap, x)
            for k_ in v:
                res.count("receiver:%s=%s" % (k_, np.dtype(v[k_]).name if k_ == "dtype" else v[k_]))
            batch = (core if not quick else rng.sample(core, 20)) + rng.sample(allT, 6 if quick else 60)
            for entry in batch:
                wrap_emit(nap, res, cases, lines, entry, shape, x, sn, variant=vname(v), group="wrap_receiver")
            res.count("live_object_reused_for_a_batch_of_calls")
    wrap_judge(nap, res, cases, lines)


def run_same_class(nap, res):
    """two operands of the same class are refused; methods other than __call__ are refused"""
    lines, cases = [], []
    big = 10 ** 5 * SEC
    variants = [(None, None), ({"dtype": np.int64}, {"dtype": np.float32}), ({"labels": "str"}, {"labels": "int_unsorted"}), ({"origin": -big, "tform": "ms"}, {"origin": big}),
                ({"hist": "slice"}, {"hist": "arith"}), ({"fill": "nan"}, {"sup": "many"}), ({"dtype": np.bool_}, {"dtype": np.bool_}), ({"tform": "tsindex"}, {"tform": "tsindex"})]
    for (vx, vy), shape in itertools.product(variants, [(2,), (5,), (2, 3), (2, 2), (2, 3, 2)]):
        if (vx or {}).get("dtype") is np.bool_ and len(shape) == 2:
            # repr() of a TsdFrame holding bool data raises (np.round(bool, 5) inside __repr__), and NumPy formats its "all returned NotImplemented" TypeError with the
            # operands' repr: the refusal then surfaces as a UFuncTypeError (a TypeError subclass) coming from __repr__ - a defect of __repr__, outside this property
            res.count("not_generated:same_class_pair_of_bool_frames(repr raises)")
            continue
        x = build(nap, res, shape, vx, dtype=(vx or {}).get("dtype", float))
        y = build(nap, res, shape, vy, base=100, dtype=(vy or {}).get("dtype", float))
        if x is None or y is None:
            continue
        e = x.values + y.values
        shape = shape if not (vx or vy) else shape + (str(vname(vx or {})), str(vname(vy or {})))
        if vx or vy:
            res.count("same_class_argument_form_variant")
        for name, f in [("add(x,y)", lambda: np.add(x, y)), ("x+y", lambda: x + y), ("x<y", lambda: x < y), ("x==y", lambda: x == y), ("x@y", lambda: x @ y)]:
            got = call(f)
            res.case(("same_class", name, shape))
            cases.append(({"function": name, "shape": list(shape)}, got))
            lines.append("ufunc\t1\t2\t%s\t%s" % (ts6(nap, x), npres_arg(e)))
        for name, f in [("add.reduce", lambda: np.add.reduce(x)), ("add.accumulate", lambda: np.add.accumulate(x)), ("add.outer", lambda: np.add.outer(x, np.ones(2)))]:
            got = call(f)
            res.case(("ufunc_method", name, shape))
            cases.append(({"function": name, "shape": list(shape)}, got))
            lines.append("ufunc\t0\t1\t%s\t%s" % (ts6(nap, x), npres_arg(e)))
    out = C.run_model(lines, driver="driver_c14")
    for (inp, got), mo in zip(cases, out):
        res.count("refusals")
        why = agree(nap, parse_out(mo), got)
        if why is not None:
            res.disagreements.append({"op": "ufunc_refusal", "input": inp, "model": mo, "impl": short(got[1]), "why": why})
        if got != ("exc", "TypeError"):
            viol(res, {"op": "ufunc", "part": "same_class_not_refused"}, "ufunc on two time series of the same class / ufunc method other than __call__ was not refused with TypeError", inp,
                 impl=short(got[1]))


def run_mixed(nap, res):
    """operands of two different classes with the same time axis (shapes that broadcast: square or length 1)"""
    pairs = [((1,), (1, 3)), ((2,), (2, 2)), ((5,), (5, 5)), ((1, 2), (1, 3, 2)), ((2, 2), (2, 2, 2)), ((1,), (1, 3, 2)), ((2,), (2, 3, 2))]
    lines, cases = [], []
    big = 10 ** 5 * SEC
    # argument forms of the two operands (the plain pair first): dtypes, labels, placement, construction path, support, special values, histories
    variants = [(None, None), ({"dtype": np.int64}, None), (None, {"dtype": np.float32}), ({"dtype": np.uint8}, {"dtype": np.int16}), ({"labels": "str"}, {"labels": "str"}),
                ({"labels": "int_unsorted", "metadata": True}, {"labels": "int_unsorted", "metadata": True}), ({"origin": -big}, {"origin": -big}), ({"origin": -3 * U, "sup": "one"}, {"origin": -3 * U, "sup": "one"}),
                ({"tform": "tsindex"}, {"tform": "ms"}), ({"tform": "list"}, {"tform": "us", "labels": "float"}), ({"sup": "many"}, {"sup": "many"}), ({"fill": "nan"}, {"fill": "pminf"}),
                ({"hist": "arith"}, {"hist": "npfunc", "labels": "mixed"}), ({"hist": "saveload"}, {"hist": "astype"}), ({"hist": "slice"}, {"hist": "bool_index", "labels": "str_unsorted"})]
    for (va, vb), (sa, sb), order, (uname, u) in itertools.product(variants, pairs, (0, 1), [("add", np.add), ("multiply", np.multiply), ("greater", np.greater), ("+", None)]):
        if True:
            if True:
                a = build(nap, res, sa, va, dtype=(va or {}).get("dtype", float))
                b = build(nap, res, sb, vb, base=50, dtype=(vb or {}).get("dtype", float))
                if a is None or b is None:
                    continue
                if (va or vb) and (ticks_of(a) != ticks_of(b) or sup_of(a) != sup_of(b)):
                    res.count("mixed_class_variant_axes_differ(not generated)")
                    continue
                outer, inner = (a, b) if order == 0 else (b, a)
                f = (lambda p, q: p + q) if u is None else u
                exp = call(f, np.array(outer.values), np.array(inner.values))
                got = call(f, outer, inner)
                inp = {"function": uname, "outer": list(outer.shape), "inner": list(inner.shape)}
                if va or vb:
                    inp["variants"] = [vname(va or {}), vname(vb or {})]
                    res.count("mixed_class_argument_form_variant")
                res.count("mixed_class")
                if exp[0] == "exc":
                    res.case(("mixed", uname, outer.shape, inner.shape, str(inp.get("variants"))), nontrivial=False)
                    if got[0] == "ok":
                        viol(res, {"op": "ufunc", "operand": "other_class", "part": "numpy_rejects_but_wrapper_returns"}, "NumPy rejects the raw operands but the wrapper returns", inp)
                    continue
                res.case(("mixed", uname, outer.shape, inner.shape, str(inp.get("variants"))))
                cases.append((inp, outer, inner, exp[1], got))
                lines.append("mixed\t%s\t%s\t%s" % (ts6(nap, outer), ts6(nap, inner), npres_arg(exp[1])))
    out = C.run_model(lines, driver="driver_c14")
    for (inp, outer, inner, e, got), mo in zip(cases, out):
        why = agree(nap, parse_out(mo), got, cells_expected=list(range(e.size)))
        if why is not None:
            res.disagreements.append({"op": "mixed", "input": inp, "model": mo[:200], "impl": short(got[1]), "why": why})
        if got[0] == "exc":
            viol(res, {"op": "ufunc", "operand": "other_class", "part": "raises"}, "ufunc on two time series of different classes raises " + got[1], inp)
            continue
        r = got[1]
        if not same_values(raw(nap, r), e):
            viol(res, {"op": "ufunc", "operand": "other_class", "part": "values"}, "result differs from NumPy's on the raw arrays", inp)
        if e.shape in (outer.shape, inner.shape) and not is_nap(nap, r):
            viol(res, {"op": "ufunc", "operand": "other_class", "part": "elementwise_not_wrapped"}, "element-wise result is not a time series", inp, impl=type(r).__name__)
        if is_nap(nap, r):
            if ticks_of(r) != ticks_of(outer) or sup_of(r) != sup_of(outer):
                viol(res, {"op": "ufunc", "operand": "other_class", "part": "time_axis"}, "timestamps / support not carried", inp)
            for role, x in (("outer", outer), ("inner", inner)):
                if isinstance(x, nap.TsdFrame) and isinstance(r, nap.TsdFrame) and r.shape[1] == x.shape[1] and cols_of(nap, r) != cols_of(nap, x):
                    # recorded finding: the frame is the INNER operand (its own wrapper kept the labels, the outer class's wrapper re-wrapped last and dropped them);
                    # a frame that is the outer operand and loses its labels is a different defect and gets its own part
                    other = inner if role == "outer" else outer
                    viol(res, {"op": "ufunc", "operand": "other_class", "part": "columns" if role == "inner" else "columns_of_outer_frame", "frame_is": role,
                               "other_class": type(other).__name__, "result_has_default_labels": cols_of(nap, r) == list(range(r.shape[1]))},
                         "TsdFrame operand, TsdFrame result with the same number of columns, but its column labels are lost (the other class's wrapper re-wrapped last)", inp,
                         impl=cols_of(nap, r), expected=cols_of(nap, x))


def run_inplace(nap, res):
    """in-place operators and out= holding the time series itself (not modelled)"""
    for shape in [(2,), (5, 3), (2, 3, 2)]:
        for name, f in [("+=", lambda x: x.__iadd__(1.0)), ("*=", lambda x: x.__imul__(2.0)), ("-=", lambda x: x.__isub__(1.0)), ("out=x", lambda x: np.add(x, 1.0, out=x))]:
            x = mk(nap, shape)
            xv = np.array(x.values)
            exp = {"+=": xv + 1.0, "*=": xv * 2.0, "-=": xv - 1.0, "out=x": xv + 1.0}[name]
            got = call(f, x)
            res.case(("inplace", name, shape))
            res.count("inplace")
            inp = {"function": name, "shape": list(shape)}
            if got[0] == "exc":
                viol(res, {"op": "inplace_operator", "part": "raises"}, "in-place operator / out= on a time series raises " + got[1] + " (__array_ufunc__ forwards out=(self,) and re-enters itself)", inp,
                     impl=got[1], expected="time series with the updated values")
            elif not (is_nap(nap, got[1]) and same_values(raw(nap, got[1]), exp) and ticks_of(got[1]) == ticks_of(x)):
                viol(res, {"op": "inplace_operator", "part": "values"}, "in-place operator result is not the time series with NumPy's values", inp)
        x = mk(nap, shape)
        buf = np.zeros(shape)
        got = call(lambda: np.add(x, 1.0, out=buf))
        res.case(("out=ndarray", shape))
        if got[0] == "exc" or not same_values(raw(nap, got[1]), x.values + 1.0):
            viol(res, {"op": "ufunc", "part": "out_ndarray"}, "np.add(x, 1, out=ndarray) does not give NumPy's values", {"shape": list(shape)})


# ------------------------------------------------------------------------------------------------
# concatenate family
def union_mem(p, sups):
    return any(G.mem(p, s) for s in sups)


def strictly_inc(l):
    return all(a < b for a, b in zip(l, l[1:]))


def merged_union(sups):
    """the union the statement names, on integer ns: the intervals of all operand supports, merged when their interiors overlap;
    touch = the points p where one merged component ends and the next one starts (C01: those two are kept apart by trimming 1 us)"""
    comps, touch = [], []
    for s_, e_ in sorted(iv for s in sups for iv in s if iv[0] < iv[1]):
        if comps and s_ < comps[-1][1]:
            comps[-1][1] = max(comps[-1][1], e_)
        else:
            if comps and s_ == comps[-1][1]:
                touch.append(s_)
            comps.append([s_, e_])
    return comps, touch


def in_trimmed_us(t, touch):
    """t lies in the one microsecond C01 lets the constructor trim: the open interval (p - 1 us, p) before a touching point p"""
    return any(p - 1000 < t < p for p in touch)


def fold_touch(sups):
    """the touching points met while the supports are united PAIRWISE from the left (time_support.union(..).union(..), what _concatenate_tsd does):
    each step trims 1 us before such a point, and a later operand that covers this microsecond no longer closes it all"""
    acc, pts = [], []
    for s in sups:
        comps, touch = merged_union([acc, s])
        pts += touch
        acc = [(a, b - 1000 if b in touch else b) for a, b in comps]
        acc = [(a, b) for a, b in acc if a < b]
    return pts


def support_vs_union(rs, sups, touch_override=None):
    """None when the result support is EXACTLY the union of the operands' supports, where the only allowance is the one of C01's statement
    (exactly-touching components kept apart: the open microsecond before the touching point may be missing); otherwise the reason.
    Exact: every set involved is a finite union of closed intervals with endpoints in E, so membership is constant between consecutive
    points of E; E and one point inside every gap are probed (coordinates doubled so that the inner points are integers)."""
    if not G.canonical(rs):
        return "not_canonical"
    comps, touch = merged_union(sups)
    if touch_override is not None:
        touch = touch_override
    E = sorted(set(2 * v for iv in rs for v in iv) | set(2 * v for c in comps for v in c) | set(2 * (p - 1000) for p in touch))
    if not E:
        return None
    probes = [E[0] - 2] + E + [a + 1 for a, b in zip(E, E[1:]) if b - a >= 2] + [E[-1] + 2]
    for q in probes:
        inr = any(2 * a <= q <= 2 * b for a, b in rs)
        inu = any(2 * a <= q <= 2 * b for a, b in comps)
        if inr and not inu:
            return "covers_a_point_outside_the_union"
        if inu and not inr and not any(2 * (p - 1000) < q < 2 * p for p in touch):
            return "misses_a_point_of_the_union_outside_the_trimmed_microsecond"
    return None


def ns_boundary(xs):
    """some pair of operands has two timestamps or two support endpoints at the same position exactly 1 ns apart"""
    for a, b in itertools.combinations(xs, 2):
        ta, tb = ticks_of(a), ticks_of(b)
        sa, sb = [v for iv in sup_of(a) for v in iv], [v for iv in sup_of(b) for v in iv]
        for p, q in ((ta, tb), (sa, sb)):
            if len(p) == 1:
                p = p * len(q)
            if len(q) == 1:
                q = q * len(p)
            if any(abs(u - v) == 1 for u, v in zip(p, q)):
                return True
    return False


def rows_key(nap, r, e, tcat, sups):
    """key of a concatenation along time whose rows / timestamps are not the operands' appended.  The recorded way to lose rows: supports that touch at p are
    united as [.., p - 1 us], [p, ..] (C01) and the result is restricted to that union.  trimmed = EXACTLY the rows whose timestamp lies in such an open microsecond
    (p - 1 us, p) are missing, every other row is there, in order, with NumPy's values.  by_fold = the same, but p is a touching point of an intermediate pairwise
    union that is not one of the whole union (a later operand covers it)"""
    def exactly_missing(touch):
        keep = [i for i, t in enumerate(tcat) if not in_trimmed_us(t, touch)]
        return len(keep) < len(tcat) and ticks_of(r) == [tcat[i] for i in keep] and same_values(raw(nap, r), e[keep])
    trimmed = exactly_missing(merged_union(sups)[1])
    by_fold = not trimmed and exactly_missing(fold_touch(sups))
    return {"part": "rows_or_time" + ("_within_1us_of_support_end" if trimmed else ""), "only_rows_in_the_trimmed_microsecond_before_a_touching_support_are_missing": trimmed,
            "only_rows_in_a_microsecond_trimmed_by_an_intermediate_pairwise_union_are_missing": by_fold}


def support_key(rs, sups):
    why = support_vs_union(rs, sups)
    if why is None:
        return None
    by_fold = why.startswith("misses") and support_vs_union(rs, sups, touch_override=fold_touch(sups)) is None
    return {"part": "support", "how": why, "only_a_microsecond_trimmed_by_an_intermediate_pairwise_union_is_missing": by_fold}


def concat_operands(nap, tier, variant=None, pick=None, res=None):
    """complete small space of operand lists: class x row shape x lengths x time layout x support layout.
    variant(desc) -> list of per-operand variant dicts of mk (argument forms of the operands); pick(desc) -> keep this operand list?"""
    out = []
    # time axes "equal up to precision": identical except that the last operand's first stamp (or every stamp) is 1 ns / 2 ns later
    NS_T = {"last_first_stamp_1ns": (1, False), "last_first_stamp_2ns": (2, False), "last_all_stamps_1ns": (1, True)}
    NS_S = {"shared_last_end_1ns": 1, "shared_last_end_2ns": 2, "shared_last_start_1ns": -1}
    layouts = ["sequential", "touching", "overlap", "reversed", "interleaved", "same", "last_off", "first_off"] + list(NS_T)
    sup_layouts = ["own", "shared", "touching"] + list(NS_S)
    same_axis = ("same", "last_off", "first_off") + tuple(NS_T)
    for tail in [(), (2,), (1,), (2, 2)]:
        for lens in [(2,), (0,), (2, 3), (1, 1), (0, 2), (2, 0), (1, 0), (0, 0), (3, 1, 2), (2, 0, 1), (1, 2, 0), (2, 2, 2), (2, 2), (1, 1, 1)]:
            for lay in layouts:
                # equal-length operands with (partly) identical time axes: the non-time-axis forms may return a time series
                # only when EVERY operand shares the time axis
                if (lay in same_axis) != (lens in [(2, 2, 2), (2, 2), (1, 1, 1)]):
                    continue
                for sl in sup_layouts:
                    if len(lens) == 1 and (lay != "sequential" or sl != "own"):
                        continue
                    if (lay in NS_T and sl != "shared") or (sl in NS_S and lay != "same"):
                        continue
                    starts = []
                    pos = 0
                    for i, n in enumerate(lens):
                        if lay == "sequential":
                            starts.append(pos)
                            pos += 2 * U * (n + 1)
                        elif lay == "touching":          # first stamp of an operand = last stamp of the previous non-empty one
                            starts.append(pos)
                            pos += 2 * U * max(n - 1, 0)
                        elif lay == "overlap":
                            starts.append(pos)
                            pos += 2 * U * max(n - 2, 0) if n else 0
                        elif lay == "reversed":
                            starts.append(-i * 2 * U * 6)
                        elif lay == "same" or lay in NS_T:
                            starts.append(0)
                        elif lay == "last_off":
                            starts.append(U if i == len(lens) - 1 else 0)
                        elif lay == "first_off":
                            starts.append(U if i == 0 else 0)
                        else:                            # interleaved: shifted by one half step
                            starts.append(i * U)
                    desc = {"tail": list(tail), "lens": list(lens), "times": lay, "supports": sl}
                    if pick is not None and not pick(desc):
                        continue
                    vs = variant(desc) if variant is not None else None
                    if vs is not None:
                        desc["variant"] = [vname(w) for w in vs] if any(w != vs[0] for w in vs) else vname(vs[0])
                    ops = []
                    for i, n in enumerate(lens):
                        t0 = starts[i]
                        islast = i == len(lens) - 1
                        if sl == "own":
                            sup = [(t0 - U // 2, t0 + 2 * U * max(n, 1) - U)]
                        elif sl == "shared":
                            sup = [(-100 * U, 100 * U)]
                        elif sl in NS_S:
                            d = NS_S[sl] if islast else 0
                            sup = [(-100 * U + (1 if d < 0 else 0), 100 * U + max(d, 0))]
                        else:                            # supports that touch / overlap the neighbour's
                            sup = [(t0 - 2 * U, t0 + 2 * U * max(n, 1))]
                        tk = None
                        if lay in NS_T and islast:
                            d, every = NS_T[lay]
                            tk = [t0 + 2 * U * j + (d if (every or j == 0) else 0) for j in range(n)]
                        vi = vs[i % len(vs)] if vs is not None else None
                        if vi is None:
                            ops.append(mk(nap, (n,) + tail, t0=t0, sup=sup, base=1 + 20 * i, cols_base=10 + 10 * i, ticks=tk))
                        else:
                            ops.append(build(nap, res, (n,) + tail, vi, t0=t0, sup=sup, base=1 + 20 * i, cols_base=10 + 10 * i, ticks=tk, dtype=vi.get("dtype", float)))
                    if any(o is None for o in ops):
                        continue
                    out.append((desc, ops))
    return out


def concat_family():
    return [("concatenate", lambda L: np.concatenate(L)), ("concatenate(axis=0)", lambda L: np.concatenate(L, axis=0)), ("concatenate(L,0)", lambda L: np.concatenate(L, 0)),
           ("vstack", lambda L: np.vstack(L)), ("hstack", lambda L: np.hstack(L)), ("dstack", lambda L: np.dstack(L)),
           ("concatenate(axis=1)", lambda L: np.concatenate(L, axis=1)), ("concatenate(L,1)", lambda L: np.concatenate(L, 1)),
           ("concatenate(axis=-1)", lambda L: np.concatenate(L, axis=-1)), ("concatenate(axis=None)", lambda L: np.concatenate(L, axis=None)),
           ("concatenate(axis=-ndim)", lambda L: np.concatenate(L, axis=-_nd(L[0])))]


def same_outcome(nap, a, b):
    """two call outcomes ("ok", result) | ("exc", name) are the same: same exception, or same type, values and (for time series) time axis and support"""
    if a[0] != b[0]:
        return False
    if a[0] == "exc":
        return a[1] == b[1]
    if is_nap(nap, a[1]) != is_nap(nap, b[1]) or (is_nap(nap, a[1]) and (type(a[1]) is not type(b[1]) or ticks_of(a[1]) != ticks_of(b[1]) or sup_of(a[1]) != sup_of(b[1]))):
        return False
    return same_values(raw(nap, a[1]), raw(nap, b[1]))


def concat_family_forms():
    """axis 3 for the concatenate family: the operand list as a tuple, the axis as a NumPy integer / None given positionally or by keyword, `out` given positionally,
    dtype= / casting= / out= combined.  posaxis: the positional axis is not a Python int (the model takes NumPy's output as given and has no axis parsing: oracle only)"""
    f32, f64 = np.float32, np.float64
    P = {"posaxis": True}
    return [("concatenate(tuple)", lambda L: np.concatenate(tuple(L))), ("concatenate(tuple,axis=1)", lambda L: np.concatenate(tuple(L), axis=1)),
            ("vstack(tuple)", lambda L: np.vstack(tuple(L))), ("hstack(tuple)", lambda L: np.hstack(tuple(L))), ("dstack(tuple)", lambda L: np.dstack(tuple(L))),
            ("concatenate(L,np.int64(0))", lambda L: np.concatenate(L, np.int64(0)), dict(P, axis=np.int64(0))),
            ("concatenate(L,np.int64(1))", lambda L: np.concatenate(L, np.int64(1)), dict(P, axis=np.int64(1))),
            ("concatenate(L,np.int8(-1))", lambda L: np.concatenate(L, np.int8(-1)), dict(P, axis=np.int8(-1))), ("concatenate(L,None)", lambda L: np.concatenate(L, None), dict(P, axis=None)),
            ("concatenate(axis=np.int64(0))", lambda L: np.concatenate(L, axis=np.int64(0))), ("concatenate(axis=np.int64(1))", lambda L: np.concatenate(L, axis=np.int64(1))),
            ("concatenate(L,0,None)", lambda L: np.concatenate(L, 0, None)), ("concatenate(L,1,None)", lambda L: np.concatenate(L, 1, None)),
            ("concatenate(axis=0,out=None,dtype=f64,casting=same_kind)", lambda L: np.concatenate(L, axis=0, out=None, dtype=f64, casting="same_kind")),
            ("concatenate(dtype=f32,casting=unsafe)", lambda L: np.concatenate(L, dtype=f32, casting="unsafe")),
            ("concatenate(axis=1,dtype=f32,casting=same_kind)", lambda L: np.concatenate(L, axis=1, dtype=f32, casting="same_kind")),
            ("vstack(dtype=f32,casting=same_kind)", lambda L: np.vstack(L, dtype=f32, casting="same_kind")),
            ("hstack(dtype=f64,casting=unsafe)", lambda L: np.hstack(L, dtype=f64, casting="unsafe"))]


def run_concat(nap, res, tier, operand_lists=None, tag="concat", fam=None, all_forms=False):
    fam = concat_family() if fam is None else fam
    lines, cases = [], []
    for desc, ops in (concat_operands(nap, tier) if operand_lists is None else operand_lists):
        tl, sl_ = [ticks_of(o) for o in ops], [sup_of(o) for o in ops]          # the operands as they are BEFORE any call (the same live objects go through every call form)
        for fname, f, *flags in fam:
            flags = flags[0] if flags else {}
            for rawmix in (None, 0, 1):
                if rawmix is not None and (fname not in ("concatenate", "hstack", "concatenate(axis=-1)") or len(ops) != 2):
                    continue
                if operand_lists is not None and not all_forms and fname in ("concatenate(L,0)", "concatenate(L,1)", "concatenate(axis=-1)", "concatenate(axis=-ndim)"):
                    continue
                L = [np.array(o.values) if rawmix == i else o for i, o in enumerate(ops)]
                V = [np.array(o.values) for o in ops]
                exp = call(f, V)
                got = call(f, L)
                inp = dict(desc, function=fname, raw_operand=rawmix, t=tl, sup=sl_)
                res.count(tag + ":" + fname.split("(")[0])
                if flags.get("posaxis"):
                    # what the same call gives with the time axis spelled as the keyword axis=0 (used only to NAME a failure precisely, never to excuse one)
                    flags = dict(flags, axis0=call(lambda: np.concatenate(L, axis=0)), raw_axis0=call(lambda: np.concatenate(V, axis=0)), keyword=call(lambda: np.concatenate(L, axis=flags["axis"])))
                if exp[0] == "exc":
                    res.case((tag, fname, str(desc), rawmix), nontrivial=False)
                    res.count("numpy_rejects")
                    if got[0] == "ok" and flags.get("posaxis") and flags["raw_axis0"][0] == "ok" and same_outcome(nap, got, flags["axis0"]) and not same_outcome(nap, got, flags["keyword"]):
                        viol(res, {"op": "concatenate_family", "part": "positional_axis_ignored", "treated_as_axis_0": True, "axis_is_None": "None" in fname, "how": "numpy_rejects_this_axis"},
                             "np.concatenate(L, axis) with the axis given POSITIONALLY as a NumPy integer: NumPy rejects this axis for these operands, the call behaves as np.concatenate(L, axis=0)",
                             inp, impl=type(got[1]).__name__, expected=exp[1])
                    elif got[0] == "ok":
                        viol(res, {"op": "concatenate_family", "part": "numpy_rejects_but_wrapper_returns"}, "NumPy rejects the raw operands but the wrapper returns", inp)
                    continue
                e = exp[1]
                ndim = ops[0].values.ndim
                along_time = e.ndim == ndim and all(e.shape[1:] == o.values.shape[1:] for o in ops) and e.shape[0] == sum(o.shape[0] for o in ops)
                res.case((tag, fname, str(desc), rawmix), nontrivial=along_time and len(ops) > 1)
                cases.append((inp, ops, L, e, got, along_time, rawmix, flags))
                finite = e.dtype.kind in "iub" or bool(np.all(np.isfinite(e)))
                lines.append(None if flags.get("posaxis") else
                             "concat\t%d\t%s\t%s\t%s" % (len(L), "\t".join(ts6(nap, o) for o in L), C.fmt_ints(e.shape), C.fmt_ints(int_cells(e) if finite else [0] * e.size)))
    mit = iter(C.run_model([l for l in lines if l is not None], driver="driver_c14"))
    for (inp, ops, L, e, got, along_time, rawmix, flags), l in zip(cases, lines):
        tl, sl_ = inp["t"], inp["sup"]
        if l is None:
            res.count("concat_oracle_only(no model line)")
            why = None
        else:
            mo = next(mit)
            m = parse_out(mo)
            res.count("concat_verdict:" + m["kind"] + (":" + m.get("err", "") if m["kind"] == "ERR" else ""))
            # cells: the model concatenates the operands' cells; with non-finite data (no integer image) only class / time axis / support / shape / labels are compared
            finite = e.dtype.kind in "iub" or bool(np.all(np.isfinite(e)))
            why = agree(nap, m, got, cells_expected=int_cells(e) if finite else None)
        if why is not None and not along_time and ns_boundary([o for o in L if is_nap(nap, o)]):
            # _check_time_equals is np.allclose(.., rtol=0, atol=1e-9) on float seconds; the model's `close` is |a - b| <= 1 tick. For two values exactly
            # 1 ns apart the float comparison |a - b| <= 1e-9 is decided by rounding (1e-9 - 0.0 passes, 1.000000001 - 1.0 does not): not a disagreement
            res.float_ambiguous += 1
            why = None
        if why is not None:
            res.disagreements.append({"op": "concat", "input": inp, "model": mo[:200], "impl": got[1] if got[0] == "exc" else type(got[1]).__name__, "why": why})
        # ---- statement-level oracle
        # two structural situations in which _concatenate_tsd's heuristics go wrong are keyed separately (candidate findings):
        #   no_row: no operand after the first adds a row (empty later operands / a single operand): "output.shape[0] > arrays[0].shape[0]" fails
        #   rank  : the NumPy result has another rank than the operands (vstack of Tsd, dstack, axis=None): it is built with the operands' class
        no_row = sum(o.shape[0] for o in ops[1:]) == 0
        rank = e.ndim != ops[0].values.ndim
        fam_key = {"op": "concatenate_family"}
        if flags.get("posaxis") and not same_outcome(nap, ("ok", e), flags["raw_axis0"]) and same_outcome(nap, got, flags["axis0"]) and not same_outcome(nap, got, flags["keyword"]):
            # NumPy's answer for this axis differs from its answer for axis=0, the call on the time series behaves EXACTLY like the same call with axis=0 and NOT like
            # the same call with this axis spelled as a keyword: the positional axis was not honoured (np.concatenate(L, np.int64(1)), np.concatenate(L, None)).
            # Any other outcome keeps the generic keys below.
            if not (got[0] == "ok" and same_values(raw(nap, got[1]), e)):
                viol(res, dict(fam_key, part="positional_axis_ignored", treated_as_axis_0=True, axis_is_None="None" in inp["function"], how="raises" if got[0] == "exc" else "values"),
                     "np.concatenate(L, axis) with the axis given POSITIONALLY as a NumPy integer / None: the call behaves as np.concatenate(L, axis=0) "
                     "(result %s instead of NumPy's %s)" % (got[1] if got[0] == "exc" else np.shape(raw(nap, got[1])), e.shape), inp,
                     impl=got[1] if got[0] == "exc" else list(np.shape(raw(nap, got[1]))), expected=list(e.shape))
                continue
        if rawmix is not None:
            # a raw operand has no timestamps: only the numbers are specified
            if got[0] == "exc":
                viol(res, dict(fam_key, part="operand_adds_no_row" if no_row else "raw_operand", how="raises", exception=got[1]),
                     "concatenation with a raw array operand: NumPy computes a result, the call raises " + got[1], inp, impl=got[1])
            elif not same_values(raw(nap, got[1]), e):
                viol(res, dict(fam_key, part="raw_operand", how="values", no_later_operand_adds_a_row=no_row), "concatenation with a raw array operand does not give NumPy's values", inp)
            continue
        tcat = [t for tt in tl for t in tt]
        sups = sl_
        if along_time:
            if strictly_inc(tcat):
                if got[0] == "exc":
                    viol(res, dict(fam_key, part="operand_adds_no_row" if no_row else "raises", how="raises", exception=got[1]),
                         "timestamps strictly increasing across operands but concatenation along time raises " + got[1], inp, impl=got[1], expected="time series")
                    continue
                r = got[1]
                if not is_nap(nap, r) or type(r) is not type(ops[0]):
                    viol(res, dict(fam_key, part="not_wrapped"), "concatenation along time of time series did not return a time series of their class", inp, impl=type(r).__name__)
                    continue
                if not same_values(raw(nap, r), e) or ticks_of(r) != tcat:
                    # the one recorded way to lose rows: supports that touch at p are united as [.., p - 1 us], [p, ..] (C01), and the result is restricted to that union.
                    # trimmed = exactly the rows whose timestamp lies in such an open microsecond (p - 1 us, p) are missing, every other row is there, in order, with NumPy's values
                    viol(res, dict(fam_key, **rows_key(nap, r, e, tcat, sups)), "result rows / timestamps are not the operands' appended in order", inp, impl=[ticks_of(r)], expected=[tcat])
                    continue
                sk = support_key(sup_of(r), sups)
                if sk is not None:
                    viol(res, dict(fam_key, **sk), "support of the result is not the union of the operands' supports (allowing only C01's trimmed microsecond before a touching point)",
                         inp, impl=sup_of(r), expected=sups)
                if isinstance(r, nap.TsdFrame) and cols_of(nap, r) != cols_of(nap, ops[0]):
                    viol(res, dict(fam_key, part="operand_adds_no_row" if no_row else "columns", how="column_labels_lost"),
                         "column count unchanged but the column labels are lost", inp, impl=cols_of(nap, r), expected=cols_of(nap, ops[0]))
            else:
                if got[0] == "ok" and is_nap(nap, got[1]):
                    viol(res, dict(fam_key, part="order_not_checked"), "timestamps not strictly increasing / overlapping across operands but a time series was returned", inp,
                         impl=ticks_of(got[1]))
                elif got[0] == "ok":
                    viol(res, dict(fam_key, part="order_not_checked_raw"), "overlapping operands: expected an error, got a raw array", inp)
        else:
            # not along time (other axis, or the rank changes): numbers must be NumPy's; a time series result carries the time axis of EVERY time-series operand.
            # part "result_rank_changes" is reserved for the two recorded outcomes of building a result of another rank with the operands' class:
            # an exception, or the same cells in the same order under another shape; anything else keeps its own part
            if got[0] == "exc":
                viol(res, dict(fam_key, part="result_rank_changes" if rank else "other_axis_raises", how="raises", exception=got[1], no_later_operand_adds_a_row=no_row),
                     "NumPy computes a result on the raw arrays but the call on time series raises " + got[1], inp, impl=got[1], expected="ndarray%s" % (e.shape,))
                continue
            r = got[1]
            rv = np.asarray(raw(nap, r))
            if not same_values(rv, e):
                reshaped = rank and rv.dtype == e.dtype and rv.size == e.size and same_values(rv.ravel(), e.ravel())
                viol(res, dict(fam_key, part="result_rank_changes" if reshaped else "values_other_axis", how="same_cells_other_shape" if reshaped else "values", rank_changes=rank),
                     "result differs from NumPy's on the raw arrays (shape %s instead of %s)" % (rv.shape, e.shape), inp)
            elif is_nap(nap, r) and any(ticks_of(r) != to or sup_of(r) != so for to, so in zip(tl, sl_)):
                dt = max([abs(a - b) for to in tl if len(to) == len(ticks_of(r)) for a, b in zip(to, ticks_of(r))] + [0])
                ds = max([abs(a - b) for so in sl_ if len(so) == len(sup_of(r)) for iv, jv in zip(so, sup_of(r)) for a, b in zip(iv, jv)] + [0])
                lens = any(len(to) != len(ticks_of(r)) or len(so) != len(sup_of(r)) for to, so in zip(tl, sl_))
                if not lens and max(dt, ds) <= 1:
                    # operands one tick (1 ns = the library's time_index_precision) apart are, by the library's documented design, "equal up to
                    # pynapple precision": the result carries the FIRST operand's time axis.  The statement fixes "x's timestamps" for one operand x and says
                    # nothing about how equal several operands' axes must be, so this is counted, not judged (an earlier version of this oracle demanded
                    # exact equality: a false alarm, corrected)
                    res.count("concat_other_axis_operands_one_tick_apart")
                    continue
                viol(res, dict(fam_key, part="time_axis_other_axis", rank_changes=rank),
                     "time series result does not carry the timestamps / support of every time-series operand", inp, impl=[ticks_of(r), sup_of(r)])
        if len(res.samples) < 5 and along_time and len(ops) == 2 and got[0] == "ok" and is_nap(nap, got[1]) and ops[0].shape[0] and ops[1].shape[0]:
            res.sample({"concat": inp["function"], "t": inp["t"], "sup": inp["sup"], "result_t": ticks_of(got[1]), "result_sup": sup_of(got[1])})


def concat_variant_pool(rng):
    """per-operand argument forms for the concatenate family (axes 1, 2, 4, 5, 6, 7): each entry is a list of variant dicts, operand i takes entry[i % len]"""
    big = 10 ** 5 * SEC
    pool = [[{"dtype": dt}] for dt in DTYPES]
    pool += [[{"dtype": a}, {"dtype": b}] for a, b in [(np.int64, float), (np.float32, float), (np.uint8, np.int16), (np.bool_, np.int8), (np.uint64, np.int64), (float, np.int32)]]
    pool += [[{"fill": f}] for f in FILLS] + [[{"fill": "nan"}, {"fill": "pminf", "dtype": np.float32}]]
    pool += [[{"origin": o}] for o in (-big, big, -3 * U, -7 * U)] + [[{"origin": -big, "tform": "ms"}], [{"origin": big, "tform": "us", "sup": "many"}]]
    pool += [[{"tform": tf}] for tf in TFORMS] + [[{"tform": "tsindex"}, {"tform": "list"}, {"tform": "ms"}]]
    pool += [[{"sup": "many"}], [{"sup": "default"}], [{"sup": "many"}, {"sup": "default"}], [{"sup": "default", "origin": -5 * U, "tform": "us"}]]
    pool += [[{"labels": lb}] for lb in LABELS] + [[{"labels": "str"}, {"labels": "int_unsorted"}], [{"labels": "str", "metadata": True}], [{"labels": "default"}, {"labels": "str"}]]
    pool += [[{"dform": "list"}], [{"hist": "arith"}], [{"hist": "npfunc"}, {"hist": "saveload"}], [{"hist": "astype", "dtype": np.int32}]]
    pool += [[{"dup": "pairs"}], [{"dup": "pairs", "origin": -3 * U}, {}], [{"dup": "all_equal"}]]      # duplicated timestamps inside an operand: never strictly increasing
    for _ in range(10):
        v = {"tform": rng.choice(TFORMS), "origin": rng.choice([0, -big, big, -3 * U]), "sup": rng.choice(["many", "default", None]), "labels": rng.choice(LABELS),
             "fill": rng.choice(FILLS + [None]), "dtype": rng.choice([float, np.float32, np.int64, np.uint8])}
        pool.append([{k: w for k, w in v.items() if w is not None}])
    return pool


def concat_history_lists(nap, res):
    """axis 8: operand lists that come out of earlier operations on ONE parent (slices / split pieces / restrictions / arithmetic results share its memory and
    its support object), the same live object given twice, a concatenation fed into the next one"""
    out = []
    for tail in [(), (3,), (2, 2)]:
        for v in [None, {"labels": "str"}, {"origin": -5 * U, "sup": "one"}, {"dtype": np.int16, "sup": "many"}, {"tform": "ms", "origin": -10 ** 5 * SEC, "labels": "int_unsorted"}]:
            p = build(nap, res, (6,) + tail, v, dtype=(v or {}).get("dtype", float))
            if p is None:
                continue
            t = ticks_of(p)
            ep1 = nap.IntervalSet(G.arr([t[0] - U // 2]), G.arr([t[2] + U // 2]))
            ep2 = nap.IntervalSet(G.arr([t[3] - U // 2]), G.arr([t[5] + U // 2]))
            lists = {"slices_of_one_parent": lambda: [p[:2], p[2:5], p[5:]], "overlapping_slices": lambda: [p[:3], p[2:]], "same_object_twice": lambda: [p, p],
                     "same_object_three_times": lambda: [p, p, p], "split_pieces": lambda: list(np.split(p, 3)), "array_split_pieces": lambda: list(np.array_split(p, 4)),
                     "restricted_halves": lambda: [p.restrict(ep1), p.restrict(ep2)], "arithmetic_results": lambda: [p[:3] * 2, p[3:] + 1], "pieces_reversed": lambda: [p[3:], p[:3]],
                     "slice_and_empty_slice": lambda: [p[:6], p[6:]], "get_pieces": lambda: [p.get(t[0] / 1e9, t[1] / 1e9), p.get(t[2] / 1e9, t[5] / 1e9)],
                     "concatenation_fed_again": lambda: [np.concatenate([p[:2], p[2:4]]), p[4:]], "one_slice": lambda: [p[1:4]], "copy_and_original": lambda: [np.copy(p), p]}
            if len(tail) == 1:
                lists["column_blocks_of_one_frame"] = lambda: [p[:, [0]], p[:, [1, 2]]]
                lists["loc_blocks_of_one_frame"] = lambda: [p.loc[[list(p.columns)[2], list(p.columns)[0]]], p.loc[list(p.columns)[1:]]]
            for hname, mkops in lists.items():
                try:
                    ops = mkops()
                    assert all(is_nap(nap, o) for o in ops), "a history step returned a raw array"
                except Exception as ex:  # noqa: BLE001   the history steps are this property's operations (split / concatenate / arithmetic / copy) and slicing
                    viol(res, {"op": "concatenate_family", "part": "raises", "how": "building_history_operands", "history": hname},
                         "a step of the history that builds the operand list raises / returns a raw array: " + type(ex).__name__, {"tail": list(tail), "history": hname, "variant": vname(v or {})}, impl=str(ex)[:80])
                    continue
                out.append(({"tail": list(tail), "lens": [o.shape[0] for o in ops], "times": "history:" + hname, "supports": "parent", "variant": vname(v or {})}, ops))
    return out


def concat_int_time_lists(nap):
    """axis 2: operands built from integer-dtype time arrays (signed, unsigned, Python ints, integer milliseconds), on a whole-second lattice"""
    out = []
    for tf in TFORMS_INT:
        step = SEC if tf != "ms_int" else 2 * 10 ** 6
        for tail in [(), (2,)]:
            for org in ([0] if tf.startswith("u") else [0, -20 * step]):
                for lay, starts in [("sequential", [1, 4, 9]), ("touching", [1, 2, 4]), ("reversed", [9, 4, 1])]:
                    ops = [mk(nap, (n,) + tail, t0=st * step, sup=[(st * step - step // 2, (st + max(n, 1)) * step - step // 2)], base=1 + 20 * i, cols_base=10 + 10 * i,
                              v={"tform": tf, "step": step, "origin": org}) for i, (n, st) in enumerate(zip((2, 3, 1), starts))][:3 if lay != "touching" else 2]
                    out.append(({"tail": list(tail), "lens": [o.shape[0] for o in ops], "times": lay + "(whole %s)" % ("seconds" if step == SEC else "2 ms"), "supports": "own",
                                 "variant": {"tform": tf, "origin": org}}, ops))
    return out


def run_concat_out(nap, res):
    """axis 3: np.concatenate(arrays, axis, out) with `out` given POSITIONALLY / by keyword: the returned numbers are NumPy's and the buffer receives them"""
    for tail in [(), (2,)]:
        for how in ("positional", "keyword"):
            a = mk(nap, (2,) + tail, t0=0, sup=[(-U, 20 * U)])
            b = mk(nap, (3,) + tail, t0=6 * U, sup=[(-U, 20 * U)], base=30)
            e = np.concatenate([a.values, b.values])
            buf = np.full(e.shape, -1.0)
            got = call(lambda: np.concatenate([a, b], 0, buf) if how == "positional" else np.concatenate([a, b], axis=0, out=buf))
            res.case(("concat_out", tail, how))
            res.count("concat:out_buffer_" + how)
            inp = {"function": "concatenate([a, b], 0, out)" if how == "positional" else "concatenate([a, b], axis=0, out=out)", "tail": list(tail)}
            if got[0] == "exc" or not same_values(raw(nap, got[1]), e):
                viol(res, {"op": "concatenate_family", "part": "raises" if got[0] == "exc" else "values", "how": "out_buffer", "out_given": how}, "concatenation with an out buffer does not give NumPy's values", inp)
            elif not same_values(buf, e):
                viol(res, {"op": "concatenate_family", "part": "out_buffer_not_filled", "out_given": how},
                     "NumPy places the result in `out`; the call on time series returns the right numbers but leaves the buffer untouched (the positional arguments after the axis are dropped)", inp,
                     impl=buf.ravel()[:4].tolist(), expected=e.ravel()[:4].tolist())


def run_concat_wide(nap, res, tier, seed):
    quick = tier == "quick"
    rng = random.Random(seed * 1423 + 5)
    # (a) axis 3: new call forms over the complete operand-list space (quick: a seeded quarter of it)
    run_concat(nap, res, tier, operand_lists=concat_operands(nap, tier, pick=(lambda d: rng.random() < 0.15) if quick else None), tag="concat_forms", fam=concat_family_forms())
    # (b) argument forms of the OPERANDS: every operand list of the space is rebuilt with a variant drawn from the pool (thorough: three draws)
    pool = concat_variant_pool(rng)

    def choose(desc):
        vs = rng.choice(pool)
        while len(desc["lens"]) == 1 and any("dup" in v for v in vs):
            vs = rng.choice(pool)       # ONE operand with duplicated timestamps: whether "concatenating" it must fail is not determined by the statement; not generated
        for v in vs:
            for k_ in v:
                res.count("concat_operand:%s=%s" % (k_, np.dtype(v[k_]).name if k_ == "dtype" else v[k_]))
        return vs
    for _ in range(1 if quick else 3):
        run_concat(nap, res, tier, operand_lists=concat_operands(nap, tier, variant=choose, pick=(lambda d: rng.random() < 0.4) if quick else None, res=res), tag="concat_variant")
    # (c) histories, integer time arrays: every call form (old and new)
    forms = concat_family_forms()
    run_concat(nap, res, tier, operand_lists=concat_history_lists(nap, res), tag="concat_history", fam=concat_family() + (forms if not quick else rng.sample(forms, 4)), all_forms=True)
    run_concat(nap, res, tier, operand_lists=concat_int_time_lists(nap), tag="concat_int_time", fam=concat_family() + (forms if not quick else rng.sample(forms, 4)), all_forms=True)
    run_concat_out(nap, res)


def judge_1us(nap, res, inp, got, ops):
    tcat = [t for o in ops for t in ticks_of(o)]
    sups = [sup_of(o) for o in ops]
    e = np.concatenate([np.asarray(o.values) for o in ops])
    if got[0] == "exc":
        viol(res, {"op": "concatenate_family", "part": "raises", "how": "raises", "exception": got[1]}, "strictly increasing timestamps, touching supports: concatenation raises", inp, impl=got[1])
    elif not is_nap(nap, got[1]):
        viol(res, {"op": "concatenate_family", "part": "not_wrapped"}, "concatenation along time did not return a time series", inp)
    elif ticks_of(got[1]) != tcat or not same_values(raw(nap, got[1]), e):
        viol(res, dict({"op": "concatenate_family"}, **rows_key(nap, got[1], e, tcat, sups)),
             "supports [a,b] and [b,c] touch: the union is trimmed to [a,b-1us],[b,c] and a sample in (b-1us,b) is dropped from the concatenation",
             inp, impl=ticks_of(got[1]), expected=tcat)
    else:
        sk = support_key(sup_of(got[1]), sups)
        if sk is not None:
            viol(res, dict({"op": "concatenate_family"}, **sk), "support of the result is not the union of the operands' supports", inp, impl=sup_of(got[1]), expected=sups)


def run_stack_keyword(nap, res):
    """np.vstack / np.hstack / np.dstack name their operand list `tup`: the keyword spelling must behave as the positional one"""
    for tail in [(), (2,), (2, 2)]:
        a = mk(nap, (2,) + tail, t0=0, sup=[(-U, 20 * U)])
        b = mk(nap, (2,) + tail, t0=6 * U, sup=[(-U, 20 * U)], base=30)
        for fname, func in [("vstack", np.vstack), ("hstack", np.hstack), ("dstack", np.dstack)]:
            exp = call(lambda: func(tup=[np.array(a.values), np.array(b.values)]))
            pos = call(lambda: func([a, b]))
            got = call(lambda: func(tup=[a, b]))
            res.case(("stack_keyword", fname, tail))
            res.count("concat:" + fname + "[tup=]")
            inp = {"function": fname + "(tup=[a, b])", "tail": list(tail), "t": [ticks_of(a), ticks_of(b)]}
            if exp[0] == "exc" or pos[0] == "exc":
                continue                                 # rejected by NumPy, or the positional form already fails (judged in run_concat)
            same = got[0] == "ok" and same_values(raw(nap, got[1]), exp[1]) and type(got[1]) is type(pos[1]) \
                and (not is_nap(nap, pos[1]) or (ticks_of(got[1]) == ticks_of(pos[1]) and sup_of(got[1]) == sup_of(pos[1])))
            if not same:
                viol(res, {"op": "concatenate_family", "part": "raises" if got[0] == "exc" else "values_other_axis", "how": "raises" if got[0] == "exc" else "differs_from_positional_call",
                           "array_by_keyword": True, "exception": got[1] if got[0] == "exc" else None},
                     "the positional call np.%s([a, b]) works, the keyword spelling np.%s(tup=[a, b]) does not give the same" % (fname, fname), inp,
                     impl=got[1] if got[0] == "exc" else type(got[1]).__name__, expected=type(pos[1]).__name__)


def run_concat_1us(nap, res):
    """supports that touch: IntervalSet.union trims the earlier one by 1 us; a sample inside that last microsecond"""
    lines, cases = [], []
    for d in (1, 400, 999, 1000, 1001, 2000):
        x = nap.Tsd(G.arr([0, 8 * U - d]), np.array([1.0, 2.0]), time_support=nap.IntervalSet(G.arr([-U]), G.arr([8 * U])))
        y = nap.Tsd(G.arr([8 * U + U, 10 * U]), np.array([3.0, 4.0]), time_support=nap.IntervalSet(G.arr([8 * U]), G.arr([12 * U])))
        got = call(lambda: np.concatenate([x, y]))
        res.case(("concat_touching_support", d))
        res.count("concat_touching_support")
        inp = {"function": "concatenate", "t": [ticks_of(x), ticks_of(y)], "sup": [sup_of(x), sup_of(y)]}
        cases.append((inp, got))
        lines.append("concat\t2\t%s\t%s\t4\t1 2 3 4" % (ts6(nap, x), ts6(nap, y)))
        judge_1us(nap, res, inp, got, [x, y])
    # three operands whose supports unite to ONE interval: the first two touch at p = 8U, the third covers [p - 0.5 us, ..]; the pairwise fold trims
    # [.., p - 1 us] first and the third operand then starts after that end: a gap (p - 1 us, p - 0.5 us) the union does not have
    for d in (700, 300):
        x = nap.Tsd(G.arr([0, 8 * U - d]), np.array([1.0, 2.0]), time_support=nap.IntervalSet(G.arr([-U]), G.arr([8 * U])))
        y = nap.Tsd(G.arr([8 * U + U, 10 * U]), np.array([3.0, 4.0]), time_support=nap.IntervalSet(G.arr([8 * U]), G.arr([12 * U])))
        z = nap.Tsd(G.arr([13 * U, 14 * U]), np.array([5.0, 6.0]), time_support=nap.IntervalSet(G.arr([8 * U - 500]), G.arr([16 * U])))
        got = call(lambda: np.concatenate([x, y, z]))
        res.case(("concat_touching_support_bridged", d))
        res.count("concat_touching_support")
        inp = {"function": "concatenate", "t": [ticks_of(o) for o in (x, y, z)], "sup": [sup_of(o) for o in (x, y, z)]}
        cases.append((inp, got))
        lines.append("concat\t3\t%s\t%s\t%s\t6\t1 2 3 4 5 6" % (ts6(nap, x), ts6(nap, y), ts6(nap, z)))
        judge_1us(nap, res, inp, got, [x, y, z])
    for (inp, got), mo in zip(cases, C.run_model(lines, driver="driver_c14")):
        why = agree(nap, parse_out(mo), got)
        if why is not None:
            res.disagreements.append({"op": "concat(touching supports)", "input": inp, "model": mo[:200], "impl": short(got[1]), "why": why})


# ------------------------------------------------------------------------------------------------
# split family
def _nd(a):
    return len(a.shape)


# every spelling of "split along the time axis": (name, call, array_split?, how the axis is spelled)
SPLIT_TIME_FORMS = [
    ("split", np.split, 0, "default"), ("array_split", np.array_split, 1, "default"), ("vsplit", np.vsplit, 0, "default"),
    ("split(axis=0)", lambda a, s: np.split(a, s, axis=0), 0, "0"), ("split(a,s,0)", lambda a, s: np.split(a, s, 0), 0, "0"),
    ("array_split(axis=0)", lambda a, s: np.array_split(a, s, axis=0), 1, "0"),
    ("split(axis=-ndim)", lambda a, s: np.split(a, s, axis=-_nd(a)), 0, "-ndim"), ("split(a,s,-ndim)", lambda a, s: np.split(a, s, -_nd(a)), 0, "-ndim"),
    ("array_split(axis=-ndim)", lambda a, s: np.array_split(a, s, axis=-_nd(a)), 1, "-ndim"),
    ("split(ary=,indices_or_sections=)", lambda a, s: np.split(ary=a, indices_or_sections=s), 0, "default", True),
    ("array_split(ary=,indices_or_sections=)", lambda a, s: np.array_split(ary=a, indices_or_sections=s), 1, "default", True),
    ("vsplit(ary=,indices_or_sections=)", lambda a, s: np.vsplit(ary=a, indices_or_sections=s), 0, "default", True),
]


SPLIT_TIME_FORMS_NEW = [
    ("split(axis=np.int64(0))", lambda a, s: np.split(a, s, axis=np.int64(0)), 0, "0"), ("array_split(a,s,np.int64(0))", lambda a, s: np.array_split(a, s, np.int64(0)), 1, "0"),
    ("split(a,indices_or_sections=,axis=0)", lambda a, s: np.split(a, indices_or_sections=s, axis=0), 0, "0"),
    ("array_split(a,indices_or_sections=)", lambda a, s: np.array_split(a, indices_or_sections=s), 1, "default"),
    ("vsplit(a,indices_or_sections=)", lambda a, s: np.vsplit(a, indices_or_sections=s), 0, "default"),
    ("split(axis=np.int64(-ndim))", lambda a, s: np.split(a, s, axis=np.int64(-_nd(a))), 0, "-ndim"),
    ("array_split(ary=,indices_or_sections=,axis=0)", lambda a, s: np.array_split(ary=a, indices_or_sections=s, axis=0), 1, "0", True),
]
SPLIT_OTHER_FORMS = [("hsplit", lambda a, s: np.hsplit(a, s)), ("dsplit", lambda a, s: np.dsplit(a, s)), ("split(axis=1)", lambda a, s: np.split(a, s, axis=1)),
                     ("array_split(axis=1)", lambda a, s: np.array_split(a, s, axis=1)),
                     ("split(a,s,1)", lambda a, s: np.split(a, s, 1)), ("array_split(a,s,1)", lambda a, s: np.array_split(a, s, 1)),
                     ("split(axis=-1)", lambda a, s: np.split(a, s, axis=-1)), ("hsplit(ary=,indices_or_sections=)", lambda a, s: np.hsplit(ary=a, indices_or_sections=s))]
SPLIT_OTHER_FORMS_NEW = [("split(axis=np.int64(1))", lambda a, s: np.split(a, s, axis=np.int64(1))), ("array_split(a,s,np.int64(1))", lambda a, s: np.array_split(a, s, np.int64(1))),
                         ("hsplit(a,indices_or_sections=)", lambda a, s: np.hsplit(a, indices_or_sections=s)), ("split(axis=2)", lambda a, s: np.split(a, s, axis=2)),
                         ("dsplit(ary=,indices_or_sections=)", lambda a, s: np.dsplit(ary=a, indices_or_sections=s))]


def ios_json(ios):
    return ios.tolist() if isinstance(ios, np.ndarray) else int(ios) if isinstance(ios, np.integer) else list(ios) if isinstance(ios, tuple) else ios


def run_split(nap, res, tier, plan=None, tag="split"):
    """plan entries: (shape, ioss, oioss[, opt]); ioss = [(kind, indices_or_sections)], kind = 'sections' | 'indices' | '<sections|indices>_<argument form>';
    opt = {'v': variant of the receiver (mk), 'forms': call forms along time, 'other': call forms along another axis}.  With a variant the SAME live object goes through
    every call of the entry, and is judged against its state before the first call."""
    lines, cases = [], []
    olines, ocases = [], []
    if plan is None:
        plan = []
        for shape in [(0,), (1,), (2,), (5,), (6,), (5, 3), (6, 2), (4, 4), (1, 1), (0, 3), (4, 3, 2), (6, 2, 2)]:
            n = shape[0]
            ioss = [("sections", N) for N in range(0, n + 3)] + [("indices", list(ix)) for k in (1, 2) for ix in itertools.combinations_with_replacement(range(0, n + 2), k)]
            ioss += [("indices", [3, 1]), ("indices", [])]
            plan.append((shape, ioss, [1, 2, 3, [1], [1, 2], [0]]))
    for shape, ioss, oioss, *opt in plan:
        opt = opt[0] if opt else {}
        v = opt.get("v")
        live = None
        if v is not None:
            live = build(nap, res, shape, v, dtype=v.get("dtype", float))
            if live is None:
                continue
            shape = tuple(live.shape)
            lsn = Snap(nap, live)
            for k_ in v:
                res.count("split_receiver:%s=%s" % (k_, np.dtype(v[k_]).name if k_ == "dtype" else v[k_]))
        n = shape[0]
        for fname, func, asplit, axis_form, *kw in opt.get("forms", SPLIT_TIME_FORMS):
            for kind, ios in ioss:
                x = mk(nap, shape) if live is None else live
                sn = Snap(nap, x) if live is None else lsn
                base = kind.split("_")[0]
                exp = call(func, np.array(sn.v, copy=True), ios)
                got = call(func, x, ios)
                inp = {"function": fname, "shape": list(shape), base: ios_json(ios), "axis_form": axis_form, "array_by_keyword": bool(kw)}
                if kind != base:
                    inp["indices_or_sections_form"] = kind
                    res.count("split_argument_form:" + kind)
                if v is not None:
                    inp["variant"] = vname(v)
                ckey = (tag, fname, shape, kind, str(ios_json(ios)), str(inp.get("variant")))
                res.count(tag + ":" + fname.split("(")[0] + ("" if axis_form == "default" else "[axis " + axis_form + "]") + ("[ary=]" if kw else ""))
                if exp[0] == "exc":
                    res.case(ckey, nontrivial=False)
                    res.count("numpy_rejects")
                    if got[0] == "ok":
                        viol(res, {"op": fname.split("(")[0], "part": "numpy_rejects_but_wrapper_returns"}, "NumPy rejects the split of the raw array but the wrapper returns", inp)
                    continue
                e = exp[1]
                res.case(ckey, nontrivial=len(e) > 1 and n > 0)
                cases.append((inp, sn, e, got))
                # the model's split_tsd is the `axis == 0` branch of _split_tsd: the default and the explicit 0 reach it; the negative spelling of
                # the time axis and the keyword spelling of the array are judged by the statement-level oracle only (as are negative indices)
                jl = ios_json(ios)
                modelled = axis_form in ("default", "0") and not kw and (base == "sections" or all(int(q) >= 0 for q in jl))
                lines.append("split\t%d\t%d\t%s\t%s" % (asplit, 0 if base == "sections" else 1, str(int(jl)) if base == "sections" else C.fmt_ints(jl), sn.line) if modelled else None)
        # not along axis 0 of the model: hsplit / dsplit / split(axis=1)
        for fname, func in opt.get("other", SPLIT_OTHER_FORMS):
            if fname == "split(axis=-1)" and len(shape) == 1:
                continue                                 # -1 IS the time axis of a Tsd: covered by the "-ndim" forms above
            for ios in oioss:
                x = mk(nap, shape) if live is None else live
                sn = Snap(nap, x) if live is None else lsn
                exp = call(func, np.array(sn.v, copy=True), ios)
                got = call(func, x, ios)
                inp = {"function": fname, "shape": list(shape), "indices_or_sections": ios_json(ios)}
                if v is not None:
                    inp["variant"] = vname(v)
                ckey = (tag + "_other", fname, shape, str(ios_json(ios)), type(ios).__name__, str(inp.get("variant")))
                res.count(tag + ":" + fname.split("(")[0] + "_other_axis")
                if exp[0] == "exc":
                    res.case(ckey, nontrivial=False)
                    res.count("numpy_rejects")
                    if got[0] == "ok":
                        viol(res, {"op": fname, "part": "numpy_rejects_but_wrapper_returns"}, "NumPy rejects the split of the raw array but the wrapper returns", inp)
                    continue
                e = exp[1]
                res.case(ckey, nontrivial=n > 0)
                ocases.append((inp, sn, e, got, fname))
                if fname in ("hsplit", "dsplit"):
                    olines.append("split_other\t%s\t%d\t%s" % (sn.line, len(e), "\t".join(C.fmt_ints(p.shape) + "\t" + C.fmt_ints(int_cells(p)) for p in e)))
                else:
                    olines.append(None)
    mit = iter(C.run_model([l for l in lines if l is not None], driver="driver_c14"))
    for (inp, x, e, got), l in zip(cases, lines):
        mo = next(mit) if l is not None else None
        # ---- correspondence
        if mo is None:
            res.count("split_oracle_only(no model line)")
        elif mo.startswith("ERR "):
            ok = got == ("exc", ERRMAP.get(mo[4:], "?"))
            if not ok:
                res.disagreements.append({"op": "split", "input": inp, "model": mo, "impl": short(got[1])})
        else:
            ms = [parse_out(p) for p in mo.split(" ; ")] if mo.strip() else []
            if got[0] != "ok" or len(got[1]) != len(ms):
                res.disagreements.append({"op": "split", "input": inp, "model": mo[:200], "impl": short(got[1]), "why": "number of pieces / exception"})
            else:
                for m, piece, ep in zip(ms, got[1], e):
                    why = agree(nap, m, ("ok", piece), cells_expected=exact_cells(ep) if exact_cells(x.v) is not None else None)
                    if why is not None:
                        res.disagreements.append({"op": "split", "input": inp, "model": mo[:200], "impl": type(piece).__name__, "why": why})
                        break
        # ---- statement-level oracle: the pieces partition timestamps together with the data
        fname = inp["function"].split("(")[0]
        axf = inp["axis_form"]
        if got[0] == "exc":
            uneven = fname == "array_split" and "sections" in inp and inp["sections"] > 0 and x.shape[0] % inp["sections"] != 0 and got[1] == "ValueError"
            viol(res, {"op": fname, "part": "uneven_sections" if uneven else "raises", "axis": axf, "array_by_keyword": inp["array_by_keyword"], "exception": got[1]},
                 "NumPy splits the raw array but the split of the time series raises " + got[1] + (" (the index is always divided with np.split)" if uneven else ""), inp,
                 impl=got[1], expected=[list(p.shape) for p in e])
            continue
        pcs = got[1]
        tt = x.t
        pos = 0
        bad = None
        if len(pcs) != len(e):
            bad = "number of pieces"
        else:
            lens = [p.shape[0] for p in e]
            monotone = sum(lens) == x.shape[0]
            for p, ep in zip(pcs, e):
                if not is_nap(nap, p) or type(p) is not x.cls:
                    bad = "piece is not a time series of x's class"
                    break
                if not same_values(raw(nap, p), ep):
                    bad = "piece values differ from NumPy's"
                    break
                if monotone:
                    if ticks_of(p) != tt[pos:pos + ep.shape[0]]:
                        bad = "piece timestamps are not those of its rows"
                        break
                    pos += ep.shape[0]
                if ep.shape[0] and sup_of(p) != x.sup:
                    bad = "piece support differs from x's"
                    break
                if x.frame and cols_of(nap, p) != x.cols:
                    bad = "piece column labels differ from x's"
                    break
            if bad is None and monotone and [t for p in pcs for t in ticks_of(p)] != tt:
                bad = "pieces do not partition the timestamps"
        if bad:
            # all_pieces_raw_with_numpy_values: the numbers are NumPy's, but every piece came back as a bare ndarray (the time axis is not split with the data)
            allraw = len(pcs) == len(e) and len(pcs) > 0 and all(isinstance(p, np.ndarray) and same_values(p, ep) for p, ep in zip(pcs, e))
            viol(res, {"op": fname, "part": "partition", "axis": axf, "array_by_keyword": inp["array_by_keyword"], "all_pieces_raw_with_numpy_values": allraw}, "split along time: " + bad, inp,
                 impl=[type(p).__name__ for p in pcs][:4])
        if len(res.samples) < 7 and len(e) == 2 and x.shape[0] == 5 and inp["function"] == "split" and all(is_nap(nap, p) for p in pcs):
            res.sample({"split": inp, "pieces_t": [ticks_of(p) for p in pcs]})
    oout = C.run_model([l for l in olines if l is not None], driver="driver_c14")
    it = iter(oout)
    for (inp, x, e, got, fname), ol in zip(ocases, olines):
        mo = next(it) if ol is not None else None
        if mo is not None:
            ms = [parse_out(p) for p in mo.split(" ; ")] if mo.strip() else []
            if got[0] != "ok" or len(got[1]) != len(ms):
                res.disagreements.append({"op": "split_other", "input": inp, "model": mo[:200], "impl": short(got[1])})
            else:
                for m, piece, ep in zip(ms, got[1], e):
                    why = agree(nap, m, ("ok", piece), cells_expected=exact_cells(ep) if exact_cells(x.v) is not None else None)
                    if why is not None:
                        res.disagreements.append({"op": "split_other", "input": inp, "model": mo[:200], "impl": type(piece).__name__, "why": why})
                        break
        if got[0] == "exc":
            viol(res, {"op": fname.split("(")[0], "part": "raises", "axis": "other", "array_by_keyword": "ary=" in fname, "exception": got[1]},
                 "NumPy splits the raw array but the call on the time series raises " + got[1], inp)
            continue
        pcs = got[1]
        if len(pcs) != len(e) or not all(same_values(raw(nap, p), ep) for p, ep in zip(pcs, e)):
            viol(res, {"op": fname, "part": "values"}, "pieces differ from NumPy's", inp)
            continue
        for p in pcs:
            if is_nap(nap, p) and (ticks_of(p) != x.t or sup_of(p) != x.sup):
                viol(res, {"op": fname, "part": "time_axis"}, "a piece that is a time series does not carry x's timestamps / support", inp)
        if fname.startswith("hsplit") and len(x.shape) == 1 and x.shape[0] and not all(is_nap(nap, p) for p in pcs):
            viol(res, {"op": "hsplit", "part": "1d_along_time_loses_timestamps"},
                 "np.hsplit of a Tsd splits ALONG TIME (1-d) but returns raw arrays: the timestamps are not partitioned with the data", inp, impl=[type(p).__name__ for p in pcs])


def ios_forms(n):
    """axis 2 / 3 for indices_or_sections: NumPy integer sections, indices as tuple / ndarray (int64, uint8) / negative positions / NumPy integers inside a list"""
    out = [("sections_np.int64", np.int64(N)) for N in (1, 2, 3, max(n, 1), n + 1)] + [("sections_np.uint8", np.uint8(2))]
    for ix in ([1], [2], [1, 3], [0, n], [n, n + 1], [], [2, 2]):
        out += [("indices_tuple", tuple(ix)), ("indices_ndarray", np.array(ix, dtype=np.int64)), ("indices_uint8", np.array(ix, dtype=np.uint8)),
                ("indices_np.int64_in_list", [np.int64(q) for q in ix])]
    out += [("indices_negative", [-1]), ("indices_negative", [-2, -1]), ("indices_negative", [1, -1]), ("indices_negative", (-n,)), ("indices_range", range(1, 3))]
    return out


def run_split_wide(nap, res, tier, seed):
    quick = tier == "quick"
    rng = random.Random(seed * 1427 + 7)
    allt, allo = SPLIT_TIME_FORMS + SPLIT_TIME_FORMS_NEW, SPLIT_OTHER_FORMS + SPLIT_OTHER_FORMS_NEW
    plan = []
    # (a) axis 3: new call forms x the plain section / index lists; every call form x the new argument forms of indices_or_sections
    for shape in [(5,), (6, 2), (4, 4), (4, 3, 2), (0, 3), (1,), (6,), (2, 2, 2)]:
        n = shape[0]
        plain = [("sections", N) for N in (1, 2, 3, n, n + 1)] + [("indices", ix) for ix in ([1], [1, 3], [0, n], [], [2, 2], [3, 1])]
        plan.append((shape, plain, [1, 2, [1], [0, 1]], {"forms": SPLIT_TIME_FORMS_NEW, "other": SPLIT_OTHER_FORMS_NEW}))
        forms = ios_forms(n)
        plan.append((shape, forms if not quick else rng.sample(forms, 14), [np.int64(2), (1,), np.array([1]), [np.int64(1)], [-1]],
                     {"forms": allt if not quick else rng.sample(allt, 6), "other": allo if not quick else rng.sample(allo, 5)}))
    # (b) the receiver in every argument form / placement / support / label / history variant: one shape per variant (thorough: three), the same live object for all its calls
    shapes = [(5,), (6,), (1,), (0,), (5, 3), (6, 2), (4, 4), (1, 1), (0, 3), (4, 3, 2), (6, 2, 2), (2, 2, 2)]
    V = receiver_variants(rng) + [{"dtype": dt} for dt in DTYPES] + [{"fill": f} for f in FILLS] + [{"dtype": np.float32, "fill": "pminf"}, {"dtype": np.uint8, "fill": "zeros", "labels": "str"}]
    for v in V:
        for _ in range(1 if quick else 3):
            shape = rng.choice(shapes)
            if v.get("hist") == "loc" and len(shape) != 2:
                shape = (5, 3)
            n = shape[0]
            ioss = [("sections", N) for N in (1, 2, 3, n)] + [("indices", ix) for ix in ([2], [1, 3], [0, n], [])] + [("sections_np.int64", np.int64(2)), ("indices_tuple", (1, 2)), ("indices_negative", [-1])]
            plan.append((shape, ioss if not quick else rng.sample(ioss, 5), [2, [1]],
                         {"v": v, "forms": allt if not quick else rng.sample(allt, 5), "other": allo if not quick else rng.sample(allo, 4)}))
    run_split(nap, res, tier, plan=plan, tag="split_wide")


def run(res, tier, seed):
    nap = _nap()
    warnings.simplefilter("ignore")
    res.rule = ("wrap: EVERY entry of a table of 378 call forms (~150 NumPy functions/operators) (unary/binary ufuncs x operand kinds scalar/array/row/col/rank+1 x both operand orders, operators, reductions over every axis, cumulative, "
                "reshaping/indexing, non-array results, the exclusion list, np.fft; function and method forms) x EVERY shape (n,),(n,3),(n,n),(n,1),(n,3,2),(n,n,2),4-d with n in {0,1,2,5} [complete]; "
                "the implementation must equal the same NumPy call on the raw array bit for bit and the time axis/support/class/columns must match both the statement and the extracted model's verdict. "
                "same-class pairs and ufunc methods (refused); mixed-class pairs on square / length-1 shapes, both orders; in-place operators. "
                "concatenate family (11 call forms incl. axis=-ndim, + vstack/hstack/dstack(tup=..)): ALL operand lists over lengths {0,1,2,3} (1-3 operands) x row shapes x 5 time layouts (sequential, touching, overlapping, reversed, interleaved) "
                "x 3 support layouts, equal-length operands with the same time axis / one operand shifted by 2^-9 s / by 1 ns or 2 ns (first stamp, every stamp, support start, support end: 'equal up to precision'), "
                "with a raw operand mixed in; touching supports with a sample 1, 400, 999, 1000, 1001, 2000 ns before the touching point, and three operands where the third bridges the touching point; "
                "the result support is compared EXACTLY with the union (only C01's trimmed microsecond before a touching point may be missing). "
                "split family: ALL sections 0..n+2 and all index lists of length <= 2 over 0..n+1 (+ unsorted, empty) for split/array_split/vsplit in every spelling of the time axis "
                "(default, axis=0, positional 0, axis=-ndim, positional -ndim, ary=/indices_or_sections= keywords), hsplit/dsplit/axis=1/axis=-1. thorough adds seeded random shapes/functions, random concatenations of 2-5 operands and random splits. non-trivial = the NumPy result is an array of rank >= 1 on a non-empty series (a wrapping decision is made) / >= 2 operands or pieces. "
                "ARGUMENT-FORM AXES (run_wrap_wide / run_concat_wide / run_split_wide, widened same-class and mixed-class loops; quick = seeded samples random.Random(seed * k + c), thorough = complete products; every case goes through the SAME oracle functions). "
                "Axis 1 (dtype of the data): the whole table re-run with float32, int64, int32, int16, int8, uint8, uint16, uint32, uint64, bool data, float data holding NaN / +inf / -inf / +inf and -inf side by side, all-equal and all-zero data; concatenation of operands of one and of two different dtypes; splits of every dtype. "
                "Axis 2 (form of the arguments): the second operand of binary ufuncs / operators as Python int / float / bool, np.float32 / np.int64 / np.uint8 / np.float64 scalars, 0-d arrays, list, tuple, arrays of another dtype, Fortran-ordered and strided arrays, nan / inf / -inf / complex scalars; "
                "the receiver built from t given as list, tuple, pandas Index / Series, another object's TsIndex, another object's .t, int64 / int32 / uint64 / uint8 arrays, a list of Python ints, integer milliseconds, through the pandas constructors, by keywords, with the data as a nested list; "
                "indices_or_sections as NumPy integers, tuple, int64 / uint8 ndarray, range, negative positions; concatenation operands as a tuple. "
                "Axis 3 (positional and keyword, options, combined flags): ~250 extra call forms (axis positionally / as a tuple / as np.int64, the array by keyword, dtype= keepdims= where= initial= ddof= combined, out buffers, order=, casting=, "
                "three-operand clip / where, mode= / side= / kind= options), np.concatenate with the axis as np.int64 / np.int8 / None positionally and by keyword, out positionally, dtype= with casting=, vstack / hstack with dtype= casting=, split with axis=np.int64 and indices_or_sections= by keyword. "
                "Axis 4 (time units): receivers and operands built with time_units ms and us (the same instants), with and without an explicit support. "
                "Axis 5 (time placement): receivers / operand lists / split inputs at negative times, straddling 0, at -1e5 s and +1e5 s; the 1 ns layouts stay where the statement allows them (concatenate along another axis). "
                "Axis 6 (degenerate): duplicated timestamps, all timestamps equal (explicit support), supports of one interval / many intervals (intervals holding one sample and none) / the default support, empty and one-sample receivers in every variant. "
                "Axis 7 (classes and labels): every variant for Tsd, TsdFrame and TsdTensor; TsdFrame labels as strings, unsorted strings, unsorted integers not 0..k-1, floats, mixed str/int, defaults; frames carrying metadata; operands with different label kinds. "
                "Axis 8 (histories): receivers that come out of slice / split / boolean index / get / restrict / arithmetic / a NumPy function / astype / np.concatenate / save+load / loc; ONE live object reused for a batch of calls and for all call forms of an operand list, "
                "always judged against its state before the first call (Snap); operands that share memory with x (x.values, x.values[::-1], x.values.T); operand lists made of slices / split pieces / restrictions / arithmetic results of one parent, the same object twice or three times, "
                "a concatenation fed into the next one. Not generated (the statement does not determine the outcome): bool ** Python int (NumPy's own operator and ufunc disagree on the dtype), a single operand with duplicated timestamps, pandas Series operands, ndarray-method spellings NumPy's functions do not have (x.flatten(), x.reshape(a, b))")
    res.exhaustive = True
    run_wrap(nap, res, tier)
    run_wrap_wide(nap, res, tier, seed)
    run_same_class(nap, res)
    run_mixed(nap, res)
    run_inplace(nap, res)
    run_concat(nap, res, tier)
    run_concat_wide(nap, res, tier, seed)
    run_concat_1us(nap, res)
    run_stack_keyword(nap, res)
    run_split(nap, res, tier)
    run_split_wide(nap, res, tier, seed)
    if tier != "quick":
        run_random(nap, res, seed)
    if _TMP[0] is not None:                          # the files of the save + load histories
        import shutil
        shutil.rmtree(_TMP[0], ignore_errors=True)
        _TMP[0] = None


def run_random(nap, res, seed):
    """seeded larger cases: random shapes / lengths, a random table entry; random concatenations of up to 5 operands"""
    rng = random.Random(seed * 14 + 3)
    T = [t for t in table(nap) if t[3] is None and t[1] in ("plain", "ew")]
    lines, cases = [], []
    for _ in range(3000):
        nd = rng.choice([1, 2, 2, 3, 4])
        n = rng.choice([0, 1, 2, 3, 4, 7, 12])
        shape = (n,) + tuple(rng.choice([1, 2, 3, n if 0 < n < 8 else 2]) for _ in range(nd - 1))
        name, tag, f, operand, dtype = rng.choice(T)
        x = mk(nap, shape, dtype=dtype)
        exp = call(f, np.array(x.values), None)
        got = call(f, x, None)
        if exp[0] == "exc":
            continue
        res.case(("rand", name, shape), nontrivial=isinstance(exp[1], np.ndarray) and exp[1].ndim >= 1 and n >= 1)
        res.count("random_wrap")
        cases.append(({"function": name, "shape": list(shape)}, x, exp[1], got))
        lines.append("func\t0\t%s\t%s" % (ts6(nap, x), npres_arg(exp[1])))
    out = C.run_model(lines, driver="driver_c14")
    for (inp, x, e, got), mo in zip(cases, out):
        size = int(np.prod(e.shape)) if isinstance(e, np.ndarray) else 0
        why = agree(nap, parse_out(mo), got, cells_expected=list(range(size)))
        if why is not None:
            res.disagreements.append({"op": "wrap(random)", "input": inp, "model": mo[:200], "why": why})
        if got[0] == "exc":
            viol(res, {"op": "array_function", "part": "zero_dim_result" if isinstance(e, np.ndarray) and e.ndim == 0 else "raises"}, "call on the time series raises " + got[1], inp)
        elif not same_values(raw(nap, got[1]), e):
            viol(res, {"op": "array_function", "part": "values"}, "result differs from the same NumPy call on the raw array", inp)
        elif is_nap(nap, got[1]) and (ticks_of(got[1]) != ticks_of(x) or sup_of(got[1]) != sup_of(x)):
            viol(res, {"op": "array_function", "part": "time_axis"}, "timestamps / support not carried", inp)
    # random concatenations: 2-5 operands, lengths 0-6, random offsets with forced coincidences, 1-2 interval supports
    lists = []
    for c in range(400):
        tail = rng.choice([(), (2,), (3,), (2, 2), (1,)])
        k = rng.randint(2, 5)
        ops, pos = [], 0
        for i in range(k):
            n = rng.choice([0, 1, 2, 3, 6])
            r = rng.random()
            if r < 0.6:
                t0 = pos                                   # after the previous operand
            elif r < 0.8:
                t0 = pos - 2 * U                           # first stamp = previous operand's last
            else:
                t0 = rng.randrange(-6, 6) * 2 * U          # anywhere (overlap / out of order)
            last = t0 + 2 * U * max(n - 1, 0)
            if n >= 2 and rng.random() < 0.5:
                cut = t0 + 2 * U * rng.randrange(0, n - 1) + U
                sup = [(t0 - U * rng.choice([1, 3]), cut - U // 2), (cut + U // 2, last + U * rng.choice([1, 3]))]
            else:
                sup = [(t0 - U * rng.choice([1, 3]), last + U * rng.choice([1, 3]))]
            ops.append(mk(nap, (n,) + tail, t0=t0, sup=sup, base=1 + 50 * i, cols_base=10 + 10 * i))
            pos = max(pos, last + 2 * U) if n else pos
        lists.append(({"tail": list(tail), "lens": [o.shape[0] for o in ops], "times": "random", "supports": "random", "case": c}, ops))
    run_concat(nap, res, "thorough", operand_lists=lists, tag="concat_random")
    # random splits
    plan = []
    for c in range(150):
        n = rng.choice([3, 4, 7, 8, 12])
        shape = (n,) + rng.choice([(), (2,), (n,), (2, 3)])
        ioss = [("sections", rng.randint(1, n + 1)) for _ in range(3)] + [("indices", sorted(rng.randrange(0, n + 2) for _ in range(rng.randint(1, 4)))) for _ in range(3)]
        plan.append((shape, ioss, [rng.randint(1, 3), sorted(rng.randrange(0, 4) for _ in range(2))]))
    run_split(nap, res, "thorough", plan=plan, tag="split_random")


def search(res, seed):
    r2 = C.Result()
    run(r2, "thorough", seed)
    new = [v for v in r2.violations if C.match_known("C14", v) is None]
    return new[0] if new else (r2.violations[0] if r2.violations else None)


def replay(payload):
    import os
    nap = _nap()
    warnings.simplefilter("ignore")
    v = payload.get("violation") or (payload.get("disagreements") or [{}])[0]
    inp = v.get("input", {})
    print("replay input:", inp)
    if "function" in inp and "shape" in inp and "t" not in inp and "axis_form" not in inp and "indices_or_sections" not in inp:
        var = inp.get("variant")
        if var is not None:
            var = {k: (np.dtype(w).type if k == "dtype" else w) for k, w in var.items()}
        for (name, tag, f, operand, dtype) in table(nap) + table_forms(nap) + table_kinds(nap):
            if name == inp["function"] and operand == inp.get("operand"):
                shape = tuple(inp["shape"])
                dtype = np.dtype(inp["dtype"]).type if var is not None and "dtype" in inp else dtype
                x = mk(nap, shape, dtype=dtype, v=var)
                sn = Snap(nap, x)
                o = operand_for(operand, shape, dtype, x) if operand is not None else None
                exp = call(f, np.array(sn.v, copy=True), o)
                got = call(f, x, o)
                print("numpy on raw array:", exp[0], (exp[1].shape if isinstance(exp[1], np.ndarray) else exp[1]))
                print("on time series    :", got[0], (type(got[1]).__name__ if got[0] == "ok" else got[1]))
                ok = got[0] == "ok" and exp[0] == "ok" and same_values(raw(nap, got[1]), exp[1]) and (not is_nap(nap, got[1]) or (ticks_of(got[1]) == sn.t and sup_of(got[1]) == sn.sup))
                return 0 if ok else 1
    if "t" in inp and "tail" in inp and "variant" not in inp and str(inp.get("times", "")).split(":")[0] != "history":
        fam = dict((e[0], e[1]) for e in concat_family() + concat_family_forms())
        if inp.get("function") in fam and inp.get("raw_operand") is None:
            ops = [mk(nap, (len(t),) + tuple(inp["tail"]), sup=[tuple(iv) for iv in sp], ticks=list(t), base=1 + 20 * i, cols_base=10 + 10 * i) for i, (t, sp) in enumerate(zip(inp["t"], inp["sup"]))]
            exp = call(fam[inp["function"]], [np.array(o.values) for o in ops])
            got = call(fam[inp["function"]], ops)
            print("numpy on raw arrays:", exp[0], (exp[1].shape if isinstance(exp[1], np.ndarray) else exp[1]))
            print("on time series     :", got[0], ((type(got[1]).__name__, np.shape(raw(nap, got[1]))) if got[0] == "ok" else got[1]))
            r = C.Result()
            run_concat(nap, r, "quick", operand_lists=[({k: inp[k] for k in ("tail", "lens", "times", "supports") if k in inp}, ops)], fam=[e for e in concat_family() + concat_family_forms() if e[0] == inp["function"]], all_forms=True)
            hits = [w for w in r.violations if w["key"] == v.get("key")]
            print("violations with the same key on the current tree:", len(hits))
            return 1 if hits else 0
    r = C.Result()
    run(r, "quick", int(os.environ.get("VERIF_SEED", "0") or 0))
    hits = [w for w in r.violations if w["key"] == v.get("key")]
    print("violations with the same key on the current tree:", len(hits))
    for w in hits[:3]:
        print(w)
    return 1 if hits else 0
