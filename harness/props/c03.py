"""C03 restrict keeps exactly the samples inside the closed intervals, rows intact."""
import os
import random
import shutil
import tempfile
import warnings

import numpy as np

import common as C
import gen as G

LEVEL = "proof"
TRUSTED = ["model: coq/Model/Restrict.v (restrict_scan); theorems in coq/Proofs/RestrictProofs.v, coq/Proofs/C03Compose.v; "
           "support and constructor clauses are stated on the constructor model of coq/Model/Store.v (mk_ts_sup), data rows abstracted; "
           "column labels / metadata have no model: that clause is checked on the implementation only"]
ASSUMPTIONS = ["timestamps sorted and IntervalSet canonical at kernel entry (guaranteed by the constructors: C01, C04)",
               "kernel cases are realised on a 1 us lattice; comparison-only kernel, so behaviour depends on order type only"]


def _nap():
    import pynapple as nap
    from pynapple.core import _jitted_functions as J
    return nap, J


def oracle_idx(ts, ep):
    return [i for i, t in enumerate(ts) if G.mem(t, ep)]


def oracle_cnt(ts, ep):
    return [sum(1 for t in ts if s <= t <= e) for s, e in ep]


N_RANDOM = {"quick": 300, "thorough": 5000}


def kernel_cases(tier, seed):
    N = 7 if tier == "quick" else 9
    pts = G.lattice(N)
    eps = G.canonical_isets(pts, 3 if tier == "quick" else 4)
    tss = G.sorted_multisets(pts, 3 if tier == "quick" else 4)
    for ep in eps:
        for ts in tss:
            yield ts, ep
    rng = random.Random(seed * 7919 + 3)
    for _ in range(N_RANDOM[tier]):
        ep = G.rand_canonical_iset(rng, 8)
        ts = G.rand_sorted_ts(rng, 30, ep)
        yield ts, ep


def run(res, tier, seed):
    nap, J = _nap()
    warnings.simplefilter("ignore")
    res.rule = ("kernel: ALL (canonical IntervalSet with <=3(4) intervals, sorted multiset of <=3(4) samples) on a 7(9)-point 1us lattice "
                "[complete: every order type incl. samples on starts/ends, duplicates, empty series, empty set, set before/after/between data] "
                "+ seeded random large cases; public, on a subsample (every 25th with the empty series; every other one stretched to a 3us lattice), each case with a second IntervalSet ep2: "
                "Ts/Tsd/TsdFrame/TsdTensor.restrict (samples, rows, labels, support), idempotence (samples, rows, support), "
                "restrict(ep).restrict(ep2) = exact filter by both and = restrict(ep.intersect(ep2)) on samples farther than 1us from every endpoint, restrict(ep2).restrict(ep) gives the same samples, restrict(ep.union(ep2)) / restrict(ep.set_diff(ep2)) = filter by the Boolean combination on those samples, and when every sample is far the counts obey |a| = |a.intersect(b)| + |a.set_diff(b)| and |union| + |intersect| = |a| + |b|, "
                "constructor(time_support=) in s/ms/us and on shuffled timestamps; TsGroup.restrict member-wise (Ts and Tsd members, member supports) for a group "
                "whose support is wide / the default union / the complement of ep (ep fills the gaps of the support and shares all its endpoints with it). "
                "non-trivial = at least one sample and one interval; distinct = distinct (ts, ep). "
                "WIDENED FORMS (forms_case on every public pick in the quick tier and every second one in the thorough tier, group_forms on every second of those; every choice from random.Random(f(seed, pick)); same oracle, plus dtype of the rows): "
                "axis 1 data dtype float64/float32/int64..int8/uint8..uint64/bool, content distinct rows / NaN,+inf,-inf / all equal / zeros / a strided view / the time array itself / a lazily loaded array-like with load_array=False / a nested Python list. "
                "axis 2 timestamps as ndarray, list, tuple, pd.Index, pd.Series, Tsd(pd.Series), TsdFrame(pd.DataFrame), another object's TsIndex or .t, int64/uint64/int8..uint32 arrays and int lists (whole units only), "
                "float32 (only when exact to 0.25 ns), Python/numpy scalars for one sample; IntervalSets given as arrays, keywords, lists, tuples, Series, (m,2) array, list of pairs, DataFrame with a metadata column, a copy, with metadata=, "
                "integer/unsigned/float32 arrays, scalars incl. 0-d arrays, TsIndex / .t of another object, strided views of one buffer; one in four is then intersected / united with itself, cut out of a longer set by slicing, or saved and loaded. "
                "axis 3 every constructor and restrict called positionally and by keyword, time_support=None spelt out, load_array True/False, columns / metadata given or not, TsGroup(data, time_support, time_units, bypass_check, metadata) positional or keyword, options combined at random. "
                "axis 4 timestamps and IntervalSets in s / ms / us (same instants). axis 5 placement: the case scaled to a whole-ms or whole-s lattice and shifted by +-1e5 s (on top of the 0 / -3us / -10ms translations). "
                "axis 6 one-sample and all-equal series, empty series, empty / one / many intervals, TsGroup with no member, one member, an empty member; keys unsorted ints, strings, floats, numpy ints, multi-digit strings, list input. "
                "axis 7 the four series classes in turn; TsdFrame columns default / strings / unsorted strings / unsorted ints not 0..n-1 / floats / one column from 1-D data / no column / duplicate labels, metadata as dict or DataFrame; TsdTensor of 3, 4 dims and a zero-size axis; "
                "TsGroup members Ts, Tsd of any dtype, raw arrays / lists in the group's time_units; group metadata as dict, DataFrame, keyword arguments. "
                "axis 8 the receiver is the result of slice / step / boolean mask / index array / get / restrict(ep2) / restrict(own time_support) / copy / *2 / np.add / save+load / column selection / component / dropna / fillna "
                "(group: subset, boolean mask, save+load, restrict(ep2)); the same live receiver and argument used twice, receiver / argument / caller's array checked unmodified; bypass_check=True groups. "
                "Arguments outside the documented signature (non-IntervalSet argument, 0-d t) only have to raise a clean exception or satisfy the statement (misuse_cases).")
    res.exhaustive = True
    cases = list(kernel_cases(tier, seed))
    n_lattice = len(cases) - N_RANDOM[tier]
    # two thirds of the cases are translated to straddle / lie below t = 0 (zero-initialised buffers: sign matters)
    offs = [0, -3000, -10**7]
    cases = [([t + offs[n % 3] for t in ts], [(a + offs[n % 3], b + offs[n % 3]) for a, b in ep]) for n, (ts, ep) in enumerate(cases)]
    lines = ["restrict\t%s\t%s" % (C.fmt_ints(ts), C.fmt_iset(ep)) for ts, ep in cases]
    model = C.run_model(lines)
    pyf_every = 5 if tier == "quick" else 11
    for n, ((ts, ep), mout) in enumerate(zip(cases, model)):
        t = G.arr(ts)
        st = G.arr([s for s, _ in ep])
        en = G.arr([e for _, e in ep])
        idx = J.jitrestrict(t, st, en)
        idx2, cnt = J.jitrestrict_with_count(t, st, en)
        impl = (list(map(int, idx)), list(map(int, cnt)))
        key = (tuple(ts), tuple(ep))
        res.case(key, nontrivial=bool(ts) and bool(ep))
        res.count("n_samples=%d" % min(len(ts), 5))
        res.count("n_intervals=%d" % min(len(ep), 5))
        if any(G.mem(x, [(s, s)]) or G.mem(x, [(e, e)]) for x in ts for s, e in ep):
            res.count("sample_on_endpoint")
        mi, mc = mout.split("|")
        mod = ([int(x) for x in mi.split()], [int(x) for x in mc.split()])
        exp = (oracle_idx(ts, ep), oracle_cnt(ts, ep))
        inp = {"op": "jitrestrict", "ts": ts, "ep": ep}
        if list(map(int, idx2)) != impl[0]:
            res.violations.append({"key": {"op": "jitrestrict_with_count"}, "what": "jitrestrict and jitrestrict_with_count select different samples",
                                   "input": inp, "impl": [impl[0], list(map(int, idx2))]})
        if impl != exp:
            res.violations.append({"key": {"op": "jitrestrict"}, "what": "restrict kernel does not select exactly the samples inside the closed intervals",
                                   "input": inp, "impl": impl, "expected": exp})
        if mod != impl:
            res.disagreements.append({"input": inp, "impl": impl, "model": mod})
        if n % pyf_every == 0:
            try:
                pi = list(map(int, J.jitrestrict.py_func(t, st, en)))
                pi2, pc = J.jitrestrict_with_count.py_func(t, st, en)
                pyf = (pi, list(map(int, pc)))
                if list(map(int, pi2)) != pi:
                    pyf = ("mismatch", pi, list(map(int, pi2)))
            except Exception as ex:  # IndexError = out-of-bounds read (C15)
                pyf = "EXC " + type(ex).__name__
            res.count("py_func_cases")
            if pyf != impl:
                res.violations.append({"key": {"op": "jitrestrict.py_func"}, "what": "interpreted and compiled kernel differ",
                                       "input": inp, "impl": impl, "py_func": pyf})
        if n < 3 or (n % 9973 == 0):
            res.sample({"ts": ts, "ep": ep, "idx": impl[0], "count": impl[1]})

    # public API: every class, empty series included; each case gets a second IntervalSet ep2 (same translation)
    # for the composition clause
    rng = random.Random(seed + 17)
    picks = rng.sample(range(n_lattice), 9000 if tier == "thorough" else 1000) + \
        rng.sample(range(n_lattice, len(cases)), 1000 if tier == "thorough" else 100)
    pub = 0
    forms_every = 1 if tier == "quick" else 2      # widened forms: every pick (quick: 1100), every second pick (thorough: 5000)
    os.makedirs(C.CACHE, exist_ok=True)
    tmpdir = tempfile.mkdtemp(prefix="c03-", dir=C.CACHE)
    for n in picks:
        ts, ep = cases[n]
        if pub % 25 == 24:
            ts = []          # the empty series against every kind of IntervalSet
        off = offs[n % 3]
        if n < n_lattice:
            m = rng.randrange(n_lattice)
            m -= (m - n) % 3
            ep2 = cases[m if m >= 0 else n][1]
        else:
            ep2 = [(a + off, b + off) for a, b in
                   G.rand_canonical_iset(rng, 8, coincide=sorted(set(x - off for iv in ep for x in iv)))]
        if pub % 2:
            # every other case on a 3 us lattice: same order types, and every sample off the endpoints is now farther
            # than 1 us from all of them (the composition clause speaks about those)
            ts, ep, ep2 = [3 * x for x in ts], [(3 * a, 3 * b) for a, b in ep], [(3 * a, 3 * b) for a, b in ep2]
        pub += 1
        try:
            v = public_case(nap, ts, ep, ep2, res)
        except Exception as ex:
            v = {"key": {"op": "public", "part": "exception", "empty_series": not ts},
                 "what": "public restrict/constructor raised %s: %s" % (type(ex).__name__, str(ex)[:120]), "input": {"ts": ts, "ep": ep, "ep2": ep2}}
        res.evaluations += 1
        if v:
            res.violations.append(v)
        # the same case through the widened argument forms (own rng stream: the cases above are unchanged)
        for which in ("forms", "group_forms"):
            if pub % forms_every or (which == "group_forms" and (pub // forms_every) % 2):
                continue
            fv = run_forms(nap, which, ts, ep, ep2, (seed * 104729 + 11) * 1000003 + 2 * pub + (which == "group_forms"), pub, res, tmpdir)
            res.evaluations += 1
            res.count(which + "_cases")
            if fv:
                res.violations.append(fv)
    res.count("public_cases", pub)
    res.violations.extend(misuse_cases(nap, res))
    shutil.rmtree(tmpdir, ignore_errors=True)


def _ticks(a):
    return [C.to_ns(x) for x in np.asarray(a).ravel()]


def _sup(obj):
    return [(C.to_ns(s), C.to_ns(e)) for s, e in obj.time_support.values]


def _iset(nap, ep):
    return nap.IntervalSet(G.arr([s for s, _ in ep]), G.arr([e for _, e in ep]))


def _on_endpoint(ts, ep):
    pts = set(x for iv in ep for x in iv)
    return any(t in pts for t in ts)


def _far(x, pts):
    """farther than 1 us from every endpoint"""
    return all(abs(x - p) > 1000 for p in pts)


def _make(nap, name, t, d, **kw):
    if name == "Ts":
        return nap.Ts(t, **kw)
    if name == "TsdFrame":
        return nap.TsdFrame(t, d, columns=["a", "b", "c"], **kw)
    return getattr(nap, name)(t, d, **kw)


def public_case(nap, ts, ep, ep2=None, res=None):
    """The statement, clause by clause, on the public API. Returns a violation dict or None."""
    ep2 = list(ep) if ep2 is None else ep2
    t = G.arr(ts)
    n = len(ts)
    epo, epo2 = _iset(nap, ep), _iset(nap, ep2)
    d1 = np.arange(n) + 100
    d2 = np.stack([np.arange(n) + 100, np.arange(n) + 200, np.arange(n) + 300], axis=1)
    d3 = np.arange(n * 4).reshape(n, 2, 2) + 100
    exp_i = oracle_idx(ts, ep)
    exp_t = [ts[i] for i in exp_i]
    exp_sup = list(ep) if exp_i else []
    exp2_i = [i for i in exp_i if G.mem(ts[i], ep2)]
    exp2_t = [ts[i] for i in exp2_i]
    exp2_sup = list(ep2) if exp2_i else []
    endpoints = set(x for iv in list(ep) + list(ep2) for x in iv)
    far_i = [i for i in range(n) if _far(ts[i], endpoints)]
    inp = {"ts": ts, "ep": ep, "ep2": ep2}
    trig = {"empty_series": n == 0, "sample_on_endpoint": _on_endpoint(ts, ep)}
    if res is not None:
        res.count("public_empty_series", int(n == 0))
        res.count("public_compose_far_samples", len(far_i))
        res.count("public_compose_far_samples_kept", len([i for i in far_i if i in set(exp2_i)]))

    def key(op, part, **more):
        k = {"op": op, "part": part}
        k.update(trig)
        k.update(more)
        return k

    objs = {
        "Ts": nap.Ts(t),
        "Tsd": nap.Tsd(t, d1),
        "TsdFrame": nap.TsdFrame(t, d2, columns=["a", "b", "c"], metadata={"m": [7, 8, 9]}),
        "TsdTensor": nap.TsdTensor(t, d3),
    }
    datas = {"Ts": None, "Tsd": d1, "TsdFrame": d2, "TsdTensor": d3}
    perm = list(range(n))
    random.Random(n * 31 + (sum(ts) % 1009)).shuffle(perm)
    for name, o in objs.items():
        d = datas[name]
        r = o.restrict(epo)
        if type(r) is not type(o):
            return {"key": key(name + ".restrict", "class"), "what": "class changed", "input": inp}
        if _ticks(r.t) != exp_t:
            return {"key": key(name + ".restrict", "samples"), "what": "restrict returns the wrong samples", "input": inp,
                    "impl": _ticks(r.t), "expected": exp_t}
        if d is not None and not np.array_equal(r.values, d[exp_i]):
            return {"key": key(name + ".restrict", "rows"), "what": "a sample lost its own data row", "input": inp}
        if _sup(r) != exp_sup:
            return {"key": key(name + ".restrict", "support"), "what": "time support of the result is not ep (or empty)",
                    "input": inp, "impl": _sup(r), "expected": exp_sup}
        if name == "TsdFrame":
            if list(r.columns) != ["a", "b", "c"] or list(r.metadata["m"]) != [7, 8, 9]:
                return {"key": key("TsdFrame.restrict", "labels"), "what": "columns/metadata changed", "input": inp}
        # idempotence: samples, rows and support
        rr = r.restrict(epo)
        if type(rr) is not type(o) or _ticks(rr.t) != exp_t or (d is not None and not np.array_equal(rr.values, d[exp_i])) or _sup(rr) != exp_sup:
            return {"key": key(name + ".restrict", "idempotence"), "what": "restricting twice by ep changes the samples, the rows or the support", "input": inp}
        # composition: a then b is the exact filter by both, and agrees with restrict(a.intersect(b)) on every sample
        # farther than 1 us from every endpoint of a and b
        r2 = r.restrict(epo2)
        if _ticks(r2.t) != exp2_t or (d is not None and not np.array_equal(r2.values, d[exp2_i])) or _sup(r2) != exp2_sup:
            return {"key": key(name + ".restrict", "compose"), "what": "restrict(a).restrict(b) is not the samples (rows, support) inside both a and b",
                    "input": inp, "impl": _ticks(r2.t), "expected": exp2_t}
        ri = o.restrict(epo.intersect(epo2))
        got = [(x, (None if d is None else np.asarray(v).tolist())) for x, v in zip(_ticks(ri.t), (ri.t if d is None else ri.values)) if _far(x, endpoints)]
        want = [(ts[i], (None if d is None else np.asarray(d[i]).tolist())) for i in exp2_i if _far(ts[i], endpoints)]
        if got != want:
            return {"key": key(name + ".restrict", "compose_intersect"),
                    "what": "restrict(a).restrict(b) and restrict(a.intersect(b)) differ on a sample farther than 1us from every endpoint",
                    "input": inp, "impl": [g[0] for g in got], "expected": [w[0] for w in want]}
        # the same against union / set_diff, and order independence (theorems C03_commute, C03_restrict_union, C03_restrict_set_diff,
        # C03_partition, C03_inclusion_exclusion): samples farther than 1 us from every endpoint of a and b
        rc = o.restrict(epo2).restrict(epo)
        if _ticks(rc.t) != exp2_t or (d is not None and not np.array_equal(rc.values, d[exp2_i])):
            return {"key": key(name + ".restrict", "commute"), "what": "restrict(b).restrict(a) is not the samples (rows) inside both a and b",
                    "input": inp, "impl": _ticks(rc.t), "expected": exp2_t}
        in_a = [G.mem(x, ep) for x in ts]
        in_b = [G.mem(x, ep2) for x in ts]
        far_set = set(far_i)
        for opname, opset, pred in (("union", epo.union(epo2), lambda i: in_a[i] or in_b[i]),
                                    ("set_diff", epo.set_diff(epo2), lambda i: in_a[i] and not in_b[i])):
            ro = o.restrict(opset)
            got = [(x, (None if d is None else np.asarray(v).tolist())) for x, v in zip(_ticks(ro.t), (ro.t if d is None else ro.values)) if _far(x, endpoints)]
            want = [(ts[i], (None if d is None else np.asarray(d[i]).tolist())) for i in range(n) if i in far_set and pred(i)]
            if got != want:
                return {"key": key(name + ".restrict", "compose_" + opname),
                        "what": "restrict(a.%s(b)) is not the filter by the Boolean combination on a sample farther than 1us from every endpoint" % opname,
                        "input": inp, "impl": [g[0] for g in got], "expected": [w[0] for w in want]}
            if name == "Ts" and res is not None:
                res.count("public_compose_%s_far_kept" % opname, len(want))
        if len(far_i) == n:      # the counting laws are stated for a series all of whose samples are far
            na, nb = len(o.restrict(epo)), len(o.restrict(epo2))
            ni, nu, nd = len(ri), len(o.restrict(epo.union(epo2))), len(o.restrict(epo.set_diff(epo2)))
            if na != ni + nd or nu + ni != na + nb:
                return {"key": key(name + ".restrict", "counting"),
                        "what": "sample counts break |a| = |a.intersect(b)| + |a.set_diff(b)| or |union| + |intersect| = |a| + |b|",
                        "input": inp, "impl": {"a": na, "b": nb, "inter": ni, "union": nu, "diff": nd}}
            if name == "Ts" and res is not None:
                res.count("public_counting_laws_checked")
        # constructor with time_support = construct then restrict (sorted input, the three time units, unsorted input)
        c = _make(nap, name, t, d, time_support=epo)
        if _ticks(c.t) != exp_t or (d is not None and not np.array_equal(c.values, d[exp_i])):
            return {"key": key(name + "(time_support=)", "samples"), "what": "constructor with time_support differs from construct-then-restrict", "input": inp}
        # ... whatever accepted form the timestamps come in: another object's TsIndex (seed C03-5), a plain list, the .t array of an object
        for form, tf in (("TsIndex", o.index), ("list", [float(x) for x in t]), ("t_of_object", o.t)):
            cf = _make(nap, name, tf, d, time_support=epo)
            if _ticks(cf.t) != exp_t or (d is not None and not np.array_equal(cf.values, d[exp_i])) or _sup(cf) != (list(ep) if n else []):
                return {"key": key(name + "(time_support=)", "samples", t_form=form), "what": "constructor given t as %s with time_support differs from construct-then-restrict" % form,
                        "input": inp, "impl": _ticks(cf.t), "expected": exp_t}
        for units, f in (("ms", 1e3), ("us", 1e6)):
            tu = np.asarray(ts, dtype=np.float64) / (1e9 / f)
            cu = _make(nap, name, tu, d, time_units=units, time_support=epo)
            if _ticks(cu.t) != exp_t or (d is not None and not np.array_equal(cu.values, d[exp_i])):
                return {"key": key(name + "(time_support=)", "samples", units=units), "what": "constructor with time_units and time_support differs from construct-then-restrict",
                        "input": inp, "impl": _ticks(cu.t), "expected": exp_t}
        if n > 1 and perm != sorted(perm):
            tp, dp = t[perm], (None if d is None else d[perm])
            c1 = _make(nap, name, tp, dp, time_support=epo)
            c2 = _make(nap, name, tp, dp).restrict(epo)
            if _ticks(c1.t) != _ticks(c2.t) or _ticks(c1.t) != exp_t or (d is not None and not np.array_equal(c1.values, c2.values)):
                return {"key": key(name + "(time_support=)", "samples", unsorted_input=True),
                        "what": "constructor with time_support differs from construct-then-restrict on unsorted timestamps", "input": dict(inp, perm=perm)}
    return group_case(nap, ts, ep, t, d1, inp, res)


def group_case(nap, ts, ep, t, d1, inp, res=None):
    """TsGroup.restrict is member-wise: Ts and Tsd members, groups whose own support (i) is wide, (ii) is the default union of
    the members' [first, last] supports, (iii) is the complement of ep (every interval of ep fills a gap of the support: each
    endpoint of ep is shared with the support, so only samples sitting exactly on those endpoints survive)."""
    n = len(ts)
    epo = _iset(nap, ep)
    h = max(1, n // 2) if n else 0
    pts = list(ts) + [x for iv in ep for x in iv] + [0]
    lo, hi = min(pts) - 10**9, max(pts) + 10**9
    groups = {"wide": [(lo, hi)]}
    if n and ts[0] < ts[-1]:
        groups["default"] = None
    if ep:
        bounds = [lo] + [x for iv in ep for x in iv] + [hi]
        groups["complement_of_ep"] = list(zip(bounds[0::2], bounds[1::2]))
    for gname, sup in groups.items():
        mem_in = {3: nap.Ts(t), 1: nap.Tsd(t[:h], d1[:h]), 2: nap.Tsd(t, d1)}
        if sup is None:
            g = nap.TsGroup(mem_in, metadata={"lab": ["x", "y", "z"]})
        else:
            g = nap.TsGroup(mem_in, time_support=_iset(nap, sup), metadata={"lab": ["x", "y", "z"]})
        gsup = _sup(g)
        touch = bool(set(x for iv in gsup for x in iv) & set(x for iv in ep for x in iv))
        rg = g.restrict(epo)
        if res is not None:
            res.count("group_%s" % gname)
            res.count("group_support_touches_ep", int(touch))

        def key(part, **more):
            k = {"op": "TsGroup.restrict", "part": part, "group_support": gname, "ep_touches_group_support": touch, "empty_series": n == 0}
            k.update(more)
            return k

        if list(rg.keys()) != [1, 2, 3] or list(rg.metadata["lab"]) != list(g.metadata["lab"]):
            return {"key": key("keys"), "what": "keys/metadata changed", "input": inp}
        survivors = 0
        for k in (1, 2, 3):
            before = _ticks(g[k].t)
            keep = [i for i, x in enumerate(before) if G.mem(x, ep)]
            exp_t = [before[i] for i in keep]
            survivors += len(keep)
            on_ep = _on_endpoint(before, ep)
            if type(rg[k]) is not type(g[k]) or _ticks(rg[k].t) != exp_t:
                return {"key": key("samples", sample_on_endpoint=on_ep), "what": "group.restrict(ep)[k] is not the samples of group[k] inside the closed intervals of ep",
                        "input": inp, "member": k, "member_samples": before, "impl": _ticks(rg[k].t), "expected": exp_t}
            if k != 3 and not np.array_equal(rg[k].values, g[k].values[keep]):
                return {"key": key("rows", sample_on_endpoint=on_ep), "what": "a sample of a Tsd member lost its own data value", "input": inp, "member": k}
            if _sup(rg[k]) != (list(ep) if keep else []):
                return {"key": key("member_support", sample_on_endpoint=on_ep), "what": "time support of a restricted member is not ep (or empty when no sample survives)",
                        "input": inp, "member": k, "impl": _sup(rg[k])}
        if _sup(rg) != list(ep) and (survivors or _sup(rg) != []):
            return {"key": key("support"), "what": "group support is not ep", "input": inp, "impl": _sup(rg)}
    return None


# ======================================================================================
# WIDENED ARGUMENT FORMS (third-round review): the same statement, the same brute-force oracle, on every form the
# public operations accept.  One `forms_case` per public pick: one receiver class (cycled), every other axis sampled
# with an rng derived from the seed; `group_forms` does the same for TsGroup.  Nothing here is tolerant: a form that
# cannot hold the intended instants exactly (integers off the unit lattice, float32 too coarse) is not generated.
UNIT_TICKS = {"s": 10**9, "ms": 10**6, "us": 10**3}
CLASSES = ["Ts", "Tsd", "TsdFrame", "TsdTensor"]
DATA_DTYPES = ["float64", "float32", "int64", "int32", "int16", "int8", "uint8", "uint16", "uint32", "uint64", "bool"]
CONTENTS = ["index", "index", "nan_inf", "all_equal", "zeros", "strided", "time_alias", "lazy", "py_list"]
T_FORMS = ["ndarray", "list", "tuple", "pd.Index", "pandas", "TsIndex", "t_of_object", "int64", "uint64", "small_int", "list_int",
           "float32", "scalar"]
EP_FORMS = ["arrays", "kw", "lists", "tuples", "series", "pairs2d", "list_of_pairs", "dataframe", "copy", "meta", "int64", "uint64",
            "small_int", "list_int", "float32", "scalar", "tsindex", "ts_t", "strided"]
HISTORIES = ["none", "none", "slice", "step", "mask", "intidx", "get", "restrict_ep2", "copy", "arith", "numpy", "saveload", "columns",
             "component", "dropna", "fillna", "own_support"]
COLUMN_FORMS = [None, ["a", "b", "c"], ["c", "a", "b"], [5, 2, 9], [1.5, 0.5], ["x"], [], ["a", "a"]]
TENSOR_SHAPES = [(2, 2), (1, 1), (2, 1, 2), (3, 0)]
PLACEMENTS = [(1, 0), (1, 0), (1, 10**14), (1, -10**14), (1000, 0), (10**6, 0), (10**6, 10**14), (1000, -10**14)]


def _unit_floats(ticks, units):
    """the instants `ticks` as float64 numbers of `units` (s: the canonical float, = G.arr)"""
    return np.asarray(ticks, dtype=np.float64) / float(UNIT_TICKS[units]) if len(ticks) else np.array([], dtype=np.float64)


def _int_vals(ticks, units, dtype):
    """whole numbers of `units` in integer dtype `dtype`, or None when these instants are not whole / do not fit"""
    q = UNIT_TICKS[units]
    if any(x % q for x in ticks):
        return None
    v = [x // q for x in ticks]
    info = np.iinfo(dtype)
    if v and (min(v) < info.min or max(v) > info.max):
        return None
    return np.array(v, dtype=dtype)


def _f32_vals(ticks, units):
    """float32 numbers of `units`, or None when float32 is too coarse to hold these instants (to a quarter of a ns)"""
    q = UNIT_TICKS[units]
    a = _unit_floats(ticks, units).astype(np.float32)
    if any(abs(float(x) * q - tk) >= 0.25 for x, tk in zip(a, ticks)):
        return None
    return a


def _small_int(ticks, units):
    for dt in ("int8", "uint8", "int16", "uint16", "int32", "uint32"):
        v = _int_vals(ticks, units, dt)
        if v is not None:
            return v
    return None


def _time_arg(nap, form, units, ticks, rng):
    """(argument, actual form name) holding the instants `ticks` in `units`; (None, None) when the form does not apply"""
    import pandas as pd
    f = _unit_floats(ticks, units)
    if form == "ndarray":
        return f, form
    if form == "list":
        return [float(x) for x in f], form
    if form == "tuple":
        return tuple(float(x) for x in f), form
    if form == "pd.Index":
        return pd.Index(f, dtype="float64"), form
    if form == "pd.Series":
        return pd.Series(f, dtype="float64"), form
    if form in ("TsIndex", "t_of_object", "tsindex", "ts_t"):
        if units != "s":
            return None, None
        o = nap.Ts(G.arr(list(ticks)))
        return (o.index if form in ("TsIndex", "tsindex") else o.t), form
    if form in ("int64", "uint64"):
        return _int_vals(ticks, units, form), form
    if form == "small_int":
        v = _small_int(ticks, units)
        return v, (None if v is None else "small_int:" + str(v.dtype))
    if form == "list_int":
        v = _int_vals(ticks, units, "int64")
        return (None if v is None else [int(x) for x in v]), form
    if form == "float32":
        return _f32_vals(ticks, units), form
    if form == "scalar":
        if len(ticks) != 1:
            return None, None
        sub = rng.choice(["py_float", "py_int", "np.float64", "np.float32", "np.int64", "np.uint8"])
        if sub == "py_float":
            return float(f[0]), "scalar:" + sub
        if sub == "np.float64":
            return np.float64(f[0]), "scalar:" + sub
        if sub == "np.float32":
            v = _f32_vals(ticks, units)
            return (None if v is None else v[0]), "scalar:" + sub
        v = _int_vals(ticks, units, {"py_int": "int64", "np.int64": "int64", "np.uint8": "uint8"}[sub])
        if v is None:
            return None, None
        return (int(v[0]) if sub == "py_int" else v[0]), "scalar:" + sub
    raise ValueError(form)


def _pick_time_arg(nap, ticks, rng, forms, allow_units=True):
    """sample (form, unit) until one applies; ndarray always does"""
    for _ in range(6):
        form = rng.choice(forms)
        units = rng.choice(["s", "s", "ms", "us"]) if allow_units else "s"
        if form in ("int64", "uint64", "small_int", "list_int") and allow_units and rng.random() < 0.7:
            units = "us"        # the 1 us lattice is whole in us
        arg, fname = _time_arg(nap, form, units, ticks, rng)
        if arg is not None:
            return arg, fname, units
    return _unit_floats(ticks, "s"), "ndarray", "s"


def _iset_arg(nap, form, units, ep, rng):
    """(IntervalSet holding the intervals `ep` built through the argument form `form` in `units`, actual form name) or (None, None)"""
    import pandas as pd
    st, en = [a for a, _ in ep], [b for _, b in ep]
    m = len(ep)
    kw = {} if units == "s" else {"time_units": units}
    if form in ("arrays", "kw", "lists", "tuples", "series", "pairs2d", "list_of_pairs", "dataframe", "copy", "meta", "strided"):
        s, e = _unit_floats(st, units), _unit_floats(en, units)
        if form == "arrays":
            return (nap.IntervalSet(s, e, units) if rng.random() < 0.5 else nap.IntervalSet(s, e, **kw)), form
        if form == "kw":
            return nap.IntervalSet(end=e, start=s, time_units=units, metadata=None), form
        if form == "lists":
            return nap.IntervalSet([float(x) for x in s], [float(x) for x in e], **kw), form
        if form == "tuples":
            return nap.IntervalSet(tuple(float(x) for x in s), tuple(float(x) for x in e), **kw), form
        if form == "series":
            return nap.IntervalSet(pd.Series(s, dtype="float64"), pd.Series(e, dtype="float64"), **kw), form
        if form == "pairs2d":
            return (nap.IntervalSet(np.column_stack([s, e]), **kw), form) if m else (None, None)
        if form == "list_of_pairs":
            return (nap.IntervalSet([(float(a), float(b)) for a, b in zip(s, e)], **kw), form) if m else (None, None)
        if form == "dataframe":
            return nap.IntervalSet(pd.DataFrame({"start": s, "end": e, "lab": ["i%d" % i for i in range(m)]}), **kw), form
        if form == "copy":
            return nap.IntervalSet(nap.IntervalSet(s, e, **kw)), form
        if form == "meta":
            return nap.IntervalSet(s, e, metadata={"lab": np.arange(m) + 10, "w": ["w%d" % i for i in range(m)]}, **kw), form
        base = np.full((m, 5), -77.0)           # start / end are strided views of one buffer
        base[:, 1], base[:, 3] = s, e
        return nap.IntervalSet(base[:, 1], base[:, 3], **kw), form
    sa, fa = _time_arg(nap, form, units, st, rng)
    if sa is None:
        return None, None
    if form == "scalar":                       # same kind of scalar for the end
        sub = fa.split(":")[1]
        if sub == "np.float32":
            v = _f32_vals(en, units)
            ea = None if v is None else v[0]
        elif sub in ("py_int", "np.int64", "np.uint8"):
            v = _int_vals(en, units, "uint8" if sub == "np.uint8" else "int64")
            ea = None if v is None else (int(v[0]) if sub == "py_int" else v[0])
        else:
            ea = type(sa)(_unit_floats(en, units)[0])
        if sub in ("py_float", "np.float64") and rng.random() < 0.3:
            sa, ea, fa = np.array(float(sa)), np.array(float(ea)), "scalar:0d"
    elif form == "small_int":
        ea = _int_vals(en, units, fa.split(":")[1])
    else:
        ea, _ = _time_arg(nap, form, units, en, rng)
    if ea is None:
        return None, None
    return nap.IntervalSet(sa, ea, **kw), fa


def _pick_iset(nap, ep, rng, tmpdir=None):
    """an IntervalSet holding `ep`, through a sampled argument form and unit; one time in four it is then the RESULT of one more
    IntervalSet operation (axis 8 for the argument): intersected / united with itself, cut out of a longer set, saved and loaded"""
    for _ in range(6):
        form = "scalar" if len(ep) == 1 and rng.random() < 0.25 else rng.choice(EP_FORMS)
        units = rng.choice(["s", "s", "ms", "us"])
        if form in ("int64", "uint64", "small_int", "list_int") and rng.random() < 0.7:
            units = "us"
        o, fname = _iset_arg(nap, form, units, ep, rng)
        if o is None:
            continue
        r = rng.random()
        try:
            if r < 0.07:
                o, fname = o.intersect(o), fname + "+self_intersect"
            elif r < 0.13:
                o, fname = o.union(o), fname + "+self_union"
            elif r < 0.20 and form != "scalar":
                last = max([b for _, b in ep] + [0])
                longer, _ = _iset_arg(nap, form, units, list(ep) + [(last + 3 * 10**9, last + 6 * 10**9)], rng)
                if longer is not None and len(longer) == len(ep) + 1:
                    o, fname = longer[:len(ep)], fname + "+sliced"
            elif r < 0.24 and tmpdir is not None:
                path = os.path.join(tmpdir, "ep.npz")
                o.save(path)
                o, fname = nap.load_file(path), fname + "+saveload"
        except Exception:
            pass            # the extra operation is not this property's: keep the set as built
        return o, fname, units
    return _iset(nap, ep), "arrays", "s"


class _Lazy:
    """a minimal lazily-loaded array-like (what h5py / zarr datasets look like): handed over with load_array=False"""

    def __init__(self, a):
        self._a, self.shape, self.dtype, self.ndim = a, a.shape, a.dtype, a.ndim

    def __getitem__(self, k):
        return self._a[k]

    def __len__(self):
        return len(self._a)

    def __iter__(self):
        return iter(self._a)


def _vals(x):
    """the data of x as an ndarray (lazily loaded data is read)"""
    v = x.values
    return v if isinstance(v, np.ndarray) else np.asarray(v[:])


def _ivals(iset):
    return [(C.to_ns(a), C.to_ns(b)) for a, b in iset.values]


def _same(a, b):
    """same dtype, same shape, same entries (NaN matches NaN)"""
    a, b = np.asarray(a), np.asarray(b)
    if a.dtype != b.dtype or a.shape != b.shape:
        return False
    with np.errstate(all="ignore"):
        return bool(np.all((a == b) | ((a != a) & (b != b))))


def _data(name, n, dtype, content, shape_tail, rng):
    """the data array of an n-sample object of class `name`: dtype and content as requested, rows pairwise distinct where the dtype allows"""
    shape = (n,) + tuple(shape_tail)
    size = int(np.prod(shape))
    base = np.arange(size).reshape(shape)
    dt = np.dtype(dtype)
    if content == "all_equal":
        return np.full(shape, 1 if dt.kind == "b" else 7).astype(dt)
    if content == "zeros":
        return np.zeros(shape, dtype=dt)
    if dt.kind == "b":
        d = (base % 3 == 0)
    elif dt.kind == "f":
        d = (base + 100.5).astype(dt)
        if content == "nan_inf" and size:
            flat = d.reshape(-1)
            bad = [np.nan, np.inf, -np.inf]
            k0 = rng.randrange(4)
            for i in range(size):
                if (i + k0) % 4 < 3:
                    flat[i] = bad[(i + k0) % 4]
    else:
        d = (base % 120 + 1).astype(dt)
    if content == "strided" and n:
        big = np.zeros((2 * n,) + tuple(shape_tail), dtype=dt, order="F" if len(shape) > 1 else "C")
        big[::2] = d
        big[1::2] = d[::-1]
        return big[::2]                 # a non-contiguous view that shares memory with `big`
    return d


def _construct(nap, name, targ, d, units="s", sup=None, style="kw", cols=None, meta=None, pandas_obj=None):
    """build an object of class `name`; `style` = how the public parameters are passed"""
    cls = getattr(nap, name)
    if isinstance(d, _Lazy):
        if name == "TsdFrame":
            return cls(targ, d, units, sup, cols, False, meta) if style == "positional" else \
                cls(targ, d, time_units=units, time_support=sup, columns=cols, load_array=False, metadata=meta)
        return cls(targ, d, units, sup, False) if style == "positional" else cls(targ, d, time_units=units, time_support=sup, load_array=False)
    if pandas_obj is not None:              # Tsd(pd.Series) / TsdFrame(pd.DataFrame): time and data in one pandas object
        kw = {"time_units": units, "time_support": sup}
        if name == "TsdFrame" and meta is not None:
            kw["metadata"] = meta
        if style == "positional":
            return cls(pandas_obj, None, units, sup) if name == "Tsd" else cls(pandas_obj, None, units, sup, None, True, meta)
        return cls(pandas_obj, **kw)
    if style == "positional":
        if name == "Ts":
            return cls(targ, units, sup)
        if name == "TsdFrame":
            return cls(targ, d, units, sup, cols, True, meta)
        return cls(targ, d, units, sup, True)
    kw = {}
    if units != "s" or style != "kw":
        kw["time_units"] = units
    if sup is not None or style != "kw":    # time_support=None spelt out = the documented default
        kw["time_support"] = sup
    if name == "TsdFrame":
        if cols is not None or style == "all_kw":
            kw["columns"] = cols
        if meta is not None or style == "all_kw":
            kw["metadata"] = meta
    if style == "all_kw":
        if name == "Ts":
            return cls(t=targ, **kw)
        return cls(d=d, t=targ, load_array=False, **kw)
    return cls(targ, **kw) if name == "Ts" else cls(targ, d, **kw)


def _labels(x):
    """column labels and metadata of a TsdFrame as plain comparable data (None for the other classes)"""
    if not hasattr(x, "columns"):
        return None
    md = x.metadata
    return ([(type(c).__name__, c) for c in x.columns], str(x.columns.dtype), list(md.columns), [list(md.index)] +
            [[repr(v) for v in md[c]] for c in md.columns])


def _snapshot(x):
    """everything the statement speaks about, read off the live object x"""
    return {"cls": type(x).__name__, "t": _ticks(x.t), "v": (np.array(_vals(x), copy=True) if hasattr(x, "values") else None),
            "sup": _sup(x), "labels": _labels(x)}


def _check(x0, r, ep):
    """r = (object with snapshot x0).restrict(ep): the clauses of the statement, brute force. Returns the failing part or None."""
    keep = [i for i, tk in enumerate(x0["t"]) if G.mem(tk, ep)]
    if type(r).__name__ != x0["cls"]:
        return "class"
    if _ticks(r.t) != [x0["t"][i] for i in keep]:
        return "samples"
    if x0["v"] is not None and not _same(_vals(r), x0["v"][keep]):
        return "rows"
    if _sup(r) != (list(ep) if keep else []):
        return "support"
    if _labels(r) != x0["labels"]:
        return "labels"
    return None


def _history(nap, name, o, h, ts, epo2, tmpdir):
    """x = the object the receiver becomes after one more public operation (None: not applicable to this object)"""
    n = len(ts)
    if h == "none":
        return o
    if h == "own_support":      # restricted by its own live time_support first
        return o.restrict(o.time_support)
    if h == "restrict_ep2":
        return o.restrict(epo2)
    if h == "copy":
        return o.copy()
    if h == "slice":
        return o[1:] if n else None
    if h == "step":
        return o[::2] if n else None
    if h == "mask":
        return o[np.array([i % 3 != 1 for i in range(n)])] if n else None
    if h == "intidx":
        return o[np.array([i for i in range(n) if i % 3 != 1], dtype=np.int64)] if n else None
    if h == "get":
        if n < 2:
            return None
        t = G.arr(ts)
        return o.get(float(t[n // 4]), float(t[-1 - n // 4]))
    if h == "fillna":
        return o.fillna(3) if name == "Ts" else None
    if name == "Ts":
        return None
    if h == "arith":
        return o * 2
    if h == "numpy":
        return np.add(o, 1)
    if h == "dropna":
        return o.dropna() if o.values.dtype.kind == "f" and n else None
    if h == "saveload":
        import os
        p = os.path.join(tmpdir, "x.npz")
        o.save(p)
        return nap.load_file(p)
    if h == "columns":
        if name != "TsdFrame" or o.shape[1] < 2 or len(set(o.columns)) != o.shape[1]:
            return None
        return o.loc[[o.columns[-1], o.columns[0]]]
    if h == "component":
        if name == "Tsd" or n == 0 or o.values.shape[1] == 0:
            return None
        return o[:, 0]
    raise ValueError(h)


def forms_case(nap, ts0, ep0, ep20, rng, res, tmpdir, counter, ctx=None):
    """One receiver class, every argument form sampled: returns a violation dict or None."""
    import pandas as pd
    # axis 5: placement (whole-ms / whole-s lattices, +-1e5 s offsets)
    scale, off = rng.choice(PLACEMENTS)
    ts = [x * scale + off for x in ts0]
    ep = [(a * scale + off, b * scale + off) for a, b in ep0]
    ep2 = [(a * scale + off, b * scale + off) for a, b in ep20]
    if ts and rng.random() < 0.08:
        ts = [ts[rng.randrange(len(ts))]]           # more one-sample series (the scalar forms of t need them)
    n = len(ts)
    name = CLASSES[counter % 4]
    # axis 2/4: form and unit of the timestamps
    forms = [f for f in T_FORMS if not (f == "pandas" and name in ("Ts", "TsdTensor"))] + (["pd.Series"] if name in ("Ts", "TsdTensor") else [])
    if n == 1 and rng.random() < 0.5:
        forms = ["scalar"]
    pandas_form = False
    tform = rng.choice(forms)
    if tform == "pandas":
        pandas_form, units = True, rng.choice(["s", "ms", "us"])
        targ, tname = _unit_floats(ts, units), "pandas"
    else:
        targ, tname, units = _pick_time_arg(nap, ts, rng, [f for f in forms if f != "pandas"], allow_units=True)
    # axis 1: dtype and content of the data; axis 7: labels / shapes
    dtype, content = rng.choice(DATA_DTYPES), rng.choice(CONTENTS)
    if content == "nan_inf":
        dtype = rng.choice(["float64", "float32"])
    if content == "time_alias" and name == "Tsd" and not pandas_form and type(targ) is not np.ndarray:
        targ, tname = _unit_floats(ts, units), "ndarray"
    cols, meta, tail = None, None, ()
    if name == "TsdFrame":
        cols = rng.choice(COLUMN_FORMS)
        ncol = 3 if cols is None else len(cols)
        tail = () if (cols == ["x"] and not pandas_form and rng.random() < 0.5) else (ncol,)     # a 1-D d becomes one column
        mform = rng.choice(["dict", "frame", None])
        if ncol and len(set(cols or [0, 1, 2])) == ncol and mform:
            meta = {"m": [7 + i for i in range(ncol)], "lab": ["u%d" % i for i in range(ncol)]}
            if mform == "frame":
                meta = pd.DataFrame(meta, index=(cols if cols is not None else [0, 1, 2]))
    elif name == "TsdTensor":
        tail = rng.choice(TENSOR_SHAPES)
    d = None
    if name != "Ts":
        if content == "time_alias":
            if name == "Tsd" and type(targ) is np.ndarray and targ.ndim == 1 and not pandas_form:
                d, dtype = targ, str(targ.dtype)        # the data IS the time argument (shared memory)
            else:
                content = "index"
        if d is None:
            if content == "py_list":
                dtype = rng.choice(["float64", "int64", "bool"])
            d = _data(name, n, dtype, "index" if content in ("lazy", "py_list") else content, tail, rng)
    d0 = None if d is None else np.array(d, copy=True)
    if d0 is not None and name == "TsdFrame" and d0.ndim == 1:
        d0 = d0[:, None]
    darg = d
    if content == "lazy":
        if d is None or pandas_form or d.ndim != len(d0.shape):
            content = "index"
        else:
            darg = _Lazy(d)
    if content == "py_list":        # the data as a (nested) Python list: numpy's default dtype for it must be the one we meant
        if d is None or pandas_form or d.size == 0 or np.array(d.tolist()).dtype != d.dtype:
            content = "index"
        else:
            darg = d.tolist()
    pobj = None
    if pandas_form:
        pobj = pd.Series(d, index=targ) if name == "Tsd" else pd.DataFrame(d, index=targ, columns=cols)
        d0 = np.array(pobj.values, copy=True)       # the rows handed over are the pandas object's (a frame without columns has no dtype of its own)
    style = rng.choice(["kw", "positional", "all_kw"])
    if content == "py_list" and style == "all_kw":
        style = "kw"            # all_kw passes load_array=False, which is documented to need an array-like: a list is not one
    rstyle = rng.choice(["positional", "keyword"])
    hist = rng.choice(HISTORIES)
    epo, epname, epunits = _pick_iset(nap, ep, rng, tmpdir)
    epo2, ep2name, _ = _pick_iset(nap, ep2, rng, tmpdir)
    trig = {"forms": True, "cls": name, "t_form": tname, "units": units, "ep_form": epname, "ep_units": epunits, "dtype": str(dtype),
            "content": content, "history": hist, "ctor_style": style, "restrict_style": rstyle, "placement": "x%d%+d" % (scale, off),
            "empty_series": n == 0, "sample_on_endpoint": _on_endpoint(ts, ep)}
    inp = {"ts": ts, "ep": ep, "ep2": ep2, "forms": dict(trig, columns=cols, shape_tail=list(tail), ep2_form=ep2name,
                                                         metadata=(None if meta is None else type(meta).__name__))}
    if ctx is not None:
        ctx.update(inp)

    def viol(op, part, what, **more):
        k = {"op": op, "part": part}
        k.update(trig)
        return dict({"key": k, "what": what, "input": inp}, **more)

    if res is not None:
        for a, b in (("cls", name), ("t_form", tname), ("t_units", units), ("ep_form", epname.split("+")[0]), ("ep_derived", (epname.split("+") + ["no"])[1]),
                     ("ep_units", epunits), ("ctor_style", style), ("restrict_style", rstyle), ("placement", trig["placement"])):
            res.count("forms_%s=%s" % (a, b))
        if name != "Ts":
            res.count("forms_dtype=%s" % dtype)
            res.count("forms_content=%s" % content)
        if name == "TsdFrame":
            res.count("forms_columns=%s" % (cols,))
            res.count("forms_metadata=%s" % (None if meta is None else type(meta).__name__))
        if name == "TsdTensor":
            res.count("forms_tensor_shape=%s" % (tail,))
        res.count("forms_n_samples=%s" % ("0" if n == 0 else "1" if n == 1 else "all_equal" if ts[0] == ts[-1] else "many"))
        res.count("forms_n_intervals=%s" % min(len(ep), 3))

    def restrict(x, e):
        return x.restrict(e) if rstyle == "positional" else x.restrict(iset=e)

    def build(sup):
        return _construct(nap, name, targ, darg, units, sup, style, cols, meta, pobj)

    # the IntervalSets mean the intended intervals whatever form they were given in (else the oracle below would be about another set)
    if _ivals(epo) != list(ep) or _ivals(epo2) != list(ep2):
        return viol("IntervalSet", "form", "an IntervalSet built from this argument form does not hold the intended intervals",
                    impl=[_ivals(epo), _ivals(epo2)], expected=[list(ep), list(ep2)])
    ep_before = (np.array(epo.values, copy=True), list(epo.metadata.columns))
    o = build(None)
    exp_i = oracle_idx(ts, ep)
    exp_t = [ts[i] for i in exp_i]
    o_snap = _snapshot(o)
    # receiver holds the intended instants and rows (so that "its own data row" below is about the rows we gave)
    if o_snap["t"] != list(ts) or (d0 is not None and not _same(o_snap["v"], d0)):
        return viol(name, "construct", "constructing in this argument form does not give the intended timestamps / rows / dtype",
                    impl=o_snap["t"], expected=list(ts))
    # constructor(time_support=ep) = construct, then restrict
    c = build(epo)
    c2 = restrict(build(None), epo)
    for lab, obj in (("constructor with time_support", c), ("construct-then-restrict", c2)):
        if _ticks(obj.t) != exp_t:
            return viol(name + "(time_support=)", "samples", "constructor with time_support / construct-then-restrict: %s selects the wrong samples" % lab,
                        impl=_ticks(obj.t), expected=exp_t)
        if d0 is not None and not _same(_vals(obj), d0[exp_i]):
            return viol(name + "(time_support=)", "rows", "constructor with time_support / construct-then-restrict: %s does not keep each sample's own row (values or dtype)" % lab,
                        impl=[str(_vals(obj).dtype), _vals(obj).tolist()], expected=[str(d0.dtype), d0[exp_i].tolist()])
    if _sup(c) != (list(ep) if n else []) or _labels(c) != _labels(c2):
        return viol(name + "(time_support=)", "support", "constructor with time_support: wrong time support or labels", impl=_sup(c))
    # multi-step history: x is what the receiver became
    x = o
    if hist != "none":
        try:
            x = _history(nap, name, o, hist, ts, epo2, tmpdir)
        except Exception:
            x = None
        if x is None or not hasattr(x, "restrict") or not hasattr(x, "time_support"):
            x, hist = o, "none"
            trig["history"] = "none"
    if res is not None:
        res.count("forms_history=%s" % hist)
    x0 = _snapshot(x)
    r = restrict(x, epo)
    part = _check(x0, r, ep)
    if part:
        return viol(x0["cls"] + ".restrict", part, "restrict: the %s clause of the statement fails" % part, impl=_ticks(r.t),
                    expected=[tk for tk in x0["t"] if G.mem(tk, ep)], receiver=x0["t"])
    # the same live receiver and argument used again: nothing was modified, the answer is the same
    x1 = _snapshot(x)
    if x1["t"] != x0["t"] or x1["sup"] != x0["sup"] or x1["labels"] != x0["labels"] or (x0["v"] is not None and not _same(x1["v"], x0["v"])) \
            or not np.array_equal(epo.values, ep_before[0]) or list(epo.metadata.columns) != ep_before[1] \
            or (d0 is not None and not _same(np.asarray(d if pobj is None else pobj.values).reshape(d0.shape), d0)):
        return viol(x0["cls"] + ".restrict", "receiver_modified", "restrict modified its receiver, its argument or the caller's data array")
    part = _check(x0, restrict(x, epo), ep)
    if part:
        return viol(x0["cls"] + ".restrict", "second_use_" + part, "the same live object restricted a second time gives another answer")
    # idempotence
    r0 = _snapshot(r)
    rr = restrict(r, epo)
    if _check(r0, rr, ep) or _ticks(rr.t) != r0["t"] or _sup(rr) != r0["sup"]:
        return viol(x0["cls"] + ".restrict", "idempotence", "restricting twice by ep changes the samples, the rows, the labels or the support")
    # composition
    keep2 = [i for i, tk in enumerate(x0["t"]) if G.mem(tk, ep) and G.mem(tk, ep2)]
    r2 = restrict(r, epo2)
    if _check(r0, r2, ep2) or _ticks(r2.t) != [x0["t"][i] for i in keep2] or (x0["v"] is not None and not _same(_vals(r2), x0["v"][keep2])):
        return viol(x0["cls"] + ".restrict", "compose", "restrict(a).restrict(b) is not the samples (rows, support) inside both a and b",
                    impl=_ticks(r2.t), expected=[x0["t"][i] for i in keep2])
    endpoints = set(p for iv in list(ep) + list(ep2) for p in iv)
    ri = restrict(x, epo.intersect(epo2))
    rit = _ticks(ri.t)
    got = [(tk, (None if x0["v"] is None else repr(np.asarray(_vals(ri)[j]).tolist()))) for j, tk in enumerate(rit) if _far(tk, endpoints)]
    want = [(x0["t"][i], (None if x0["v"] is None else repr(np.asarray(x0["v"][i]).tolist()))) for i in keep2 if _far(x0["t"][i], endpoints)]
    if got != want:
        return viol(x0["cls"] + ".restrict", "compose_intersect",
                    "restrict(a).restrict(b) and restrict(a.intersect(b)) differ on a sample farther than 1us from every endpoint",
                    impl=[g[0] for g in got], expected=[w[0] for w in want])
    return None


KEY_FORMS = ["ints_unsorted", "str_float", "list", "np_int", "multi_digit"]
MEMBER_KINDS = ["Ts", "Tsd", "Tsd", "raw_array", "raw_list", "empty"]


def group_forms(nap, ts0, ep0, ep20, rng, res, tmpdir, ctx=None):
    """TsGroup.restrict member-wise on every form of group: keys, member kinds (Ts, Tsd of any dtype, raw arrays/lists in s/ms/us, an empty
    member, no member at all), support given / default / bypass_check, metadata forms, positional / keyword calls, one more operation before."""
    import pandas as pd
    scale, off = rng.choice(PLACEMENTS)
    ts = [x * scale + off for x in ts0]
    ep = [(a * scale + off, b * scale + off) for a, b in ep0]
    ep2 = [(a * scale + off, b * scale + off) for a, b in ep20]
    n = len(ts)
    units = rng.choice(["s", "ms", "us"])
    kform = rng.choice(KEY_FORMS)
    nmem = rng.choice([0, 1, 2, 3, 3, 3])
    keysets = {"ints_unsorted": [3, 1, 2], "str_float": ["12", 7.0, 0], "list": [0, 1, 2], "np_int": [np.int64(40), np.int32(5), np.uint8(200)],
               "multi_digit": ["1000", 10, "100"]}
    keys = keysets[kform][:nmem]
    subs = [ts, ts[:max(1, n // 2)] if n else [], ts[::2]]
    members, inputs, kinds = {}, {}, []
    for j, k in enumerate(keys):
        kind = rng.choice(MEMBER_KINDS)
        mt = [] if kind == "empty" else list(subs[j])
        kinds.append(kind)
        if kind == "Tsd":
            dt = rng.choice(DATA_DTYPES)
            dd = _data("Tsd", len(mt), dt, rng.choice(["index", "nan_inf"]) if np.dtype(dt).kind == "f" else "index", (), rng)
            members[k] = nap.Tsd(G.arr(mt), dd)
            inputs[int(k)] = ("Tsd", mt, np.array(dd, copy=True))
        elif kind == "raw_array":
            members[k] = _unit_floats(mt, units)
            inputs[int(k)] = ("Ts", mt, None)
        elif kind == "raw_list":
            members[k] = [float(v) for v in _unit_floats(mt, units)]
            inputs[int(k)] = ("Ts", mt, None)
        else:
            members[k] = nap.Ts(G.arr(mt))
            inputs[int(k)] = ("Ts", mt, None)
    data = list(members.values()) if kform == "list" else members
    pts = list(ts) + [p for iv in list(ep) + list(ep2) for p in iv] + [0]
    lo, hi = min(pts) - 10**9, max(pts) + 10**9
    supports = ["wide", "ep2", "complement_of_ep"]
    has_span = any(m[1] and m[1][0] < m[1][-1] for m in inputs.values())
    if has_span:
        supports.append("default")      # the union of the members' default [first, last] supports (non-empty)
    sform = rng.choice(supports)
    if sform == "complement_of_ep" and not ep:
        sform = "wide"
    if sform == "wide":
        sup = [(lo, hi)]
    elif sform == "ep2":
        sup = list(ep2)
    elif sform == "complement_of_ep":
        b = [lo] + [p for iv in ep for p in iv] + [hi]
        sup = list(zip(b[0::2], b[1::2]))
    else:
        sup = None
    bypass = rng.random() < 0.3
    mform = rng.choice(["dict", "frame", "kwargs", None]) if nmem else None
    gstyle = rng.choice(["kw", "positional"])
    rstyle = rng.choice(["positional", "keyword"])
    hist = rng.choice(["none", "none", "subset", "boolmask", "saveload", "restrict_ep2"])
    epo, epname, epunits = _pick_iset(nap, ep, rng, tmpdir)
    supo = None
    if sup is not None:
        supo, _, _ = _pick_iset(nap, sup, rng, tmpdir)
    int_keys = sorted(int(k) for k in keys)
    labs = ["L%d" % i for i in range(nmem)]
    kwargs, meta = {}, None
    if mform == "dict":
        meta = {"lab": labs, "num": list(range(nmem))}
    elif mform == "frame":
        meta = pd.DataFrame({"lab": labs, "num": list(range(nmem))}, index=int_keys)
    elif mform == "kwargs":
        kwargs = {"lab": np.array(labs)}
    trig = {"forms": True, "keys": kform, "n_members": nmem, "member_kinds": "+".join(sorted(set(kinds))), "units": units, "group_support": sform,
            "bypass_check": bypass, "metadata": mform, "ctor_style": gstyle, "restrict_style": rstyle, "history": hist, "ep_form": epname,
            "ep_units": epunits, "placement": "x%d%+d" % (scale, off), "empty_series": n == 0}
    inp = {"ts": ts, "ep": ep, "ep2": ep2, "forms": dict(trig, keys=[repr(k) for k in keys], member_kinds=kinds, support=sup)}
    if ctx is not None:
        ctx.update(inp)

    def viol(part, what, **more):
        k = {"op": "TsGroup.restrict", "part": part}
        k.update(trig)
        return dict({"key": k, "what": what, "input": inp}, **more)

    if res is not None:
        for a in ("keys", "n_members", "units", "group_support", "bypass_check", "metadata", "ctor_style", "restrict_style"):
            res.count("gforms_%s=%s" % (a, trig[a]))
        res.count("gforms_ep_form=%s" % epname.split("+")[0])
        res.count("gforms_ep_derived=%s" % (epname.split("+") + ["no"])[1])
        for kd in kinds:
            res.count("gforms_member=%s" % kd)
    if _ivals(epo) != list(ep) or (supo is not None and _ivals(supo) != list(sup)):
        return viol("form", "an IntervalSet built from this argument form does not hold the intended intervals")
    if gstyle == "positional" and not kwargs:
        g = nap.TsGroup(data, supo, units, bypass, meta)
    else:
        g = nap.TsGroup(data, time_support=supo, time_units=units, bypass_check=bypass, metadata=meta, **kwargs)
    if list(g.keys()) != int_keys:
        return viol("keys", "the group does not hold the keys it was given", impl=list(g.keys()), expected=int_keys)
    # constructor clause, member-wise: TsGroup(data, time_support=sup)[k] = the samples of data[k] inside sup (rows intact).
    # (bypass_check=True promises nothing about members that were already objects: not checked then)
    for k in int_keys:
        cls, mt, dd = inputs[k]
        raw = dd is None and not isinstance(members[[q for q in keys if int(q) == k][0]], nap.Ts)
        if sup is not None and (raw or not bypass):
            keep = [i for i, tk in enumerate(mt) if G.mem(tk, sup)]
        elif sup is None and not bypass and all(m[1] and m[1][0] < m[1][-1] for m in inputs.values()):
            keep = list(range(len(mt)))     # default support = union of the members' [first, last]: nothing to drop
        else:
            continue
        if type(g[k]).__name__ != cls or _ticks(g[k].t) != [mt[i] for i in keep] or (dd is not None and not _same(g[k].values, dd[keep])):
            return viol("construct", "TsGroup(data, time_support=sup)[k] is not the samples of data[k] inside sup (time_units=%s)" % units,
                        member=k, impl=_ticks(g[k].t), expected=[mt[i] for i in keep])
    x = g
    if hist != "none" and nmem:
        try:
            if hist == "subset":
                x = g[[int_keys[-1], int_keys[0]]] if nmem > 1 else g[[int_keys[0]]]
            elif hist == "boolmask":
                x = g[np.array([i % 2 == 0 for i in range(nmem)])]
            elif hist == "restrict_ep2":
                x = g.restrict(_iset(nap, ep2))
            elif hist == "saveload":
                import os
                p = os.path.join(tmpdir, "g.npz")
                g.save(p)
                x = nap.load_file(p)
        except Exception:
            x, hist = g, "none"
        if not isinstance(x, nap.TsGroup):
            x, hist = g, "none"
    else:
        hist = "none"
    trig["history"] = hist
    if res is not None:
        res.count("gforms_history=%s" % hist)
    xkeys = list(x.keys())
    before = {k: _snapshot(x[k]) for k in xkeys}
    meta_before = x.metadata.drop(columns="rate")
    for use in ("first", "second"):         # the same live group and argument twice
        rg = x.restrict(epo) if rstyle == "positional" else x.restrict(ep=epo)
        if not isinstance(rg, nap.TsGroup) or list(rg.keys()) != xkeys:
            return viol("keys", "keys changed (%s use)" % use, impl=list(rg.keys()), expected=xkeys)
        md = rg.metadata.drop(columns="rate")
        if list(md.columns) != list(meta_before.columns) or list(md.index) != list(meta_before.index) or \
                any([repr(v) for v in md[c]] != [repr(v) for v in meta_before[c]] for c in md.columns):
            return viol("metadata", "group metadata changed (%s use)" % use)
        survivors = 0
        for k in xkeys:
            part = _check(before[k], rg[k], ep)
            survivors += len(rg[k].t)
            if part:
                return viol({"support": "member_support"}.get(part, part), "group.restrict(ep)[k]: the %s clause fails (%s use of the live group)" % (part, use),
                            member=k, member_samples=before[k]["t"], impl=_ticks(rg[k].t), expected=[tk for tk in before[k]["t"] if G.mem(tk, ep)])
        if _sup(rg) != list(ep) and (survivors or _sup(rg) != []):
            return viol("support", "group support is not ep", impl=_sup(rg))
        if any(_snapshot(x[k])["t"] != before[k]["t"] or _sup(x[k]) != before[k]["sup"] for k in xkeys):
            return viol("receiver_modified", "restrict modified the members of its receiver")
    return None


def run_forms(nap, which, ts, ep, ep2, fseed, counter, res, tmpdir):
    """one widened case (`which` = forms | group_forms), every choice drawn from random.Random(fseed); the violation carries what replay needs"""
    ctx = {}
    try:
        if which == "forms":
            fv = forms_case(nap, ts, ep, ep2, random.Random(fseed), res, tmpdir, counter, ctx)
        else:
            fv = group_forms(nap, ts, ep, ep2, random.Random(fseed), res, tmpdir, ctx)
    except Exception as ex:
        fk = {"op": which, "part": "exception", "exception": type(ex).__name__, "forms": True}
        fk.update({a: b for a, b in ctx.get("forms", {}).items() if isinstance(b, (str, bool, int)) or b is None})
        fv = {"key": fk, "what": "public restrict/constructor raised %s on a widened argument form: %s" % (type(ex).__name__, str(ex)[:160]),
              "input": dict(ctx) or {"ts": ts, "ep": ep, "ep2": ep2}}
    if fv:
        fv["input"] = dict(fv["input"], forms_replay={"which": which, "ts0": ts, "ep0": ep, "ep20": ep2, "fseed": fseed, "counter": counter})
    return fv


def misuse_cases(nap, res):
    """Arguments the documented signatures do not accept: the statement does not say what happens, so only
    'raises a clean Python exception, or satisfies the statement' is required."""
    t = G.arr([0, 1000, 2000, 3000])
    ep = [(1000, 2000)]
    objs = {"Ts": nap.Ts(t), "Tsd": nap.Tsd(t, np.arange(4)), "TsdFrame": nap.TsdFrame(t, np.arange(8).reshape(4, 2)),
            "TsdTensor": nap.TsdTensor(t, np.arange(16).reshape(4, 2, 2)), "TsGroup": nap.TsGroup({1: nap.Ts(t), 2: nap.Ts(t[:2])})}
    bad = {"list_of_pairs": [[1e-6, 2e-6]], "ndarray": np.array([[1e-6, 2e-6]]), "tuple": (1e-6, 2e-6), "None": None, "Ts": nap.Ts(t), "scalar": 1e-6}
    out = []
    for name, o in objs.items():
        for bname, b in bad.items():
            res.count("misuse_restrict_arg=%s" % bname)
            try:
                r = o.restrict(b)
            except Exception:
                continue
            pairs = [(o[k], r[k]) for k in o.keys()] if name == "TsGroup" else [(o, r)]
            if any(_ticks(b_.t) != [x for x in _ticks(a_.t) if G.mem(x, ep)] or _sup(b_) != ep for a_, b_ in pairs):
                out.append({"key": {"op": name + ".restrict", "part": "misuse", "arg": bname},
                            "what": "restrict accepted a non-IntervalSet argument and returned something that is not the restriction", "input": {"arg": bname}})
    for name in CLASSES:            # a 0-d array as t
        res.count("misuse_t=0d_array")
        try:
            o = _construct(nap, name, np.array(1e-6), None if name == "Ts" else np.zeros((1,) + {"Tsd": (), "TsdFrame": (2,), "TsdTensor": (2, 2)}[name]),
                           sup=_iset(nap, ep))
        except Exception:
            continue
        if _ticks(o.t) != [1000] or _sup(o) != ep:
            out.append({"key": {"op": name + "(time_support=)", "part": "misuse", "arg": "0d_t"}, "what": "0-d t accepted but the object is not the single sample",
                        "input": {"arg": "0d"}})
    return out


def search(res, seed):
    r2 = C.Result()
    run(r2, "thorough", seed)
    return r2.violations[0] if r2.violations else None


def replay(payload):
    nap, J = _nap()
    v = payload.get("violation") or {}
    inp = v.get("input", {})
    ts, ep = inp.get("ts", []), [tuple(x) for x in inp.get("ep", [])]
    ep2 = [tuple(x) for x in inp["ep2"]] if "ep2" in inp else None
    if "forms_replay" in inp:       # a widened-form case: re-drawn from its own seed
        fr = inp["forms_replay"]
        warnings.simplefilter("ignore")
        os.makedirs(C.CACHE, exist_ok=True)
        tmpdir = tempfile.mkdtemp(prefix="c03-", dir=C.CACHE)
        fv = run_forms(nap, fr["which"], fr["ts0"], [tuple(x) for x in fr["ep0"]], [tuple(x) for x in fr["ep20"]], fr["fseed"], fr["counter"], None, tmpdir)
        shutil.rmtree(tmpdir, ignore_errors=True)
        print("widened forms:", None if not fv else {"key": fv["key"], "what": fv["what"], "impl": fv.get("impl"), "expected": fv.get("expected")})
        return 1 if fv else 0
    t, st, en = G.arr(ts), G.arr([s for s, _ in ep]), G.arr([e for _, e in ep])
    idx = list(map(int, J.jitrestrict(t, st, en)))
    print("input ts=%s ep=%s" % (ts, ep))
    print("implementation idx:", idx)
    print("expected idx      :", oracle_idx(ts, ep))
    warnings.simplefilter("ignore")
    pv = public_case(nap, ts, ep, ep2)
    print("public API:", pv)
    return 1 if idx != oracle_idx(ts, ep) or pv else 0

# --- Glue layer (DESIGN.md 10.11): the Python between the API and the kernels, tied by proof in Properties/C03c.v; this is the
# executable tie of its trusted parts (translator tools/py2glue.py + primitive semantics Glue/Interp.v): the TRANSLATED term run by the
# extracted evaluator (ocaml/gluedriver) against the REAL routine of pynapple on the same inputs (harness/gluecmp.py).
import gluecmp  # noqa: E402

DRIVERS = list(globals().get("DRIVERS", ["driver"])) + ["gluedriver"]
GLUE_ROUTINES = ['IntervalSet.in_interval', '_restrict', '_Base.restrict']
_run_without_glue = run


def run(res, tier, seed):
    _run_without_glue(res, tier, seed)
    gluecmp.check(res, GLUE_ROUTINES, tier, seed)
    res.rule += (" | glue: for each of %s the translated Glue.Lang term (coq/Gen/Glue.v) is evaluated by the extracted Glue/Interp.v and compared with the "
                 "real pynapple routine on canonical sets of a dyadic lattice (incl. negative times, empty, touching, duplicates, unsorted/improper "
                 "constructor input, thresholds equal to a length or gap); exceptions must match the model's error kind" % ", ".join(GLUE_ROUTINES))
