"""C03 restrict keeps exactly the samples inside the closed intervals, rows intact."""
import random
import warnings

import numpy as np

import common as C
import gen as G

LEVEL = "proof"
TRUSTED = ["model: coq/Model/Restrict.v (restrict_scan); theorems in coq/Proofs/RestrictProofs.v"]
ASSUMPTIONS = ["timestamps sorted and IntervalSet canonical at kernel entry (guaranteed by the constructors: C01, C04)",
               "kernel cases are realised on a 1 us lattice; comparison-only kernel, so behaviour depends on order type only"]


def _nap():
    import pynapple as nap
    from pynapple.core import _jitted_functions as J
    return nap, J


def oracle_idx(ts, ep):
    return [i for i, t in enumerate(ts) if G.mem(t, ep)]


def oracle_cnt(ts, ep):
    return [sum(1 for t in ts if s <= t <= e) for s, e in ep]


def kernel_cases(tier, seed):
    N = 7 if tier == "quick" else 9
    pts = G.lattice(N)
    eps = G.canonical_isets(pts, 3 if tier == "quick" else 4)
    tss = G.sorted_multisets(pts, 3 if tier == "quick" else 4)
    for ep in eps:
        for ts in tss:
            yield ts, ep
    rng = random.Random(seed * 7919 + 3)
    for _ in range(300 if tier == "quick" else 5000):
        ep = G.rand_canonical_iset(rng, 8)
        ts = G.rand_sorted_ts(rng, 30, ep)
        yield ts, ep


def run(res, tier, seed):
    nap, J = _nap()
    warnings.simplefilter("ignore")
    res.rule = ("kernel: ALL (canonical IntervalSet with <=3(4) intervals, sorted multiset of <=3(4) samples) on a 7(9)-point 1us lattice "
                "[complete: every order type incl. samples on starts/ends, duplicates, empty series, empty set, set before/after/between data] "
                "+ seeded random large cases; public: Ts/Tsd/TsdFrame/TsdTensor/TsGroup.restrict and constructor(time_support=) on a subsample. "
                "non-trivial = at least one sample and one interval; distinct = distinct (ts, ep)")
    res.exhaustive = True
    cases = list(kernel_cases(tier, seed))
    # two thirds of the cases are translated to straddle / lie below t = 0 (zero-initialised buffers: sign matters)
    offs = [0, -3000, -10**7]
    cases = [([t + offs[n % 3] for t in ts], [(a + offs[n % 3], b + offs[n % 3]) for a, b in ep]) for n, (ts, ep) in enumerate(cases)]
    lines = ["restrict\t%s\t%s" % (C.fmt_ints(ts), C.fmt_iset(ep)) for ts, ep in cases]
    model = C.run_model(lines)
    pyf_every = 5 if tier == "quick" else 11
    for n, ((ts, ep), mout) in enumerate(zip(cases, model)):
        t = G.arr(ts)
        st = G.arr([s for s, _ in ep])
        en = G.arr([e for _, e in ep])
        idx = J.jitrestrict(t, st, en)
        idx2, cnt = J.jitrestrict_with_count(t, st, en)
        impl = (list(map(int, idx)), list(map(int, cnt)))
        key = (tuple(ts), tuple(ep))
        res.case(key, nontrivial=bool(ts) and bool(ep))
        res.count("n_samples=%d" % min(len(ts), 5))
        res.count("n_intervals=%d" % min(len(ep), 5))
        if any(G.mem(x, [(s, s)]) or G.mem(x, [(e, e)]) for x in ts for s, e in ep):
            res.count("sample_on_endpoint")
        mi, mc = mout.split("|")
        mod = ([int(x) for x in mi.split()], [int(x) for x in mc.split()])
        exp = (oracle_idx(ts, ep), oracle_cnt(ts, ep))
        inp = {"op": "jitrestrict", "ts": ts, "ep": ep}
        if list(map(int, idx2)) != impl[0]:
            res.violations.append({"key": {"op": "jitrestrict_with_count"}, "what": "jitrestrict and jitrestrict_with_count select different samples",
                                   "input": inp, "impl": [impl[0], list(map(int, idx2))]})
        if impl != exp:
            res.violations.append({"key": {"op": "jitrestrict"}, "what": "restrict kernel does not select exactly the samples inside the closed intervals",
                                   "input": inp, "impl": impl, "expected": exp})
        if mod != impl:
            res.disagreements.append({"input": inp, "impl": impl, "model": mod})
        if n % pyf_every == 0:
            try:
                pi = list(map(int, J.jitrestrict.py_func(t, st, en)))
                pi2, pc = J.jitrestrict_with_count.py_func(t, st, en)
                pyf = (pi, list(map(int, pc)))
                if list(map(int, pi2)) != pi:
                    pyf = ("mismatch", pi, list(map(int, pi2)))
            except Exception as ex:  # IndexError = out-of-bounds read (C15)
                pyf = "EXC " + type(ex).__name__
            res.count("py_func_cases")
            if pyf != impl:
                res.violations.append({"key": {"op": "jitrestrict.py_func"}, "what": "interpreted and compiled kernel differ",
                                       "input": inp, "impl": impl, "py_func": pyf})
        if n < 3 or (n % 9973 == 0):
            res.sample({"ts": ts, "ep": ep, "idx": impl[0], "count": impl[1]})

    # public API
    rng = random.Random(seed + 17)
    sub = rng.sample(cases, 12000 if tier == "thorough" else 1500)
    pub = 0
    for ts, ep in sub:
        if len(ts) < 1:
            continue
        pub += 1
        try:
            v = public_case(nap, ts, ep)
        except Exception as ex:
            v = {"key": {"op": "public", "part": "exception"}, "what": "public restrict/constructor raised %s: %s" % (type(ex).__name__, str(ex)[:120]), "input": {"ts": ts, "ep": ep}}
        res.evaluations += 1
        if v:
            res.violations.append(v)
    res.count("public_cases", pub)


def _ticks(a):
    return [C.to_ns(x) for x in np.asarray(a).ravel()]


def _sup(obj):
    return [(C.to_ns(s), C.to_ns(e)) for s, e in obj.time_support.values]


def public_case(nap, ts, ep):
    """returns a violation dict or None"""
    t = G.arr(ts)
    n = len(ts)
    epo = nap.IntervalSet(G.arr([s for s, _ in ep]), G.arr([e for _, e in ep]))
    d1 = np.arange(n) + 100
    d2 = np.stack([np.arange(n) + 100, np.arange(n) + 200, np.arange(n) + 300], axis=1)
    d3 = np.arange(n * 4).reshape(n, 2, 2) + 100
    exp_i = oracle_idx(ts, ep)
    exp_t = [ts[i] for i in exp_i]
    exp_sup = list(ep) if exp_i else []
    inp = {"ts": ts, "ep": ep}
    objs = {
        "Ts": nap.Ts(t),
        "Tsd": nap.Tsd(t, d1),
        "TsdFrame": nap.TsdFrame(t, d2, columns=["a", "b", "c"], metadata={"m": [7, 8, 9]}),
        "TsdTensor": nap.TsdTensor(t, d3),
    }
    datas = {"Tsd": d1, "TsdFrame": d2, "TsdTensor": d3}
    for name, o in objs.items():
        r = o.restrict(epo)
        if type(r) is not type(o):
            return {"key": {"op": name + ".restrict"}, "what": "class changed", "input": inp}
        if _ticks(r.t) != exp_t:
            return {"key": {"op": name + ".restrict"}, "what": "restrict returns the wrong samples", "input": inp,
                    "impl": _ticks(r.t), "expected": exp_t}
        if name != "Ts" and not np.array_equal(r.values, datas[name][exp_i]):
            return {"key": {"op": name + ".restrict"}, "what": "a sample lost its own data row", "input": inp}
        if _sup(r) != exp_sup:
            return {"key": {"op": name + ".restrict", "part": "support"}, "what": "time support of the result is not ep (or empty)",
                    "input": inp, "impl": _sup(r), "expected": exp_sup}
        if name == "TsdFrame":
            if list(r.columns) != ["a", "b", "c"] or list(r.metadata["m"]) != [7, 8, 9]:
                return {"key": {"op": "TsdFrame.restrict", "part": "labels"}, "what": "columns/metadata changed", "input": inp}
        # idempotence
        rr = r.restrict(epo)
        if _ticks(rr.t) != exp_t:
            return {"key": {"op": name + ".restrict", "part": "idempotence"}, "what": "restricting twice changes the result", "input": inp}
        # constructor with time_support = construct then restrict
        if name == "Ts":
            c = nap.Ts(t, time_support=epo)
        elif name == "TsdFrame":
            c = nap.TsdFrame(t, d2, time_support=epo, columns=["a", "b", "c"])
        else:
            c = type(o)(t, datas[name], time_support=epo)
        if _ticks(c.t) != exp_t or (name != "Ts" and not np.array_equal(c.values, datas[name][exp_i])):
            return {"key": {"op": name + "(time_support=)"}, "what": "constructor with time_support differs from construct-then-restrict", "input": inp}
        # the same through the other time units (timestamps given in ms / us, support in seconds)
        for units, f in (("ms", 1e3), ("us", 1e6)):
            tu = np.asarray(ts, dtype=np.float64) / (1e9 / f)
            if name == "Ts":
                cu = nap.Ts(tu, time_units=units, time_support=epo)
            elif name == "TsdFrame":
                cu = nap.TsdFrame(tu, d2, time_units=units, time_support=epo, columns=["a", "b", "c"])
            else:
                cu = type(o)(tu, datas[name], time_units=units, time_support=epo)
            if _ticks(cu.t) != exp_t or (name != "Ts" and not np.array_equal(cu.values, datas[name][exp_i])):
                return {"key": {"op": name + "(time_support=)", "units": units}, "what": "constructor with time_units and time_support differs from construct-then-restrict",
                        "input": inp, "impl": _ticks(cu.t), "expected": exp_t}
    # TsGroup member-wise
    wide = nap.IntervalSet(t[0] - 1.0, t[-1] + 1.0)
    g = nap.TsGroup({3: nap.Ts(t), 1: nap.Ts(t[: max(1, n // 2)])}, time_support=wide, metadata={"lab": ["x", "y"]})
    rg = g.restrict(epo)
    if list(rg.keys()) != [1, 3] or list(rg.metadata["lab"]) != list(g.metadata["lab"]):
        return {"key": {"op": "TsGroup.restrict", "part": "keys"}, "what": "keys/metadata changed", "input": inp}
    if _ticks(rg[3].t) != exp_t or _ticks(rg[1].t) != [ts[i] for i in oracle_idx(ts[: max(1, n // 2)], ep)]:
        return {"key": {"op": "TsGroup.restrict"}, "what": "member restrict wrong", "input": inp, "impl": _ticks(rg[3].t), "expected": exp_t}
    if [(C.to_ns(s), C.to_ns(e)) for s, e in rg.time_support.values] != list(ep):
        return {"key": {"op": "TsGroup.restrict", "part": "support"}, "what": "group support is not ep", "input": inp}
    return None


def search(res, seed):
    r2 = C.Result()
    run(r2, "thorough", seed)
    return r2.violations[0] if r2.violations else None


def replay(payload):
    nap, J = _nap()
    v = payload.get("violation") or {}
    inp = v.get("input", {})
    ts, ep = inp.get("ts", []), [tuple(x) for x in inp.get("ep", [])]
    t, st, en = G.arr(ts), G.arr([s for s, _ in ep]), G.arr([e for _, e in ep])
    idx = list(map(int, J.jitrestrict(t, st, en)))
    print("input ts=%s ep=%s" % (ts, ep))
    print("implementation idx:", idx)
    print("expected idx      :", oracle_idx(ts, ep))
    pv = public_case(nap, ts, ep) if ts else None
    print("public API:", pv)
    return 1 if idx != oracle_idx(ts, ep) or pv else 0
