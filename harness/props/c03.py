"""C03 restrict keeps exactly the samples inside the closed intervals, rows intact."""
import random
import warnings

import numpy as np

import common as C
import gen as G

LEVEL = "proof"
TRUSTED = ["model: coq/Model/Restrict.v (restrict_scan); theorems in coq/Proofs/RestrictProofs.v, coq/Proofs/C03Compose.v; "
           "support and constructor clauses are stated on the constructor model of coq/Model/Store.v (mk_ts_sup), data rows abstracted; "
           "column labels / metadata have no model: that clause is checked on the implementation only"]
ASSUMPTIONS = ["timestamps sorted and IntervalSet canonical at kernel entry (guaranteed by the constructors: C01, C04)",
               "kernel cases are realised on a 1 us lattice; comparison-only kernel, so behaviour depends on order type only"]


def _nap():
    import pynapple as nap
    from pynapple.core import _jitted_functions as J
    return nap, J


def oracle_idx(ts, ep):
    return [i for i, t in enumerate(ts) if G.mem(t, ep)]


def oracle_cnt(ts, ep):
    return [sum(1 for t in ts if s <= t <= e) for s, e in ep]


N_RANDOM = {"quick": 300, "thorough": 5000}


def kernel_cases(tier, seed):
    N = 7 if tier == "quick" else 9
    pts = G.lattice(N)
    eps = G.canonical_isets(pts, 3 if tier == "quick" else 4)
    tss = G.sorted_multisets(pts, 3 if tier == "quick" else 4)
    for ep in eps:
        for ts in tss:
            yield ts, ep
    rng = random.Random(seed * 7919 + 3)
    for _ in range(N_RANDOM[tier]):
        ep = G.rand_canonical_iset(rng, 8)
        ts = G.rand_sorted_ts(rng, 30, ep)
        yield ts, ep


def run(res, tier, seed):
    nap, J = _nap()
    warnings.simplefilter("ignore")
    res.rule = ("kernel: ALL (canonical IntervalSet with <=3(4) intervals, sorted multiset of <=3(4) samples) on a 7(9)-point 1us lattice "
                "[complete: every order type incl. samples on starts/ends, duplicates, empty series, empty set, set before/after/between data] "
                "+ seeded random large cases; public, on a subsample (every 25th with the empty series; every other one stretched to a 3us lattice), each case with a second IntervalSet ep2: "
                "Ts/Tsd/TsdFrame/TsdTensor.restrict (samples, rows, labels, support), idempotence (samples, rows, support), "
                "restrict(ep).restrict(ep2) = exact filter by both and = restrict(ep.intersect(ep2)) on samples farther than 1us from every endpoint, "
                "constructor(time_support=) in s/ms/us and on shuffled timestamps; TsGroup.restrict member-wise (Ts and Tsd members, member supports) for a group "
                "whose support is wide / the default union / the complement of ep (ep fills the gaps of the support and shares all its endpoints with it). "
                "non-trivial = at least one sample and one interval; distinct = distinct (ts, ep)")
    res.exhaustive = True
    cases = list(kernel_cases(tier, seed))
    n_lattice = len(cases) - N_RANDOM[tier]
    # two thirds of the cases are translated to straddle / lie below t = 0 (zero-initialised buffers: sign matters)
    offs = [0, -3000, -10**7]
    cases = [([t + offs[n % 3] for t in ts], [(a + offs[n % 3], b + offs[n % 3]) for a, b in ep]) for n, (ts, ep) in enumerate(cases)]
    lines = ["restrict\t%s\t%s" % (C.fmt_ints(ts), C.fmt_iset(ep)) for ts, ep in cases]
    model = C.run_model(lines)
    pyf_every = 5 if tier == "quick" else 11
    for n, ((ts, ep), mout) in enumerate(zip(cases, model)):
        t = G.arr(ts)
        st = G.arr([s for s, _ in ep])
        en = G.arr([e for _, e in ep])
        idx = J.jitrestrict(t, st, en)
        idx2, cnt = J.jitrestrict_with_count(t, st, en)
        impl = (list(map(int, idx)), list(map(int, cnt)))
        key = (tuple(ts), tuple(ep))
        res.case(key, nontrivial=bool(ts) and bool(ep))
        res.count("n_samples=%d" % min(len(ts), 5))
        res.count("n_intervals=%d" % min(len(ep), 5))
        if any(G.mem(x, [(s, s)]) or G.mem(x, [(e, e)]) for x in ts for s, e in ep):
            res.count("sample_on_endpoint")
        mi, mc = mout.split("|")
        mod = ([int(x) for x in mi.split()], [int(x) for x in mc.split()])
        exp = (oracle_idx(ts, ep), oracle_cnt(ts, ep))
        inp = {"op": "jitrestrict", "ts": ts, "ep": ep}
        if list(map(int, idx2)) != impl[0]:
            res.violations.append({"key": {"op": "jitrestrict_with_count"}, "what": "jitrestrict and jitrestrict_with_count select different samples",
                                   "input": inp, "impl": [impl[0], list(map(int, idx2))]})
        if impl != exp:
            res.violations.append({"key": {"op": "jitrestrict"}, "what": "restrict kernel does not select exactly the samples inside the closed intervals",
                                   "input": inp, "impl": impl, "expected": exp})
        if mod != impl:
            res.disagreements.append({"input": inp, "impl": impl, "model": mod})
        if n % pyf_every == 0:
            try:
                pi = list(map(int, J.jitrestrict.py_func(t, st, en)))
                pi2, pc = J.jitrestrict_with_count.py_func(t, st, en)
                pyf = (pi, list(map(int, pc)))
                if list(map(int, pi2)) != pi:
                    pyf = ("mismatch", pi, list(map(int, pi2)))
            except Exception as ex:  # IndexError = out-of-bounds read (C15)
                pyf = "EXC " + type(ex).__name__
            res.count("py_func_cases")
            if pyf != impl:
                res.violations.append({"key": {"op": "jitrestrict.py_func"}, "what": "interpreted and compiled kernel differ",
                                       "input": inp, "impl": impl, "py_func": pyf})
        if n < 3 or (n % 9973 == 0):
            res.sample({"ts": ts, "ep": ep, "idx": impl[0], "count": impl[1]})

    # public API: every class, empty series included; each case gets a second IntervalSet ep2 (same translation)
    # for the composition clause
    rng = random.Random(seed + 17)
    picks = rng.sample(range(n_lattice), 9000 if tier == "thorough" else 1000) + \
        rng.sample(range(n_lattice, len(cases)), 1000 if tier == "thorough" else 100)
    pub = 0
    for n in picks:
        ts, ep = cases[n]
        if pub % 25 == 24:
            ts = []          # the empty series against every kind of IntervalSet
        off = offs[n % 3]
        if n < n_lattice:
            m = rng.randrange(n_lattice)
            m -= (m - n) % 3
            ep2 = cases[m if m >= 0 else n][1]
        else:
            ep2 = [(a + off, b + off) for a, b in
                   G.rand_canonical_iset(rng, 8, coincide=sorted(set(x - off for iv in ep for x in iv)))]
        if pub % 2:
            # every other case on a 3 us lattice: same order types, and every sample off the endpoints is now farther
            # than 1 us from all of them (the composition clause speaks about those)
            ts, ep, ep2 = [3 * x for x in ts], [(3 * a, 3 * b) for a, b in ep], [(3 * a, 3 * b) for a, b in ep2]
        pub += 1
        try:
            v = public_case(nap, ts, ep, ep2, res)
        except Exception as ex:
            v = {"key": {"op": "public", "part": "exception", "empty_series": not ts},
                 "what": "public restrict/constructor raised %s: %s" % (type(ex).__name__, str(ex)[:120]), "input": {"ts": ts, "ep": ep, "ep2": ep2}}
        res.evaluations += 1
        if v:
            res.violations.append(v)
    res.count("public_cases", pub)


def _ticks(a):
    return [C.to_ns(x) for x in np.asarray(a).ravel()]


def _sup(obj):
    return [(C.to_ns(s), C.to_ns(e)) for s, e in obj.time_support.values]


def _iset(nap, ep):
    return nap.IntervalSet(G.arr([s for s, _ in ep]), G.arr([e for _, e in ep]))


def _on_endpoint(ts, ep):
    pts = set(x for iv in ep for x in iv)
    return any(t in pts for t in ts)


def _far(x, pts):
    """farther than 1 us from every endpoint"""
    return all(abs(x - p) > 1000 for p in pts)


def _make(nap, name, t, d, **kw):
    if name == "Ts":
        return nap.Ts(t, **kw)
    if name == "TsdFrame":
        return nap.TsdFrame(t, d, columns=["a", "b", "c"], **kw)
    return getattr(nap, name)(t, d, **kw)


def public_case(nap, ts, ep, ep2=None, res=None):
    """The statement, clause by clause, on the public API. Returns a violation dict or None."""
    ep2 = list(ep) if ep2 is None else ep2
    t = G.arr(ts)
    n = len(ts)
    epo, epo2 = _iset(nap, ep), _iset(nap, ep2)
    d1 = np.arange(n) + 100
    d2 = np.stack([np.arange(n) + 100, np.arange(n) + 200, np.arange(n) + 300], axis=1)
    d3 = np.arange(n * 4).reshape(n, 2, 2) + 100
    exp_i = oracle_idx(ts, ep)
    exp_t = [ts[i] for i in exp_i]
    exp_sup = list(ep) if exp_i else []
    exp2_i = [i for i in exp_i if G.mem(ts[i], ep2)]
    exp2_t = [ts[i] for i in exp2_i]
    exp2_sup = list(ep2) if exp2_i else []
    endpoints = set(x for iv in list(ep) + list(ep2) for x in iv)
    far_i = [i for i in range(n) if _far(ts[i], endpoints)]
    inp = {"ts": ts, "ep": ep, "ep2": ep2}
    trig = {"empty_series": n == 0, "sample_on_endpoint": _on_endpoint(ts, ep)}
    if res is not None:
        res.count("public_empty_series", int(n == 0))
        res.count("public_compose_far_samples", len(far_i))
        res.count("public_compose_far_samples_kept", len([i for i in far_i if i in set(exp2_i)]))

    def key(op, part, **more):
        k = {"op": op, "part": part}
        k.update(trig)
        k.update(more)
        return k

    objs = {
        "Ts": nap.Ts(t),
        "Tsd": nap.Tsd(t, d1),
        "TsdFrame": nap.TsdFrame(t, d2, columns=["a", "b", "c"], metadata={"m": [7, 8, 9]}),
        "TsdTensor": nap.TsdTensor(t, d3),
    }
    datas = {"Ts": None, "Tsd": d1, "TsdFrame": d2, "TsdTensor": d3}
    perm = list(range(n))
    random.Random(n * 31 + (sum(ts) % 1009)).shuffle(perm)
    for name, o in objs.items():
        d = datas[name]
        r = o.restrict(epo)
        if type(r) is not type(o):
            return {"key": key(name + ".restrict", "class"), "what": "class changed", "input": inp}
        if _ticks(r.t) != exp_t:
            return {"key": key(name + ".restrict", "samples"), "what": "restrict returns the wrong samples", "input": inp,
                    "impl": _ticks(r.t), "expected": exp_t}
        if d is not None and not np.array_equal(r.values, d[exp_i]):
            return {"key": key(name + ".restrict", "rows"), "what": "a sample lost its own data row", "input": inp}
        if _sup(r) != exp_sup:
            return {"key": key(name + ".restrict", "support"), "what": "time support of the result is not ep (or empty)",
                    "input": inp, "impl": _sup(r), "expected": exp_sup}
        if name == "TsdFrame":
            if list(r.columns) != ["a", "b", "c"] or list(r.metadata["m"]) != [7, 8, 9]:
                return {"key": key("TsdFrame.restrict", "labels"), "what": "columns/metadata changed", "input": inp}
        # idempotence: samples, rows and support
        rr = r.restrict(epo)
        if type(rr) is not type(o) or _ticks(rr.t) != exp_t or (d is not None and not np.array_equal(rr.values, d[exp_i])) or _sup(rr) != exp_sup:
            return {"key": key(name + ".restrict", "idempotence"), "what": "restricting twice by ep changes the samples, the rows or the support", "input": inp}
        # composition: a then b is the exact filter by both, and agrees with restrict(a.intersect(b)) on every sample
        # farther than 1 us from every endpoint of a and b
        r2 = r.restrict(epo2)
        if _ticks(r2.t) != exp2_t or (d is not None and not np.array_equal(r2.values, d[exp2_i])) or _sup(r2) != exp2_sup:
            return {"key": key(name + ".restrict", "compose"), "what": "restrict(a).restrict(b) is not the samples (rows, support) inside both a and b",
                    "input": inp, "impl": _ticks(r2.t), "expected": exp2_t}
        ri = o.restrict(epo.intersect(epo2))
        got = [(x, (None if d is None else np.asarray(v).tolist())) for x, v in zip(_ticks(ri.t), (ri.t if d is None else ri.values)) if _far(x, endpoints)]
        want = [(ts[i], (None if d is None else np.asarray(d[i]).tolist())) for i in exp2_i if _far(ts[i], endpoints)]
        if got != want:
            return {"key": key(name + ".restrict", "compose_intersect"),
                    "what": "restrict(a).restrict(b) and restrict(a.intersect(b)) differ on a sample farther than 1us from every endpoint",
                    "input": inp, "impl": [g[0] for g in got], "expected": [w[0] for w in want]}
        # constructor with time_support = construct then restrict (sorted input, the three time units, unsorted input)
        c = _make(nap, name, t, d, time_support=epo)
        if _ticks(c.t) != exp_t or (d is not None and not np.array_equal(c.values, d[exp_i])):
            return {"key": key(name + "(time_support=)", "samples"), "what": "constructor with time_support differs from construct-then-restrict", "input": inp}
        # ... whatever accepted form the timestamps come in: another object's TsIndex (seed C03-5), a plain list, the .t array of an object
        for form, tf in (("TsIndex", o.index), ("list", [float(x) for x in t]), ("t_of_object", o.t)):
            cf = _make(nap, name, tf, d, time_support=epo)
            if _ticks(cf.t) != exp_t or (d is not None and not np.array_equal(cf.values, d[exp_i])) or _sup(cf) != (list(ep) if n else []):
                return {"key": key(name + "(time_support=)", "samples", t_form=form), "what": "constructor given t as %s with time_support differs from construct-then-restrict" % form,
                        "input": inp, "impl": _ticks(cf.t), "expected": exp_t}
        for units, f in (("ms", 1e3), ("us", 1e6)):
            tu = np.asarray(ts, dtype=np.float64) / (1e9 / f)
            cu = _make(nap, name, tu, d, time_units=units, time_support=epo)
            if _ticks(cu.t) != exp_t or (d is not None and not np.array_equal(cu.values, d[exp_i])):
                return {"key": key(name + "(time_support=)", "samples", units=units), "what": "constructor with time_units and time_support differs from construct-then-restrict",
                        "input": inp, "impl": _ticks(cu.t), "expected": exp_t}
        if n > 1 and perm != sorted(perm):
            tp, dp = t[perm], (None if d is None else d[perm])
            c1 = _make(nap, name, tp, dp, time_support=epo)
            c2 = _make(nap, name, tp, dp).restrict(epo)
            if _ticks(c1.t) != _ticks(c2.t) or _ticks(c1.t) != exp_t or (d is not None and not np.array_equal(c1.values, c2.values)):
                return {"key": key(name + "(time_support=)", "samples", unsorted_input=True),
                        "what": "constructor with time_support differs from construct-then-restrict on unsorted timestamps", "input": dict(inp, perm=perm)}
    return group_case(nap, ts, ep, t, d1, inp, res)


def group_case(nap, ts, ep, t, d1, inp, res=None):
    """TsGroup.restrict is member-wise: Ts and Tsd members, groups whose own support (i) is wide, (ii) is the default union of
    the members' [first, last] supports, (iii) is the complement of ep (every interval of ep fills a gap of the support: each
    endpoint of ep is shared with the support, so only samples sitting exactly on those endpoints survive)."""
    n = len(ts)
    epo = _iset(nap, ep)
    h = max(1, n // 2) if n else 0
    pts = list(ts) + [x for iv in ep for x in iv] + [0]
    lo, hi = min(pts) - 10**9, max(pts) + 10**9
    groups = {"wide": [(lo, hi)]}
    if n and ts[0] < ts[-1]:
        groups["default"] = None
    if ep:
        bounds = [lo] + [x for iv in ep for x in iv] + [hi]
        groups["complement_of_ep"] = list(zip(bounds[0::2], bounds[1::2]))
    for gname, sup in groups.items():
        mem_in = {3: nap.Ts(t), 1: nap.Tsd(t[:h], d1[:h]), 2: nap.Tsd(t, d1)}
        if sup is None:
            g = nap.TsGroup(mem_in, metadata={"lab": ["x", "y", "z"]})
        else:
            g = nap.TsGroup(mem_in, time_support=_iset(nap, sup), metadata={"lab": ["x", "y", "z"]})
        gsup = _sup(g)
        touch = bool(set(x for iv in gsup for x in iv) & set(x for iv in ep for x in iv))
        rg = g.restrict(epo)
        if res is not None:
            res.count("group_%s" % gname)
            res.count("group_support_touches_ep", int(touch))

        def key(part, **more):
            k = {"op": "TsGroup.restrict", "part": part, "group_support": gname, "ep_touches_group_support": touch, "empty_series": n == 0}
            k.update(more)
            return k

        if list(rg.keys()) != [1, 2, 3] or list(rg.metadata["lab"]) != list(g.metadata["lab"]):
            return {"key": key("keys"), "what": "keys/metadata changed", "input": inp}
        survivors = 0
        for k in (1, 2, 3):
            before = _ticks(g[k].t)
            keep = [i for i, x in enumerate(before) if G.mem(x, ep)]
            exp_t = [before[i] for i in keep]
            survivors += len(keep)
            on_ep = _on_endpoint(before, ep)
            if type(rg[k]) is not type(g[k]) or _ticks(rg[k].t) != exp_t:
                return {"key": key("samples", sample_on_endpoint=on_ep), "what": "group.restrict(ep)[k] is not the samples of group[k] inside the closed intervals of ep",
                        "input": inp, "member": k, "member_samples": before, "impl": _ticks(rg[k].t), "expected": exp_t}
            if k != 3 and not np.array_equal(rg[k].values, g[k].values[keep]):
                return {"key": key("rows", sample_on_endpoint=on_ep), "what": "a sample of a Tsd member lost its own data value", "input": inp, "member": k}
            if _sup(rg[k]) != (list(ep) if keep else []):
                return {"key": key("member_support", sample_on_endpoint=on_ep), "what": "time support of a restricted member is not ep (or empty when no sample survives)",
                        "input": inp, "member": k, "impl": _sup(rg[k])}
        if _sup(rg) != list(ep) and (survivors or _sup(rg) != []):
            return {"key": key("support"), "what": "group support is not ep", "input": inp, "impl": _sup(rg)}
    return None


def search(res, seed):
    r2 = C.Result()
    run(r2, "thorough", seed)
    return r2.violations[0] if r2.violations else None


def replay(payload):
    nap, J = _nap()
    v = payload.get("violation") or {}
    inp = v.get("input", {})
    ts, ep = inp.get("ts", []), [tuple(x) for x in inp.get("ep", [])]
    ep2 = [tuple(x) for x in inp["ep2"]] if "ep2" in inp else None
    t, st, en = G.arr(ts), G.arr([s for s, _ in ep]), G.arr([e for _, e in ep])
    idx = list(map(int, J.jitrestrict(t, st, en)))
    print("input ts=%s ep=%s" % (ts, ep))
    print("implementation idx:", idx)
    print("expected idx      :", oracle_idx(ts, ep))
    warnings.simplefilter("ignore")
    pv = public_case(nap, ts, ep, ep2)
    print("public API:", pv)
    return 1 if idx != oracle_idx(ts, ep) or pv else 0

# --- Glue layer (DESIGN.md 10.11): the Python between the API and the kernels, tied by proof in Properties/C03c.v; this is the
# executable tie of its trusted parts (translator tools/py2glue.py + primitive semantics Glue/Interp.v): the TRANSLATED term run by the
# extracted evaluator (ocaml/gluedriver) against the REAL routine of pynapple on the same inputs (harness/gluecmp.py).
import gluecmp  # noqa: E402

DRIVERS = list(globals().get("DRIVERS", ["driver"])) + ["gluedriver"]
GLUE_ROUTINES = ['IntervalSet.in_interval', '_restrict', '_Base.restrict']
_run_without_glue = run


def run(res, tier, seed):
    _run_without_glue(res, tier, seed)
    gluecmp.check(res, GLUE_ROUTINES, tier, seed)
    res.rule += (" | glue: for each of %s the translated Glue.Lang term (coq/Gen/Glue.v) is evaluated by the extracted Glue/Interp.v and compared with the "
                 "real pynapple routine on canonical sets of a dyadic lattice (incl. negative times, empty, touching, duplicates, unsorted/improper "
                 "constructor input, thresholds equal to a length or gap); exceptions must match the model's error kind" % ", ".join(GLUE_ROUTINES))
