"""C11 save followed by load_file returns an equal object (six classes, load_file and Folder)."""
import itertools
import json
import os
import random
import shutil
import subprocess
import warnings

import numpy as np

import common as C

LEVEL = "proof"
DRIVERS = ["driver_c11"]
TRUSTED = ["model: coq/Model/Npz.v (file = key/value list; save over the generated writer tables, load = NPZFile type detection + the three "
           "_from_npz_reader over the generated reader tables; constructors re-entered on load are Model/Iset.mk_iset and Model/Restrict); "
           "theorems: Proofs/NpzProofs.v",
           "translator tools/gen_c11.py (Python ast) -> coq/Gen/SitesC11.v: trusted to list the np.savez keywords / dicttosave stores and the "
           "file[...] reads of the source; cross-checked on every run against the member names of really written .npz files",
           "np.savez / np.load (zip container, pickling of the metadata dict) and pandas DataFrame.to_dict / from_dict are not modelled beyond the "
           "key -> value map and `column -> {index label -> cell}`; exercised by the real round trips only",
           "PARTIAL (TsGroup): np.argsort is a Section variable with NumPy's contract (permutation of the positions that sorts) as visible "
           "premises of C11_roundtrip_tsgroup_*_partial; a stable insertion argsort satisfies them (C11_argsort_contract_satisfiable)"]
ASSUMPTIONS = ["objects are built through the public constructors (sorted timestamps, canonical support, one row per sample, an empty series has an "
               "empty support). Series whose timestamps all coincide and that get the EMPTY default support (nap.Ts([5.])) ARE generated and checked "
               "against the statement (they lose every sample: known finding, Coq witness C11_zero_span_default_support_refuted)",
               "data cells of the model are integers: objects holding NaN / inf / fractional data or fractional / NaN metadata cells are run through the "
               "implementation and the oracle only (counted as impl_only), the model correspondence covers integer-valued cells",
               "metadata columns are int, float or str; column labels are all int or all str (mixed labels are cast to str on save: outside the quantifier); "
               "REPEATED column labels are inside the quantifier and generated (with metadata the load raises: known finding, Coq witness "
               "C11_tsdframe_duplicate_labels_refuted)",
               "TsGroup members are all Ts or all Tsd with finite data; members are built as float64 (the dtype of a member is not named by the statement: "
               "an int64 member comes back float64)"]

NAN = -1000000007
SCRATCH = os.path.join(C.CACHE, "c11_scratch")
DT = {"int64": 0, "float64": 1, "bool": 2}


def _nap():
    import pynapple as nap
    return nap


# ---------------------------------------------------------------------------------------------- building objects from specs
def _arr(ticks):
    return np.asarray(ticks, dtype=np.float64) / 1e9 if len(ticks) else np.array([], dtype=np.float64)


def _iset(nap, sup):
    return nap.IntervalSet(_arr([s for s, _ in sup]), _arr([e for _, e in sup]))


def _meta_dict(meta):
    out = {}
    for name, kind, vals in meta or []:
        if kind == "int":
            out[name] = np.array(vals, dtype=np.int64)
        elif kind == "float":
            out[name] = np.array(vals, dtype=np.float64)
        elif kind == "floatx":                                   # fractional cells and a NaN
            out[name] = np.array([np.nan if i == 0 else v + 0.5 for i, v in enumerate(vals)], dtype=np.float64)
        else:
            out[name] = np.array(["s%d" % v for v in vals], dtype=object)
    return out


def _num(v):
    """a data cell of a spec: a number, or one of the strings "nan", "inf", "-inf" (specs stay strict JSON)"""
    return float(v) if isinstance(v, str) else v


def build(nap, sp):
    """spec (JSON-able dict) -> pynapple object, through the public constructors only"""
    cls = sp["cls"]
    if "d" in sp:
        sp = dict(sp, d=[_num(v) for v in sp["d"]])
    sup = _iset(nap, sp["sup"]) if sp.get("sup") is not None else None
    if cls == "Ts":
        return nap.Ts(_arr(sp["t"]), time_support=sup)
    if cls == "Tsd":
        return nap.Tsd(_arr(sp["t"]), np.array(sp["d"], dtype=sp["dtype"]), time_support=sup)
    if cls == "TsdTensor":
        d = np.array(sp["d"], dtype=sp["dtype"]).reshape((len(sp["t"]),) + tuple(sp["shape"]))
        return nap.TsdTensor(_arr(sp["t"]), d, time_support=sup)
    if cls == "TsdFrame":
        d = np.array(sp["d"], dtype=sp["dtype"]).reshape((len(sp["t"]), sp["ncols"]))
        kw = {}
        if sp.get("cols") is not None:
            kw["columns"] = sp["cols"]
        md = _meta_dict(sp.get("meta"))
        if md:
            kw["metadata"] = md
        return nap.TsdFrame(_arr(sp["t"]), d, time_support=sup, **kw)
    if cls == "IntervalSet":
        md = _meta_dict(sp.get("meta"))
        iv = sp["iv"]
        return nap.IntervalSet(_arr([s for s, _ in iv]), _arr([e for _, e in iv]), metadata=md if md else None)
    if cls == "TsGroup":
        data = {}
        for key, kind, t, d in sp["members"]:
            d = [np.nan if v is None else _num(v) for v in d]    # None = NaN (only in the outside-the-quantifier cases)
            # members get the group's support explicitly (a single sample would otherwise get an empty default support); with "sup": null the
            # members keep their default supports and the group takes their union
            data[key] = nap.Ts(_arr(t), time_support=sup) if kind == "Ts" else nap.Tsd(_arr(t), np.array(d, dtype=np.float64), time_support=sup)
        g = nap.TsGroup(data, time_support=sup)
        md = _meta_dict(sp.get("meta"))       # cells are given in SORTED KEY order
        if md:
            g.set_info(**md)
        return g
    raise ValueError(cls)


# ---------------------------------------------------------------------------------------------- canonical description (= driver_c11's)
def _ints(xs):
    return " ".join(str(int(x)) for x in xs)


def _ticks(a):
    return [C.to_ns(v) for v in np.asarray(a).ravel()]


def _sup(ep):
    return _ints(_ticks(ep.values))


def _enc_str(s):
    s = str(s)
    if len(s) >= 2 and s[0] == "s" and s[1:].lstrip("-").isdigit():
        return [1, int(s[1:])]
    if s.lstrip("-").isdigit():
        return [2, int(s)]
    return [3, len(s)]


def _enc_label(l):
    if isinstance(l, (int, np.integer)) and not isinstance(l, (bool, np.bool_)):
        return [0, int(l)]
    if isinstance(l, str):
        return _enc_str(l)
    return [9, 0]


def _enc_meta(df, skip=()):
    out = []
    for c in df.columns:
        if c in skip:
            continue
        name = int(c[1:]) if isinstance(c, str) and c[:1] == "m" and c[1:].isdigit() else -1
        col = df[c]
        out += [name, len(col)]
        k = col.dtype.kind
        for v in col.values:
            if k in "iu" and not isinstance(v, (bool, np.bool_)):
                out += [0, int(v)]
            elif k == "f":
                out += [1, int(v)] if np.isfinite(v) and float(v) == int(v) else [8, 0]
            elif isinstance(v, str):
                e = _enc_str(v)
                out += [2, e[1]] if e[0] == 1 else [3, 0]
            else:
                out += [7, 0]
    return _ints(out)


def _dtcode(dt):
    return DT.get(str(dt), 9)


def _cell(v):
    v = float(v)
    return str(int(v)) if np.isfinite(v) and v == int(v) else repr(v)


def _cells(v):
    return " ".join(_cell(u) for u in np.asarray(v).astype(np.float64).ravel())


def representable(nap, x):
    """the model's cells are integers (NaN only in group data): can this object be handed to driver_c11?"""
    def integral(a, nan_ok=False):
        a = np.asarray(a, dtype=np.float64).ravel()
        if nan_ok:
            a = a[~np.isnan(a)]
        return bool(np.all(np.isfinite(a)) and np.all(a == np.round(a)))
    md = getattr(x, "_metadata", None)
    if md is not None:
        for c in md.columns:
            if c != "rate" and md[c].dtype.kind == "f" and not integral(md[c].values):
                return False
    if isinstance(x, nap.TsGroup):
        return all(integral(x[k].values, nan_ok=True) for k in x.keys() if hasattr(x[k], "values"))
    if isinstance(x, nap.IntervalSet) or not hasattr(x, "values"):
        return True
    return integral(x.values)


def describe(nap, x):
    if isinstance(x, nap.TsGroup):
        mem = []
        for k in x.keys():
            m = x[k]
            t = _ticks(m.t)
            if isinstance(m, nap.Ts):
                mem += [int(k), 0, len(t)] + t
            else:
                d = [NAN if np.isnan(v) else (int(v) if np.isfinite(v) and v == int(v) else repr(float(v))) for v in np.asarray(m.values, dtype=np.float64)]
                mem += [int(k), 1, len(t)] + t + d
        return "|".join(["TsGroup", _sup(x.time_support), " ".join(u if isinstance(u, str) else str(int(u)) for u in mem), _enc_meta(x._metadata, skip=("rate",))])
    if isinstance(x, nap.IntervalSet):
        return "|".join(["IntervalSet", _ints(_ticks(x.values)), _enc_meta(x._metadata)])
    if isinstance(x, nap.TsdFrame):
        lab = []
        for l in x.columns:
            lab += _enc_label(l)
        return "|".join(["TsdFrame", _ints(_ticks(x.t)), str(_dtcode(x.dtype)), str(x.shape[1]), _cells(x.values), _sup(x.time_support),
                         _ints(lab), _enc_meta(x._metadata)])
    if isinstance(x, nap.TsdTensor):
        return "|".join(["TsdTensor", _ints(_ticks(x.t)), str(_dtcode(x.dtype)), _ints(x.shape[1:]), _cells(x.values), _sup(x.time_support)])
    if isinstance(x, nap.Tsd):
        return "|".join(["Tsd", _ints(_ticks(x.t)), str(_dtcode(x.dtype)), _cells(x.values), _sup(x.time_support)])
    if isinstance(x, nap.Ts):
        return "|".join(["Ts", _ints(_ticks(x.t)), _sup(x.time_support)])
    return "other:" + type(x).__name__


def model_line(nap, x):
    """the pre-save state of the constructed object, as one input line of driver_c11 (None if not representable)"""
    d = describe(nap, x).split("|")
    if d[0] == "Ts":
        return "ts\t%s\t%s" % (d[1], d[2])
    if d[0] == "Tsd":
        return None if d[2] == "9" else "tsd\t%s\t%s\t%s\t%s" % (d[1], d[2], d[3], d[4])
    if d[0] == "TsdTensor":
        return None if d[2] == "9" else "tensor\t%s\t%s\t%s\t%s\t%s" % (d[1], d[2], d[3], d[4], d[5])
    if d[0] == "TsdFrame":
        return None if d[2] == "9" else "frame\t%s\t%s\t%s\t%s\t%s\t%s\t%s" % (d[1], d[2], d[3], d[4], d[5], d[6], d[7])
    if d[0] == "IntervalSet":
        return "iset\t%s\t%s" % (d[1], d[2])
    if d[0] == "TsGroup":
        return "group\t%s\t%s\t%s\t0" % (d[1], d[2], d[3])
    return None


# ---------------------------------------------------------------------------------------------- the statement, restated
def _meta_equal(a, b):
    """same columns (names, order), same index, same cells, same kind of dtype (integer / float / string) where there are cells"""
    if list(a.columns) != list(b.columns):
        return "metadata columns %r != %r" % (list(a.columns), list(b.columns))
    if list(a.index) != list(b.index) or [type(i) for i in a.index] != [type(i) for i in b.index]:
        return "metadata index %r != %r" % (list(a.index), list(b.index))
    for c in a.columns:
        ka, kb = a[c].dtype.kind, b[c].dtype.kind
        ka, kb = ("s" if ka in "OUT" else ka), ("s" if kb in "OUT" else kb)
        if ka != kb and len(a[c]):      # a column without cells has no cell dtype to preserve (pandas gives it a default one)
            return "metadata column %r dtype %s != %s" % (c, a[c].dtype, b[c].dtype)
        va, vb = list(a[c].values), list(b[c].values)
        for u, v in zip(va, vb):
            if not (u == v or (isinstance(u, float) and isinstance(v, float) and np.isnan(u) and np.isnan(v))):
                return "metadata column %r cells %r != %r" % (c, va, vb)
    return None


def _same_values(a, b):
    """equal shape and equal cells; a NaN cell equals a NaN cell (the statement says "equal data values": a series holding NaN that comes back
    with the same NaN in the same place is equal)"""
    a, b = np.asarray(a), np.asarray(b)
    if a.shape != b.shape:
        return False
    if a.dtype.kind in "fc" and b.dtype.kind in "fc":
        return bool(np.array_equal(a, b, equal_nan=True))
    return bool(np.array_equal(a, b))


def oracle(nap, x, y):
    """list of (part, message, detail): where the loaded object y is NOT equal to the saved object x in the sense of the statement; detail =
    extra fields of the violation key that name the precise trigger"""
    return [(b + ({},))[:3] for b in _oracle(nap, x, y)]


def _oracle(nap, x, y):
    bad = []
    if type(x) is not type(y):
        return [("class", "loaded %s, saved %s" % (type(y).__name__, type(x).__name__))]
    if isinstance(x, nap.IntervalSet):
        if not np.array_equal(x.values, y.values):
            bad.append(("intervals", "%r != %r" % (y.values.tolist(), x.values.tolist())))
        m = _meta_equal(x._metadata, y._metadata)
        if m:
            bad.append(("metadata", m))
        return bad
    if not np.array_equal(x.time_support.values, y.time_support.values):
        bad.append(("time_support", "%r != %r" % (y.time_support.values.tolist(), x.time_support.values.tolist())))
    if isinstance(x, nap.TsGroup):
        if list(x.keys()) != list(y.keys()):
            bad.append(("keys", "%r != %r" % (list(y.keys()), list(x.keys()))))
            return bad
        for k in x.keys():
            a, b = x[k], y[k]
            if type(a) is not type(b):
                bad.append(("member_class", "member %r loaded as %s, saved as %s" % (k, type(b).__name__, type(a).__name__)))
                continue
            if not np.array_equal(a.time_support.values, b.time_support.values):
                bad.append(("member_support", "member %r: %r != %r" % (k, b.time_support.values.tolist(), a.time_support.values.tolist())))
            if not np.array_equal(a.t, b.t):
                bad.append(("member_times", "member %r: %r != %r" % (k, b.t.tolist(), a.t.tolist())))
            elif hasattr(a, "values") and not _same_values(a.values, b.values):
                # the precise trigger of the known finding: THIS member has a repeated timestamp, and its rows came back permuted inside the
                # groups of tied samples only (same multiset of (time, value) pairs); anything else is another defect
                ties = len(set(a.t.tolist())) < len(a.t)
                perm = a.values.shape == b.values.shape and _pairs(a) == _pairs(b)
                bad.append(("member_data", "member %r: %r != %r" % (k, b.values.tolist(), a.values.tolist()),
                            {"dup_times_in_member": bool(ties), "permuted_ties_only": bool(perm)}))
        m = _meta_equal(x._metadata, y._metadata)
        if m:
            bad.append(("metadata", m))
        return bad
    if not np.array_equal(x.t, y.t):
        bad.append(("times", "%r != %r" % (y.t.tolist(), x.t.tolist()), {"loaded_empty": bool(len(x) > 0 and len(y) == 0)}))
    if hasattr(x, "values"):
        if not _same_values(x.values, y.values):
            bad.append(("data", "%r != %r" % (np.asarray(y.values).tolist(), np.asarray(x.values).tolist()),
                        {"loaded_empty": bool(len(x) > 0 and len(y) == 0)}))
        if x.values.dtype != y.values.dtype:
            bad.append(("dtype", "%s != %s" % (y.values.dtype, x.values.dtype)))
    if isinstance(x, nap.TsdFrame):
        if list(x.columns) != list(y.columns) or [isinstance(c, str) for c in x.columns] != [isinstance(c, str) for c in y.columns]:
            bad.append(("columns", "%r != %r" % (list(y.columns), list(x.columns))))
        m = _meta_equal(x._metadata, y._metadata)
        if m:
            bad.append(("metadata", m))
    return bad


def _pairs(m):
    def norm(v):
        return (1, 0.0) if isinstance(v, float) and v != v else (0, v)
    return sorted((t, norm(v)) for t, v in zip(m.t.tolist(), np.asarray(m.values).tolist()))


def envelope_ok(nap, x, y):
    """for groups: every member comes back with the same multiset of (time, data) samples, sorted by time — what any
    legal np.argsort allows (the model's stable instance fixes one of these outcomes)"""
    if not (isinstance(x, nap.TsGroup) and isinstance(y, nap.TsGroup)) or list(x.keys()) != list(y.keys()):
        return False
    for k in x.keys():
        a, b = x[k], y[k]
        if type(a) is not type(b) or not np.array_equal(a.t, b.t):
            return False
        if hasattr(a, "values") and _pairs(a) != _pairs(b):
            return False
    return True


# ---------------------------------------------------------------------------------------------- case generation
S1 = [[0, 40]]
S2 = [[0, 10], [20, 40]]
S3 = [[-7, -3], [0, 10], [12, 40]]
US = 1000                      # ticks per unit of the small lattice below (1 us): times = unit * US + sub-us offsets
TIMES = {
    "empty": [],
    "one": [5],
    "multi": [0, 3, 10, 20, 33, 40],           # on interval starts and ends of S2
    "dups": [3, 3, 3, 20, 20, 40],
    "ns": [1, 2, 1001, 1002, 2003],            # distinct nanoseconds (times are scaled by US except this one)
    "one_instant_dups": [3, 3, 3],             # several samples, one distinct timestamp (zero span)
}
METAS = {
    "none": [],
    "int": [["m0", "int"]],
    "float": [["m1", "float"]],
    "str": [["m2", "str"]],
    "mix": [["m0", "int"], ["m2", "str"], ["m1", "float"]],
}
# run on a thinned set of cases only (implementation + oracle; the model's cells are integers)
META_X = [["m1", "floatx"], ["m2", "str"]]
SPECIAL = ["nan", 0.5, "inf", -2.25, "-inf", 1e-300, 3]          # data cells that are not integer-valued floats


def _special(n):
    return [SPECIAL[i % len(SPECIAL)] for i in range(n)]


def _scale(ts, name):
    return list(ts) if name == "ns" else [t * US for t in ts]


def _sups(t, name):
    """explicit supports that contain every time of t (canonical, in ticks)"""
    out = []
    for s in (S1, S2, S3):
        sc = [[a * US, b * US] for a, b in s]
        if all(any(a <= x <= b for a, b in sc) for x in t):
            out.append(sc)
    return out


def _mk_meta(which, n, rng):
    return [[name, kind, [rng.randrange(-5, 50) for _ in range(n)]] for name, kind in METAS[which]]


def structured_specs(rng):
    specs = []
    # --- Ts / Tsd / TsdTensor / TsdFrame
    for tn, ts in TIMES.items():
        t = _scale(ts, tn)
        sups = _sups(t, tn) if t else [None, [[0, 40 * US]]]
        if t:
            # the default support, ALSO when all timestamps coincide: the constructor then gives an empty support and keeps the samples
            # ("for every Ts, Tsd, ..." does not exclude these objects)
            sups = sups + [None]
        for sup in sups:
            v = {"times": tn, "sup": "default" if sup is None else "%d_intervals" % len(sup)}
            specs.append(({"cls": "Ts", "t": t, "sup": sup}, dict(v)))
            thin = t and (sup is None or sup is sups[0])       # the variants below: default support and the first explicit one
            if thin:
                # data that is not an integer-valued float: NaN, +-inf, fractions, a denormal-range value
                specs.append(({"cls": "Tsd", "t": t, "d": _special(len(t)), "dtype": "float64", "sup": sup}, dict(v, dtype="float64", data="nan_inf_fraction")))
                specs.append(({"cls": "Tsd", "t": t, "d": [0.5] * len(t), "dtype": "float32", "sup": sup}, dict(v, dtype="float32", data="fraction")))
                specs.append(({"cls": "TsdTensor", "t": t, "d": _special(len(t) * 4), "shape": [2, 2], "dtype": "float64", "sup": sup},
                              dict(v, dtype="float64", shape="[2, 2]", data="nan_inf_fraction")))
                for cols, cn in ((None, "default"), (["s1", "s0", "s7"], "str"), ([5, 5, 9], "int_repeated")):
                    for mt in ("none", "mix"):
                        specs.append(({"cls": "TsdFrame", "t": t, "d": _special(len(t) * 3), "ncols": 3, "dtype": "float64", "cols": cols, "sup": sup,
                                       "meta": _mk_meta(mt, 3, rng)}, dict(v, dtype="float64", labels=cn, meta=mt, data="nan_inf_fraction")))
                specs.append(({"cls": "TsdFrame", "t": t, "d": [(i * 3 + 2) % 17 - 8 for i in range(len(t) * 3)], "ncols": 3, "dtype": "float64",
                               "cols": [5, 3, 9], "sup": sup, "meta": [[n, k, [rng.randrange(-5, 50) for _ in range(3)]] for n, k in META_X]},
                              dict(v, dtype="float64", labels="int", meta="fraction_nan_cells")))
            for dt in ("int64", "float64", "bool", "int32", "float32"):
                d = [(i * 7 + 3) % 11 - 4 for i in range(len(t))]
                if dt == "bool":
                    d = [x % 2 for x in d]
                specs.append(({"cls": "Tsd", "t": t, "d": d, "dtype": dt, "sup": sup}, dict(v, dtype=dt)))
            for shape, dt in (([2, 2], "float64"), ([1, 3, 2], "int64"), ([2, 1], "bool")):
                n = len(t) * int(np.prod(shape))
                d = [(i * 5 + 1) % 13 - 6 for i in range(n)]
                if dt == "bool":
                    d = [x % 2 for x in d]
                specs.append(({"cls": "TsdTensor", "t": t, "d": d, "shape": shape, "dtype": dt, "sup": sup}, dict(v, dtype=dt, shape=str(shape))))
            for (ncols, cols, cn), mt, dt in itertools.product(
                    ((1, None, "default"), (3, None, "default"), (3, [5, 3, 9], "int"), (3, ["s1", "s0", "s7"], "str"), (1, ["s4"], "str"), (0, None, "zero_columns"),
                     (3, [5, 5, 9], "int_repeated"), (3, ["s1", "s7", "s1"], "str_repeated"), (2, [4, 4], "int_all_equal")),
                    METAS, ("int64", "float64")):
                if dt == "int64" and mt in ("float", "str") and cn != "str":
                    continue   # thin the product a little: every (labels x meta) pair still occurs with float64
                if cn in ("int_repeated", "str_repeated", "int_all_equal") and (not (sup is None or sup is sups[0]) or (dt == "int64" and cn != "int_repeated")):
                    continue
                d = [(i * 3 + 2) % 17 - 8 for i in range(len(t) * ncols)]
                specs.append(({"cls": "TsdFrame", "t": t, "d": d, "ncols": ncols, "dtype": dt, "cols": cols, "sup": sup,
                               "meta": _mk_meta(mt, ncols, rng)}, dict(v, dtype=dt, labels=cn, meta=mt)))
    # --- IntervalSet
    for iv in ([], [[0, 10]], [[0, 10], [20, 40], [50, 51]], [[-7, -3], [0, 1]]):
        for mt in METAS:
            ivs = [[a * US, b * US] for a, b in iv]
            specs.append(({"cls": "IntervalSet", "iv": ivs, "meta": _mk_meta(mt, len(iv), rng)}, {"intervals": len(iv), "meta": mt}))
    for iv in ([[0, 10], [20, 40]],):
        ivs = [[a * US, b * US] for a, b in iv]
        specs.append(({"cls": "IntervalSet", "iv": ivs, "meta": [[n, k, [rng.randrange(-5, 50) for _ in iv]] for n, k in META_X]},
                      {"intervals": len(iv), "meta": "fraction_nan_cells"}))
    # --- TsGroup
    keysets = {"contiguous": [0, 1, 2], "unsorted_noncontiguous": [30, 2, 7], "negative": [5, -3], "str_float_keys": ["7", 2.0, 11], "single": [4]}
    patterns = {
        "all_nonempty": [[0, 3, 10], [3, 20, 40], [1, 33]],
        "interleaved_shared_times": [[0, 20, 40], [0, 20, 40], [10, 20]],
        "one_empty_member": [[0, 3, 10], [], [1, 33]],
        "first_empty_member": [[], [3, 20, 40], [33]],
        "all_empty": [[], [], []],
        "dup_times_in_member": [[3, 3, 3, 20, 20, 40], [3, 20], [40]],
        "long_dups": [[1], [0, 0, 0, 0, 0, 0], [0, 0, 1, 1]],
    }
    for (kn, keys), (pn, pat), kind, sup, mt in itertools.product(keysets.items(), patterns.items(), ("Ts", "Tsd"), (S1, S2), METAS):
        if sup is S2 and any(not any(a <= x <= b for a, b in S2) for ts in pat for x in ts):
            continue
        if kn in ("negative", "str_float_keys", "single") and mt in ("float", "mix") and sup is S2:
            continue
        members = []
        c = 0
        for j, key in enumerate(keys):
            t = [x * US for x in pat[j % len(pat)]]
            d = [100 * (j + 1) + i for i in range(len(t))]
            c += len(t)
            members.append([key, kind, t, d])
        specs.append(({"cls": "TsGroup", "members": members, "sup": [[a * US, b * US] for a, b in sup], "meta": _mk_meta(mt, len(keys), rng)},
                      {"keys": kn, "pattern": pn, "members": kind, "sup": "%d_intervals" % len(sup), "meta": mt}))
    # members carrying finite data that is not integer-valued; metadata with fractional / NaN cells; a group built WITHOUT a time support
    # (members keep their default supports, the group takes the union; a member with one distinct timestamp is emptied by the constructor)
    for (kn, keys), pn, kind, sup in itertools.product((("contiguous", [0, 1, 2]), ("unsorted_noncontiguous", [30, 2, 7])),
                                                       ("all_nonempty", "one_empty_member", "interleaved_shared_times", "dup_times_in_member"),
                                                       ("Ts", "Tsd"), (S1, None)):
        pat = patterns[pn]
        members = []
        for j, key in enumerate(keys):
            t = [x * US for x in pat[j % len(pat)]]
            members.append([key, kind, t, [[0.5, -2.25, 1e-300, 1e300, 7.125, -0.0][(i + j) % 6] for i in range(len(t))]])
        for mt, meta in (("none", []), ("fraction_nan_cells", [[n, k, [rng.randrange(-5, 50) for _ in keys]] for n, k in META_X])):
            if sup is None and mt != "none" and kind == "Ts":
                continue
            specs.append(({"cls": "TsGroup", "members": members, "sup": None if sup is None else [[a * US, b * US] for a, b in sup], "meta": meta},
                          {"keys": kn, "pattern": pn, "members": kind, "sup": "default" if sup is None else "1_intervals", "meta": mt,
                           "data": "fraction"}))
    for sup in (S1, S2):
        specs.append(({"cls": "TsGroup", "members": [], "sup": [[a * US, b * US] for a, b in sup], "meta": []},
                      {"keys": "no_members", "pattern": "no_members", "members": "none", "sup": "%d_intervals" % len(sup), "meta": "none"}))
    return specs


def outside_specs():
    """objects OUTSIDE the statement's quantifier: only the model/implementation correspondence is checked on them"""
    sup = [[0, 40 * US]]
    t = [0, 3 * US, 10 * US]
    return [
        ({"cls": "TsdFrame", "t": t, "d": [1, 2, 3, 4, 5, 6], "ncols": 2, "dtype": "int64", "cols": [1, "s3"], "sup": sup, "meta": []}, {"outside": "mixed_labels"}),
        ({"cls": "TsGroup", "members": [[1, "Tsd", t, [None, None, None]], [4, "Tsd", t[:2], [None, None]]], "sup": sup, "meta": []}, {"outside": "all_nan_data"}),
        ({"cls": "TsGroup", "members": [[1, "Tsd", t, [5, None, 7]], [4, "Tsd", [], []]], "sup": sup, "meta": []}, {"outside": "some_nan_data"}),
        ({"cls": "TsGroup", "members": [[1, "Tsd", t, [5, 6, 7]], [4, "Ts", t[1:], [0, 0]], [9, "Ts", [], []]], "sup": sup, "meta": [["m0", "int", [1, 2, 3]]]}, {"outside": "mixed_Ts_Tsd_members"}),
    ]


def random_specs(rng, n, big):
    out = []
    for _ in range(n):
        cls = rng.choice(["Ts", "Tsd", "TsdFrame", "TsdTensor", "IntervalSet", "TsGroup", "TsGroup"])
        m = rng.randint(1, 4)
        pts = sorted(rng.sample(range(0, 10 ** 9), 2 * m))
        sup = [[pts[2 * i], pts[2 * i + 1]] for i in range(m)]
        def times(k, distinct):
            xs = []
            for _ in range(k):
                a, b = rng.choice(sup)
                xs.append(rng.choice([a, b, rng.randint(a, b)]))
            xs = sorted(set(xs)) if distinct else sorted(xs)
            return xs
        n_s = rng.randint(2, 300 if big else 30)
        mt = rng.choice(list(METAS))
        v = {"random": True}
        if cls == "Ts":
            out.append(({"cls": "Ts", "t": times(n_s, False), "sup": sup}, v))
        elif cls == "Tsd":
            t = times(n_s, False)
            dt = rng.choice(["int64", "float64"])
            d = [rng.randint(-1000, 1000) for _ in t]
            if dt == "float64" and rng.random() < 0.4:
                d = [rng.choice([rng.uniform(-5, 5), "nan", u]) for u in d]
            out.append(({"cls": "Tsd", "t": t, "d": d, "dtype": dt, "sup": sup}, v))
        elif cls == "TsdTensor":
            t = times(min(n_s, 40), False)
            shape = rng.choice([[2, 2], [3, 1, 2], [1, 1]])
            out.append(({"cls": "TsdTensor", "t": t, "d": [rng.randint(-9, 9) for _ in range(len(t) * int(np.prod(shape)))], "shape": shape,
                         "dtype": rng.choice(["int64", "float64"]), "sup": sup}, v))
        elif cls == "TsdFrame":
            t = times(min(n_s, 60), False)
            nc = rng.randint(1, 5)
            cols = rng.choice([None, rng.sample(range(-20, 20), nc), ["s%d" % c for c in rng.sample(range(50), nc)],
                               [rng.randrange(0, 3) for _ in range(nc)], ["s%d" % rng.randrange(0, 3) for _ in range(nc)]])   # the last two: labels may repeat
            out.append(({"cls": "TsdFrame", "t": t, "d": [rng.randint(-99, 99) for _ in range(len(t) * nc)], "ncols": nc,
                         "dtype": rng.choice(["int64", "float64"]), "cols": cols, "sup": sup, "meta": _mk_meta(mt, nc, rng)}, v))
        elif cls == "IntervalSet":
            out.append(({"cls": "IntervalSet", "iv": sup, "meta": _mk_meta(mt, m, rng)}, v))
        else:
            nk = rng.randint(1, 6)
            keys = rng.sample(range(-10, 60), nk)
            kind = rng.choice(["Ts", "Tsd"])
            members = []
            for key in keys:
                t = [] if rng.random() < 0.2 else times(rng.randint(1, 80 if big else 12), kind == "Tsd")
                members.append([key, kind, t, [rng.randint(-500, 500) for _ in t]])
            if kind == "Tsd" and all(len(mm[2]) == 0 for mm in members):
                members[0][2], members[0][3] = [sup[0][0]], [1]
            out.append(({"cls": "TsGroup", "members": members, "sup": sup, "meta": _mk_meta(mt, nk, rng)}, dict(v, members=kind)))
    return out


# ---------------------------------------------------------------------------------------------- running one case
def flags(nap, sp, x):
    """the fields of a violation key that describe the INPUT (each names one precise trigger of a recorded finding)"""
    f = {"cls": sp["cls"]}
    if sp["cls"] in ("Ts", "Tsd", "TsdTensor", "TsdFrame"):
        # samples present, all at one instant, no time support passed: the constructor's default support is empty and the samples lie outside it
        f["zero_span_default_support"] = bool(sp.get("sup") is None and len(x) > 0 and len(set(sp["t"])) == 1 and len(x.time_support) == 0)
    if sp["cls"] == "TsdFrame":
        cols = list(x.columns)
        f["repeated_labels"] = bool(len(set(cols)) < len(cols))
        f["has_metadata"] = bool(len(x._metadata.columns) > 0)
    if sp["cls"] == "TsGroup":
        kinds = set(m[1] for m in sp["members"])
        f["members"] = "Tsd" if kinds == {"Tsd"} else "Ts" if kinds == {"Ts"} else "none"
        f["dup_times"] = bool(any(len(set(x[k].t.tolist())) < len(x[k]) for k in x.keys()))
        f["all_members_empty"] = bool(len(x) > 0 and all(len(x[k]) == 0 for k in x.keys()))
    return f


def roundtrip(nap, x, d, via):
    from pynapple.io.folder import Folder
    from pynapple.io.interface_npz import NPZFile
    if via == "load_file":
        p = os.path.join(d, "obj.npz")
        x.save(p)
        with np.load(p, allow_pickle=True) as z:
            files = list(z.files)
        typ = NPZFile(p).type
        try:
            y = nap.load_file(p)
        except Exception as ex:                                                              # noqa: BLE001
            return ex, files, typ          # the file was written: the model is still asked what load does with it
        return y, files, typ
    f = Folder(d)
    f.save("viafolder", x)
    g = Folder(d)                      # a fresh Folder reads the file back (Folder.save caches the object itself)
    if via == "folder_overwrite":
        # the same LIVE folder: a first object saved and loaded under the name, then x saved over it and loaded again
        first = nap.Ts(np.array([1.0, 2.0, 3.0]))
        h = Folder(d)
        h.save("again", first)
        h.load()
        _ = h["again"]
        h.save("again", x)
        h.load()
        return h["again"], None, None
    return g["viafolder"], None, None


def run_case(nap, res, sp, var, d, lines, pending, use_oracle=True, overwrite=True):
    try:
        x = build(nap, sp)
    except Exception as ex:
        res.count("build_failed:" + type(ex).__name__)
        return
    last = None
    fl = flags(nap, sp, x)
    key = json.dumps([sp["cls"], var], sort_keys=True)
    nontrivial = len(x) > 0
    res.case(key, nontrivial=nontrivial)
    res.count(sp["cls"])
    if not nontrivial:
        res.count("empty_objects")
    desc_x = describe(nap, x)
    for via in ("load_file", "folder", "folder_overwrite") if overwrite else ("load_file", "folder"):
        shutil.rmtree(d, ignore_errors=True)
        os.makedirs(d)
        files = typ = None
        try:
            y, files, typ = roundtrip(nap, x, d, via)
            ex = y if isinstance(y, Exception) else None
        except Exception as e:                                                               # noqa: BLE001
            ex = e
        if ex is not None:
            if use_oracle:
                res.violations.append({"key": dict(fl, part="exception", via=via, exception=type(ex).__name__),
                                       "what": "save/load raised %s: %s" % (type(ex).__name__, str(ex)[:200]),
                                       "input": sp, "impl": type(ex).__name__, "expected": "an equal " + sp["cls"]})
            bad, desc_y, env = [("exception", "", {})], "none", False
        else:
            last = y
            bad = oracle(nap, x, y) if use_oracle else []
            for part, msg, detail in bad[:3]:
                res.violations.append({"key": dict(fl, part=part, via=via, **detail), "what": "loaded object differs from the saved one in %s: %s" % (part, msg[:300]),
                                       "input": sp, "impl": describe(nap, y), "expected": desc_x})
            desc_y, env = describe(nap, y), (envelope_ok(nap, x, y) if sp["cls"] == "TsGroup" else True)
        if via == "load_file" and files is not None:
            ml = model_line(nap, x) if representable(nap, x) else None
            if ml is not None:
                lines.append(ml)
                pending.append((sp, fl, desc_x, desc_y, files, typ, bool(bad), env))
            else:
                res.count("impl_only(cells or dtype outside the model's: NaN / inf / fractional data, int32 / float32)")
    if len(res.samples) < 4 and nontrivial and last is not None and (res.evaluations % 97 == 1):
        res.sample({"spec": sp, "loaded": describe(nap, last)})


def compare_model(res, lines, pending):
    out = C.run_model(lines, driver="driver_c11") if lines else []
    for (sp, fl, desc_x, desc_y, files, typ, violated, env), o in zip(pending, out):
        parts = o.split("#")
        if len(parts) != 3:
            res.disagreements.append({"op": "roundtrip", "input": sp, "model": o, "impl": desc_y})
            continue
        mdesc, mkeys, mtype = parts
        res.traces += 1
        if mkeys.split(",") != files:
            res.disagreements.append({"op": "keys_written", "input": sp, "model": mkeys, "impl": ",".join(files)})
        if mtype != typ:
            res.disagreements.append({"op": "type_detected", "input": sp, "model": mtype, "impl": typ})
        if mdesc != desc_y:
            if fl.get("dup_times") and fl.get("members") == "Tsd" and env and mdesc == desc_x:
                # ties in np.argsort: the implementation returned another legal order than the model's stable instance
                res.count("tie_order_other_than_stable(within np.argsort's contract)")
                continue
            res.disagreements.append({"op": "roundtrip", "input": sp, "model": mdesc, "impl": desc_y})


def tables_check(res):
    """the generated tables are current, the table theorems compute to true in the extracted model, and gen_c11 parses"""
    gen = os.path.join(C.HOME, "tools", "gen_c11.py")
    p = subprocess.run(["/venv/bin/python", gen, "--check"], stdout=subprocess.PIPE, stderr=subprocess.STDOUT, text=True, timeout=120)
    res.extra["sites_table"] = p.stdout.strip()[-300:]
    if p.returncode != 0:
        res.disagreements.append({"op": "generated_tables", "what": "coq/Gen/SitesC11.v is not what tools/gen_c11.py reads from /repo now (translator tie broken)",
                                  "detail": p.stdout[-400:]})
    o = C.run_model(["tables"], driver="driver_c11")[0].split("|")
    res.extra["table_checks(keys_cover,kwargs_ok,group_keys_known,type_written)"] = o[:4]
    if o[:4] != ["1", "1", "1", "1"]:
        res.disagreements.append({"op": "table_checks", "model": o[:4], "what": "a generated-table check is false"})
    try:
        j = subprocess.run(["/venv/bin/python", gen, "--json"], stdout=subprocess.PIPE, stderr=subprocess.PIPE, text=True, timeout=120)
        res.extra["source_hashes"] = json.loads(j.stdout)["hashes"] if j.returncode == 0 else j.stderr[-300:]
    except Exception as ex:                                                                # noqa: BLE001
        res.extra["source_hashes"] = "unavailable: %s" % ex


def run(res, tier, seed):
    nap = _nap()
    warnings.simplefilter("ignore")
    rng = random.Random(seed * 11 + 3)
    res.rule = ("every class x content variant, COMPLETE over the product: Ts/Tsd/TsdTensor/TsdFrame x {empty, one sample, samples on interval starts/ends, "
                "duplicate timestamps, several samples at one instant, distinct nanoseconds} x {default support (INCLUDING the empty default support of a "
                "zero-span series), 1-, 2-, 3-interval support} x dtypes {int64,float64,bool,int32,float32} x data {integer-valued, NaN / +-inf / fractions} x "
                "tensor shapes x frame {default / unsorted int / str labels / REPEATED int or str labels, 0/1/2/3 columns} x metadata {none,int,float,str,"
                "mixed, fractional+NaN cells}; IntervalSet {0,1,2,3 intervals} x metadata; TsGroup {Ts, Tsd members} x keys {contiguous, unsorted non-"
                "contiguous, negative, str/float keys, single, no members} x {all non-empty, shared timestamps across members, empty member (first / middle), "
                "all empty, duplicate timestamps inside a member} x {1,2-interval support, no support passed} x metadata x member data {integers, fractions}; "
                "each through save -> nap.load_file and Folder.save -> fresh Folder[name], and (thorough tier: every case; quick tier: every third structured "
                "case and every random one) overwrite in a live Folder; plus seeded random larger objects "
                "(random frames may repeat labels, random Tsd may hold NaN / fractions). "
                "oracle = same class, equal timestamps / data (NaN = NaN) / dtype / support / columns / keys / member classes / member supports / metadata "
                "(incl. rate); an exception on save or load is a violation. The model is also asked about files the implementation fails to load (it must "
                "answer `none`). non-trivial = the object is not empty")
    res.exhaustive = True
    base = os.path.join(SCRATCH, "%d" % os.getpid())
    shutil.rmtree(base, ignore_errors=True)
    os.makedirs(base)
    lines, pending = [], []
    try:
        tables_check(res)
        specs = structured_specs(rng)
        res.count("structured_cases", len(specs))
        nrand = 150 if tier == "quick" else 6000
        specs += random_specs(rng, nrand, big=(tier != "quick"))
        res.count("random_cases", nrand)
        for n, (sp, var) in enumerate(specs):
            # the overwrite-in-a-live-Folder route exercises Folder's cache, not the content variant: quick tier runs it on every third
            # structured case (every class and variant family still meets it) and on all random cases; thorough tier on every case
            run_case(nap, res, sp, dict(var, n=n) if var.get("random") else var, os.path.join(base, "c"), lines, pending,
                     overwrite=(tier != "quick" or bool(var.get("random")) or n % 3 == 0))
        for sp, var in outside_specs():
            res.count("outside_quantifier_correspondence_only")
            run_case(nap, res, sp, var, os.path.join(base, "c"), lines, pending, use_oracle=False)
        compare_model(res, lines, pending)
    finally:
        shutil.rmtree(base, ignore_errors=True)
        try:
            os.rmdir(SCRATCH)
        except OSError:
            pass


def search(res, seed):
    r2 = C.Result()
    run(r2, "thorough", seed)
    new = [v for v in r2.violations if C.match_known("C11", v) is None]
    return new[0] if new else (r2.violations[0] if r2.violations else None)


def replay(payload):
    nap = _nap()
    warnings.simplefilter("ignore")
    v = payload.get("violation") or (payload.get("disagreements") or [{}])[0]
    sp = v.get("input")
    if not isinstance(sp, dict) or "cls" not in sp:
        print("nothing to replay in this file:", json.dumps(payload)[:400])
        return 1
    base = os.path.join(SCRATCH, "replay%d" % os.getpid())
    shutil.rmtree(base, ignore_errors=True)
    os.makedirs(base)
    rc = 0
    try:
        x = build(nap, sp)
        print("saved   :", describe(nap, x))
        for via in ("load_file", "folder", "folder_overwrite"):
            d = os.path.join(base, via)
            os.makedirs(d)
            try:
                y, _, _ = roundtrip(nap, x, d, via)
                if isinstance(y, Exception):
                    raise y
            except Exception as ex:
                print("%-9s: raised %s: %s" % (via, type(ex).__name__, ex))
                rc = 1
                continue
            bad = oracle(nap, x, y)
            print("%-9s: %s" % (via, describe(nap, y)))
            for part, msg, detail in bad:
                print("   differs in %s: %s %s" % (part, msg, detail or ""))
                rc = 1
    finally:
        shutil.rmtree(base, ignore_errors=True)
        try:
            os.rmdir(SCRATCH)
        except OSError:
            pass
    print("round trip", "HOLDS" if rc == 0 else "FAILS")
    return rc
