"""C11 save followed by load_file returns an equal object (six classes, load_file and Folder)."""
import itertools
import json
import os
import random
import shutil
import subprocess
import tempfile
import warnings

import numpy as np

import common as C

LEVEL = "proof"
DRIVERS = ["driver_c11"]
TRUSTED = ["model: coq/Model/Npz.v (file = key/value list; save over the generated writer tables, load = NPZFile type detection + the three "
           "_from_npz_reader over the generated reader tables; constructors re-entered on load are Model/Iset.mk_iset and Model/Restrict); "
           "theorems: Proofs/NpzProofs.v",
           "translator tools/gen_c11.py (Python ast) -> coq/Gen/SitesC11.v: trusted to list the np.savez keywords / dicttosave stores and the "
           "file[...] reads of the source; cross-checked on every run against the member names of really written .npz files",
           "np.savez / np.load (zip container, pickling of the metadata dict) and pandas DataFrame.to_dict / from_dict are not modelled beyond the "
           "key -> value map and `column -> {index label -> cell}`; exercised by the real round trips only",
           "PARTIAL (TsGroup): np.argsort is a Section variable with NumPy's contract (permutation of the positions that sorts) as visible "
           "premises of C11_roundtrip_tsgroup_*_partial; a stable insertion argsort satisfies them (C11_argsort_contract_satisfiable)"]
ASSUMPTIONS = ["objects are built through the public constructors (sorted timestamps, canonical support, one row per sample, an empty series has an "
               "empty support). Series whose timestamps all coincide and that get the EMPTY default support (nap.Ts([5.])) ARE generated and checked "
               "against the statement (they lose every sample: known finding, Coq witness C11_zero_span_default_support_refuted)",
               "data cells of the model are integers: objects holding NaN / inf / fractional data or fractional / NaN metadata cells are run through the "
               "implementation and the oracle only (counted as impl_only), the model correspondence covers integer-valued cells",
               "metadata columns are int, float or str; column labels are all int or all str (mixed labels are cast to str on save: outside the quantifier); "
               "REPEATED column labels are inside the quantifier and generated (with metadata the load raises: known finding, Coq witness "
               "C11_tsdframe_duplicate_labels_refuted)",
               "TsGroup members are all Ts or all Tsd with finite data; members are built as float64 (the dtype of a member is not named by the statement: "
               "an int64 member comes back float64)",
               "WIDENED argument forms (families time_forms, data_dtypes, frame_labels_metadata, intervalset_forms, tsgroup_forms, degenerate_support, histories, "
               "routes): only forms the documented signatures accept are generated - a pandas Series passed as `t` of Ts / Tsd means index = times, values = "
               "data (generated as that: Tsd from a Series), raw member arrays of a TsGroup are lists / array-likes (a tuple is refused by the constructor), an "
               "IntervalSet passed as `start` gives its intervals (not its metadata), the extra columns of a DataFrame passed as `start` are the metadata, ms / us "
               "floats lie on the microsecond lattice, integer-dtype time arrays hold whole units; a constructor that raises on one of these forms is reported "
               "(part build_exception)",
               "group members of float32 / float16 / int / uint / bool data ARE generated (widening): their values are compared exactly (Python int against "
               "float), so integer member data that float64 cannot represent is a reported violation (flag member_int_not_a_float64); series built from samples "
               "that ALL lie outside the time support passed to the constructor (an empty object that keeps a non-empty support) are generated and checked "
               "against the statement (flag empty_series_keeps_nonempty_support); integer column labels held in an object-dtype Index are generated (flag "
               "int_labels_in_object_index)",
               "model comparison (widened cases): the extracted model is asked only about objects whose cells it can hold - integer-valued data and metadata cells "
               "with |v| <= 2**53, metadata strings of the form s<int>, no bool metadata, labels that are integers in an integer Index / s<int> / digit strings, "
               "dtypes int64 / float64 / bool; every other object is run through the implementation and the statement oracle only (counted impl_only)"]

NAN = -1000000007
SCRATCH = os.path.join(C.CACHE, "c11_scratch")
DT = {"int64": 0, "float64": 1, "bool": 2}


def _nap():
    import pynapple as nap
    return nap


# ---------------------------------------------------------------------------------------------- building objects from specs
def _arr(ticks):
    return np.asarray(ticks, dtype=np.float64) / 1e9 if len(ticks) else np.array([], dtype=np.float64)


def _iset(nap, sup):
    return nap.IntervalSet(_arr([s for s, _ in sup]), _arr([e for _, e in sup]))


def _meta_dict(meta):
    out = {}
    for name, kind, vals in meta or []:
        if kind == "int":
            out[name] = np.array(vals, dtype=np.int64)
        elif kind == "float":
            out[name] = np.array(vals, dtype=np.float64)
        elif kind == "floatx":                                   # fractional cells and a NaN
            out[name] = np.array([np.nan if i == 0 else v + 0.5 for i, v in enumerate(vals)], dtype=np.float64)
        elif kind in ("int32", "int16", "int8", "uint8", "uint16", "uint32", "uint64", "float32", "float16"):   # widened: every numeric cell dtype
            out[name] = np.array([abs(v) if kind[0] == "u" else v for v in vals], dtype=kind)
        elif kind == "uint64big":                                # cells beyond int64
            out[name] = np.array([2 ** 63 + abs(v) for v in vals], dtype=np.uint64)
        elif kind == "bool":
            out[name] = np.array([v % 2 == 0 for v in vals], dtype=bool)
        elif kind == "intlist":                                  # a plain Python list of Python ints
            out[name] = [int(v) for v in vals]
        elif kind == "floattuple":
            out[name] = tuple(float(v) + 0.25 for v in vals)
        elif kind == "strlist":
            out[name] = ["s%d" % v for v in vals]
        elif kind == "strU":                                     # numpy unicode array (cells of different lengths)
            out[name] = np.array(["s%d" % v for v in vals], dtype=str)
        elif kind == "strtext":                                  # free text: spaces, a non-ASCII letter, a numeric-looking string
            out[name] = np.array([["left foot", "10", "caf\u00e9", ""][(v + i) % 4] for i, v in enumerate(vals)], dtype=object)
        else:
            out[name] = np.array(["s%d" % v for v in vals], dtype=object)
    return out


def _num(v):
    """a data cell of a spec: a number, or one of the strings "nan", "inf", "-inf", or a complex literal "(1+2j)" (specs stay strict JSON)"""
    if isinstance(v, str):
        return complex(v) if "j" in v else float(v)
    return v


def build(nap, sp):
    """spec (JSON-able dict) -> pynapple object, through the public constructors only"""
    cls = sp["cls"]
    if sp.get("form"):
        return build_form(nap, sp)
    if "d" in sp:
        sp = dict(sp, d=[_num(v) for v in sp["d"]])
    sup = _iset(nap, sp["sup"]) if sp.get("sup") is not None else None
    if cls == "Ts":
        return nap.Ts(_arr(sp["t"]), time_support=sup)
    if cls == "Tsd":
        return nap.Tsd(_arr(sp["t"]), np.array(sp["d"], dtype=sp["dtype"]), time_support=sup)
    if cls == "TsdTensor":
        d = np.array(sp["d"], dtype=sp["dtype"]).reshape((len(sp["t"]),) + tuple(sp["shape"]))
        return nap.TsdTensor(_arr(sp["t"]), d, time_support=sup)
    if cls == "TsdFrame":
        d = np.array(sp["d"], dtype=sp["dtype"]).reshape((len(sp["t"]), sp["ncols"]))
        kw = {}
        if sp.get("cols") is not None:
            kw["columns"] = sp["cols"]
        md = _meta_dict(sp.get("meta"))
        if md:
            kw["metadata"] = md
        return nap.TsdFrame(_arr(sp["t"]), d, time_support=sup, **kw)
    if cls == "IntervalSet":
        md = _meta_dict(sp.get("meta"))
        iv = sp["iv"]
        return nap.IntervalSet(_arr([s for s, _ in iv]), _arr([e for _, e in iv]), metadata=md if md else None)
    if cls == "TsGroup":
        data = {}
        for key, kind, t, d in sp["members"]:
            d = [np.nan if v is None else _num(v) for v in d]    # None = NaN (only in the outside-the-quantifier cases)
            # members get the group's support explicitly (a single sample would otherwise get an empty default support); with "sup": null the
            # members keep their default supports and the group takes their union
            data[key] = nap.Ts(_arr(t), time_support=sup) if kind == "Ts" else nap.Tsd(_arr(t), np.array(d, dtype=np.float64), time_support=sup)
        g = nap.TsGroup(data, time_support=sup)
        md = _meta_dict(sp.get("meta"))       # cells are given in SORTED KEY order
        if md:
            g.set_info(**md)
        return g
    raise ValueError(cls)


# ---------------------------------------------------------------------------------------------- the same objects in other ARGUMENT FORMS
# A spec may carry "form": {...}: the SAME instants / data / labels / metadata handed to the public constructors in another form (container type,
# dtype of the time array, time units, positional / keyword style, way of attaching metadata), optionally followed by a history ("hist": an operation
# whose result is the object that gets saved). The spec without "form" is the canonical form of the same logical object.
UNIT = {"s": 1e9, "ms": 1e6, "us": 1e3}
_KEEP = []              # live helper objects whose arrays are shared with the built object (kept alive for the duration of the run)


def _scaled(ticks, units):
    return np.asarray(ticks, dtype=np.float64) / UNIT[units] if len(ticks) else np.array([], dtype=np.float64)


def _time_arg(nap, ticks, tf, units):
    """the instants `ticks` as a time argument of form tf -> (argument, time_units)"""
    import pandas as pd
    if tf.endswith("_us"):                                   # integer-dtype array of microseconds (signed / unsigned)
        return np.array([x // 1000 for x in ticks], dtype=tf[:-3]), "us"
    if tf.endswith("_ms"):
        return np.array([x // 10 ** 6 for x in ticks], dtype=tf[:-3]), "ms"
    if tf.endswith("_s"):                                    # integer-dtype array / Python ints of whole seconds
        whole = [x // 10 ** 9 for x in ticks]
        return (whole if tf == "pyint_s" else np.array(whole, dtype=tf[:-2])), "s"
    a = _scaled(ticks, units)
    if tf == "list":
        return a.tolist(), units
    if tf == "tuple":
        return tuple(a.tolist()), units
    if tf == "series":
        return pd.Series(a), units
    if tf == "pdindex":
        return pd.Index(a, dtype=np.float64), units
    if tf in ("tsindex", "t_attr"):                          # another live object's TsIndex / its .t array (memory shared with that object)
        other = nap.Ts(a, time_units=units)
        _KEEP.append(other)
        return (other.index if tf == "tsindex" else other.t), "s"
    if tf == "view":                                         # non-contiguous view into a larger array
        big = np.repeat(a, 2)
        _KEEP.append(big)
        return big[::2], units
    if tf == "readonly":
        a = a.copy()
        a.flags.writeable = False
        return a, units
    if tf == "scalar_float":
        return float(a[0]), units
    if tf == "scalar_np":
        return np.float64(a[0]), units
    if tf == "scalar_int":                                   # a Python int instead of a float (whole units)
        return int(round(a[0])), units
    if tf == "scalar_npint":
        return np.int64(round(a[0])), units
    return a, units


def _iset_arg(nap, iv, sf, metadata=None):
    """the intervals iv (ticks) as an IntervalSet built from the argument form sf"""
    import pandas as pd
    s, e = [a for a, _ in iv], [b for _, b in iv]
    md = {} if metadata is None else {"metadata": metadata}
    if sf in ("ms", "us"):
        return nap.IntervalSet(_scaled(s, sf), _scaled(e, sf), time_units=sf, **md)
    if sf == "positional_units":
        return nap.IntervalSet(_scaled(s, "ms"), _scaled(e, "ms"), "ms", metadata)
    if sf.endswith("_us") or sf.endswith("_s") or sf.endswith("_ms"):
        (sa, u), (ea, _) = _time_arg(nap, s, sf, "s"), _time_arg(nap, e, sf, "s")
        return nap.IntervalSet(sa, ea, time_units=u, **md)
    if sf in ("list", "tuple", "series", "pdindex", "view", "readonly", "scalar_float", "scalar_np", "scalar_int", "scalar_npint"):
        return nap.IntervalSet(_time_arg(nap, s, sf, "s")[0], _time_arg(nap, e, sf, "s")[0], **md)
    if sf == "mixed":                                        # a list of starts and an array of ends
        return nap.IntervalSet(_arr(s).tolist(), _arr(e), **md)
    if sf == "kw":
        return nap.IntervalSet(start=_arr(s), end=_arr(e), time_units="s", **md)
    if sf == "array2d":
        return nap.IntervalSet(np.stack([_arr(s), _arr(e)], axis=1), **md)
    if sf == "dataframe":                                    # the other columns of the DataFrame are the metadata (documented)
        df = pd.DataFrame({"start": _arr(s), "end": _arr(e)})
        if metadata is not None:
            for k in (metadata.columns if isinstance(metadata, pd.DataFrame) else metadata):
                df[k] = np.asarray(metadata[k])
        return nap.IntervalSet(df)
    if sf == "iset_of_iset":                                 # an IntervalSet as start: its intervals are taken (not its metadata)
        return nap.IntervalSet(nap.IntervalSet(_arr(s), _arr(e)), **md)
    if sf == "unsorted_overlapping":                         # starts / ends given so that the constructor has to sort and merge them into iv
        return nap.IntervalSet(_arr(s[::-1]), _arr(e[::-1]), **md)
    if sf == "support_of_series":                            # the time_support attribute of a live series
        other = nap.Ts(_arr(sorted(set(s + e))), time_support=nap.IntervalSet(_arr(s), _arr(e)))
        _KEEP.append(other)
        return other.time_support
    return nap.IntervalSet(_arr(s), _arr(e), **md)


def _data_arg(d, df):
    """the data array d in the container form df -> (argument, extra constructor keywords)"""
    if df == "list":
        return d.tolist(), {}
    if df == "fortran":
        return np.asfortranarray(d), {}
    if df == "view":                                         # non-contiguous view into a larger array (shares memory with it)
        big = np.repeat(d, 2, axis=0)
        _KEEP.append(big)
        return big[::2], {}
    if df == "readonly":
        d = d.copy()
        d.flags.writeable = False
        return d, {}
    if df == "memmap_lazy":                                  # an array-like that is not loaded at construction (load_array=False)
        mm = np.memmap(tempfile.TemporaryFile(), dtype=d.dtype, mode="w+", shape=d.shape)
        mm[...] = d
        _KEEP.append(mm)
        return mm, {"load_array": False}
    return d, {}


def _cols_arg(cols, cf):
    import pandas as pd
    if cols is None or cf in (None, "list"):
        return cols
    if cf == "tuple":
        return tuple(cols)
    if cf == "ndarray":
        return np.array(cols)
    if cf in ("int32", "int16", "uint8", "uint64"):
        return np.array(cols, dtype=cf)
    if cf == "pdindex":
        return pd.Index(cols)
    if cf == "object_index":                                 # the labels held in an object-dtype Index (what selecting columns of a mixed-label frame gives)
        return pd.Index(cols, dtype=object)
    raise ValueError(cf)


def _attach_meta(nap, x, md, how):
    """attach the metadata dict md to the built object x in the way `how` (the ways set_info documents)"""
    import pandas as pd
    if not md:
        return x
    if how == "set_info_kwargs":
        x.set_info(**md)
    elif how == "set_info_dict":
        x.set_info(md)
    elif how == "set_info_dataframe":
        x.set_info(pd.DataFrame({k: np.asarray(v) for k, v in md.items()}, index=x._metadata.index))
    elif how == "set_info_series":
        x.set_info(**{k: pd.Series(np.asarray(v), index=x._metadata.index) for k, v in md.items()})
    elif how == "setitem":
        for k, v in md.items():
            x[k] = v
    elif how == "attr":
        for k, v in md.items():
            setattr(x, k, v)
    else:
        raise ValueError(how)
    return x


CTOR_META = ("ctor", "ctor_dataframe")


def _ctor_meta(md, how, index):
    import pandas as pd
    if not md or how not in CTOR_META:
        return None
    return md if how == "ctor" else pd.DataFrame({k: np.asarray(v) for k, v in md.items()}, index=index)


def _call(cls, style, t, d, units, sup, extra):
    """cls(...) with the arguments all positional, all keyword, or in the usual mix (t, d positional, the rest by keyword at non-default values only)"""
    if style == "kw":
        kw = dict(t=t, time_units=units, time_support=sup, **extra)
        if d is not None:
            kw["d"] = d
        return cls(**kw)
    if style == "pos" and not extra:
        return cls(t, units, sup) if d is None else cls(t, d, units, sup)
    kw = dict(extra)
    if units != "s":
        kw["time_units"] = units
    if style == "explicit_defaults":                         # optional parameters given at their documented defaults
        kw.setdefault("time_units", "s")
        if d is not None:
            kw.setdefault("load_array", True)
    return cls(t, time_support=sup, **kw) if d is None else cls(t, d, time_support=sup, **kw)


def build_form(nap, sp):
    import pandas as pd
    f = sp["form"]
    x = _build_form(nap, sp, f, pd)
    for h in f.get("hist") or []:
        x = _history(nap, x, h, sp)
    return x


def _build_form(nap, sp, f, pd):
    cls = sp["cls"]
    units, tf, style = f.get("units", "s"), f.get("t", "ndarray"), f.get("style", "mix")
    mhow = f.get("meta", "ctor")
    if cls == "IntervalSet":
        md = _meta_dict(sp.get("meta"))
        x = _iset_arg(nap, sp["iv"], f.get("iv", "arrays"), metadata=_ctor_meta(md, mhow, pd.RangeIndex(len(sp["iv"]))))
        return x if mhow in CTOR_META else _attach_meta(nap, x, md, mhow)
    sup = _iset_arg(nap, sp["sup"], f.get("sup", "arrays")) if sp.get("sup") is not None else None
    if cls == "TsGroup":
        mdt = f.get("member_dtype", "float64")
        mform = f.get("members", "objects")
        data = {}
        for key, kind, t, d in sp["members"]:
            ta, u = _time_arg(nap, t, tf, units)
            kf = f.get("keys", "int")
            key = {"int": lambda k: k, "npint64": np.int64, "npint32": np.int32, "str": str, "float": float}[kf](key)
            if mform == "arrays":                            # raw time arrays instead of Ts objects (the group builds the Ts, with the group's time_units)
                data[key] = ta
            elif kind == "Ts":
                data[key] = _call(nap.Ts, style, ta, None, u, sup if f.get("member_sup", True) else None, {})
            else:
                data[key] = _call(nap.Tsd, style, ta, np.array([_num(v) for v in d], dtype=mdt), u, sup if f.get("member_sup", True) else None, {})
        arg = list(data.values()) if f.get("container") == "list" else data
        md = _meta_dict(sp.get("meta"))
        kw = {}
        if mform == "arrays" and units != "s":
            kw["time_units"] = units
        if f.get("bypass_check"):
            kw["bypass_check"] = True
        if md and mhow == "ctor":
            kw["metadata"] = md
        elif md and mhow == "ctor_dataframe":
            kw["metadata"] = pd.DataFrame({k: np.asarray(v) for k, v in md.items()}, index=sorted(int(float(k)) for k in data))
        elif md and mhow == "ctor_kwargs":
            kw.update(md)
        if style == "pos":
            g = nap.TsGroup(arg, sup, kw.pop("time_units", "s"), kw.pop("bypass_check", False), kw.pop("metadata", None), **kw)
        elif style == "kw":
            g = nap.TsGroup(data=arg, time_support=sup, **kw)
        else:
            g = nap.TsGroup(arg, time_support=sup, **kw)
        return g if (not md or mhow in CTOR_META + ("ctor_kwargs",)) else _attach_meta(nap, g, md, mhow)
    ta, u = _time_arg(nap, sp["t"], tf, units)
    if cls == "Ts":
        return _call(nap.Ts, style, ta, None, u, sup, {})
    d = np.array([_num(v) for v in sp["d"]], dtype=sp["dtype"])
    if cls == "Tsd":
        if f.get("d") == "series":                           # a pandas Series: index = times, values = data
            return nap.Tsd(pd.Series(d, index=_scaled(sp["t"], units)), time_units=units, time_support=sup)
        da, extra = _data_arg(d, f.get("d", "ndarray"))
        return _call(nap.Tsd, style, ta, da, u, sup, extra)
    if cls == "TsdTensor":
        da, extra = _data_arg(d.reshape((len(sp["t"]),) + tuple(sp["shape"])), f.get("d", "ndarray"))
        return _call(nap.TsdTensor, style, ta, da, u, sup, extra)
    if cls == "TsdFrame":
        d = d.reshape((len(sp["t"]), sp["ncols"]))
        md = _meta_dict(sp.get("meta"))
        cols = _cols_arg(sp.get("cols"), f.get("cols"))
        labels = cols if cols is not None else np.arange(sp["ncols"])
        extra = {}
        if md and mhow in CTOR_META:
            extra["metadata"] = _ctor_meta(md, mhow, pd.Index(labels))
        if f.get("d") == "dataframe":                        # a pandas DataFrame: index = times, columns = labels
            df = pd.DataFrame(d, index=_scaled(sp["t"], units), columns=labels)
            x = nap.TsdFrame(df, time_units=units, time_support=sup, **extra)
        else:
            if cols is not None:
                extra["columns"] = cols
            da, ex2 = _data_arg(d, f.get("d", "ndarray"))
            if style == "pos":
                x = nap.TsdFrame(ta, da, u, sup, extra.get("columns"), ex2.get("load_array", True), extra.get("metadata"))
            else:
                x = _call(nap.TsdFrame, style, ta, da, u, sup, dict(extra, **ex2))
        return x if mhow in CTOR_META else _attach_meta(nap, x, md, mhow)
    raise ValueError(cls)


def _history(nap, x, h, sp):
    """one more step before the save: the object that is saved is the RESULT of a public operation on the built object"""
    if h == "reload":                                        # save + load_file: the saved object is itself a loaded one
        os.makedirs(SCRATCH, exist_ok=True)
        d = tempfile.mkdtemp(dir=SCRATCH)
        try:
            x.save(os.path.join(d, "first.npz"))
            return nap.load_file(os.path.join(d, "first.npz"))
        finally:
            shutil.rmtree(d, ignore_errors=True)
    if h == "copy":
        import copy
        return copy.deepcopy(x)
    if isinstance(x, nap.IntervalSet):
        n = len(x)
        if h == "slice":
            return x[1:] if n > 1 else x[0:]
        if h == "fancy":
            return x[[n - 1, 0]] if n > 1 else x[[0]]
        if h == "mask":
            return x[np.arange(n) % 2 == 0]
        if h == "intersect":
            return x.intersect(nap.IntervalSet(x.start[0] + 1e-6, x.end[-1] - 1e-6)) if n else x
        if h == "set_diff":
            return x.set_diff(nap.IntervalSet(x.start[0] + 1e-6, x.start[0] + 2e-6)) if n else x
        if h == "union":
            return x.union(nap.IntervalSet(x.end[-1] + 1.0, x.end[-1] + 2.0)) if n else x
        if h == "drop_short":
            return x.drop_short_intervals(1.5e-6)
        if h == "merge_close":
            return x.merge_close_intervals(1e-6)
        if h == "split":
            return x.split(2e-6)
        raise ValueError(h)
    if isinstance(x, nap.TsGroup):
        keys = list(x.keys())
        if h == "subset":
            return x[keys[::-1][:max(1, len(keys) - 1)]] if keys else x
        if h == "mask":
            return x[np.arange(len(keys)) % 2 == 0] if keys else x
        if h == "restrict":
            ep = x.time_support
            return x.restrict(nap.IntervalSet(ep.start[0] + 1e-6, ep.end[-1] - 1e-6))
        if h == "merge":
            off = (max(keys) + 3) if keys else 0
            other = nap.TsGroup({off: nap.Ts(np.array([x.time_support.start[0]]), time_support=x.time_support)} if not any(isinstance(x[k], nap.Tsd) for k in keys)
                                else {off: nap.Tsd(np.array([x.time_support.start[0]]), np.array([7.0]), time_support=x.time_support)},
                                time_support=x.time_support)
            return nap.TsGroup.merge_group(x, other, ignore_metadata=True)
        raise ValueError(h)
    n = len(x)
    if h == "slice":
        return x[1:n - 1] if n > 2 else x[0:n]
    if h == "step":
        return x[::2]
    if h == "fancy":                                         # non-monotone integer indexing
        return x[[i for i in (n - 1, 0, n // 2) if i < n]] if n else x[[]]
    if h == "mask":
        return x[np.arange(n) % 2 == 0]
    if h == "get":
        return x.get(x.t[0], x.t[-1]) if n else x
    if h == "restrict":
        ep = x.time_support
        return x.restrict(nap.IntervalSet(ep.start[0] + 1e-6, ep.end[-1] - 1e-6)) if len(ep) else x
    if h == "restrict_same":
        return x.restrict(x.time_support)
    if h == "arith":
        return x * 2 + 1
    if h == "neg":
        return -x
    if h == "npabs":
        return np.abs(x)
    if h == "npsqrt":                                        # NaN for the negative cells
        return np.sqrt(x)
    if h == "compare":                                       # boolean result
        return x > 0
    if h == "colsel":                                        # TsdFrame: columns picked in another order by position
        k = x.shape[1]
        return x[:, [k - 1, 0]] if k > 1 else x[:, [0]]
    if h == "loc":                                           # TsdFrame: columns picked in another order by label
        c = list(dict.fromkeys(x.columns))
        return x.loc[c[::-1][:max(1, len(c) - 1)]]
    if h == "column":                                        # TsdFrame -> Tsd / TsdTensor -> lower rank
        return x[:, 0]
    if h == "dropna":
        return x.dropna()
    if h == "bin_average":
        return x.bin_average(1e-5)
    if h == "to_tsgroup":
        return x.to_tsgroup()
    if h == "as_frame_int_labels_of_mixed":                  # integer labels selected out of a frame with mixed labels: they sit in an object-dtype Index
        k = x.shape[1]
        mixed = nap.TsdFrame(x.t, np.concatenate([x.values, x.values[:, :1]], axis=1), time_support=x.time_support,
                             columns=list(x.columns) + ["extra"])
        return mixed[:, list(range(k))]
    raise ValueError(h)


# ---------------------------------------------------------------------------------------------- canonical description (= driver_c11's)
def _ints(xs):
    return " ".join(str(int(x)) for x in xs)


def _ticks(a):
    return [C.to_ns(v) for v in np.asarray(a).ravel()]


def _sup(ep):
    return _ints(_ticks(ep.values))


def _enc_str(s):
    s = str(s)
    if len(s) >= 2 and s[0] == "s" and s[1:].lstrip("-").isdigit():
        return [1, int(s[1:])]
    if s.lstrip("-").isdigit():
        return [2, int(s)]
    return [3, len(s)]


def _enc_label(l):
    if isinstance(l, (int, np.integer)) and not isinstance(l, (bool, np.bool_)):
        return [0, int(l)]
    if isinstance(l, str):
        return _enc_str(l)
    return [9, 0]


def _enc_meta(df, skip=()):
    out = []
    for c in df.columns:
        if c in skip:
            continue
        name = int(c[1:]) if isinstance(c, str) and c[:1] == "m" and c[1:].isdigit() else -1
        col = df[c]
        out += [name, len(col)]
        k = col.dtype.kind
        for v in col.values:
            if k in "iu" and not isinstance(v, (bool, np.bool_)):
                out += [0, int(v)]
            elif k == "f":
                out += [1, int(v)] if np.isfinite(v) and float(v) == int(v) else [8, 0]
            elif isinstance(v, str):
                e = _enc_str(v)
                out += [2, e[1]] if e[0] == 1 else [3, 0]
            else:
                out += [7, 0]
    return _ints(out)


def _dtcode(dt):
    return DT.get(str(dt), 9)


def _cell(v):
    v = float(v)
    return str(int(v)) if np.isfinite(v) and v == int(v) else repr(v)


def _cells(v):
    return " ".join(_cell(u) for u in np.asarray(v).astype(np.float64).ravel())


def representable(nap, x):
    """the model's cells are integers (NaN only in group data): can this object be handed to driver_c11?"""
    def integral(a, nan_ok=False):
        a = np.asarray(a, dtype=np.float64).ravel()
        if nan_ok:
            a = a[~np.isnan(a)]
        return bool(np.all(np.isfinite(a)) and np.all(a == np.round(a)) and np.all(np.abs(a) <= 2.0 ** 53))     # the driver's cells are OCaml ints
    md = getattr(x, "_metadata", None)
    if md is not None:
        for c in md.columns:
            if c != "rate" and md[c].dtype.kind == "f" and not integral(md[c].values):
                return False
            # (widening) the model's metadata cells are integers, integer-valued floats and strings "s<int>"; its names are m<int>: bool cells, free
            # text, integers beyond 2**53 are run through the implementation and the statement oracle only
            if c != "rate" and (md[c].dtype.kind == "b" or (md[c].dtype.kind in "iu" and not integral(md[c].values.astype(np.float64)))
                                or any(isinstance(v, str) and _enc_str(v)[0] != 1 for v in md[c].values)
                                or any(isinstance(v, (bool, np.bool_)) for v in md[c].values)):
                return False
    if isinstance(x, nap.TsdFrame) and any(_enc_label(l)[0] in (3, 9) for l in x.columns):
        return False                        # labels the model knows: integers, "s<int>", digit strings
    if isinstance(x, nap.TsdFrame) and x.shape[1] > 0 and x.columns.dtype == np.dtype("O") and all(_enc_label(l)[0] == 0 for l in x.columns):
        return False                        # the model's integer labels live in an integer Index (an object-dtype Index of integers: implementation + oracle only)
    if isinstance(x, nap.TsGroup):
        return all(integral(x[k].values, nan_ok=True) for k in x.keys() if hasattr(x[k], "values"))
    if isinstance(x, nap.IntervalSet) or not hasattr(x, "values"):
        return True
    if np.asarray(x.values).dtype.kind == "c":
        return False
    return integral(x.values)


def describe(nap, x):
    if isinstance(x, nap.TsGroup):
        mem = []
        for k in x.keys():
            m = x[k]
            t = _ticks(m.t)
            if isinstance(m, nap.Ts):
                mem += [int(k), 0, len(t)] + t
            else:
                d = [NAN if np.isnan(v) else (int(v) if np.isfinite(v) and v == int(v) else repr(float(v))) for v in np.asarray(m.values, dtype=np.float64)]
                mem += [int(k), 1, len(t)] + t + d
        return "|".join(["TsGroup", _sup(x.time_support), " ".join(u if isinstance(u, str) else str(int(u)) for u in mem), _enc_meta(x._metadata, skip=("rate",))])
    if isinstance(x, nap.IntervalSet):
        return "|".join(["IntervalSet", _ints(_ticks(x.values)), _enc_meta(x._metadata)])
    if isinstance(x, nap.TsdFrame):
        lab = []
        for l in x.columns:
            lab += _enc_label(l)
        return "|".join(["TsdFrame", _ints(_ticks(x.t)), str(_dtcode(x.dtype)), str(x.shape[1]), _cells(x.values), _sup(x.time_support),
                         _ints(lab), _enc_meta(x._metadata)])
    if isinstance(x, nap.TsdTensor):
        return "|".join(["TsdTensor", _ints(_ticks(x.t)), str(_dtcode(x.dtype)), _ints(x.shape[1:]), _cells(x.values), _sup(x.time_support)])
    if isinstance(x, nap.Tsd):
        return "|".join(["Tsd", _ints(_ticks(x.t)), str(_dtcode(x.dtype)), _cells(x.values), _sup(x.time_support)])
    if isinstance(x, nap.Ts):
        return "|".join(["Ts", _ints(_ticks(x.t)), _sup(x.time_support)])
    return "other:" + type(x).__name__


def model_line(nap, x):
    """the pre-save state of the constructed object, as one input line of driver_c11 (None if not representable)"""
    d = describe(nap, x).split("|")
    if d[0] == "Ts":
        return "ts\t%s\t%s" % (d[1], d[2])
    if d[0] == "Tsd":
        return None if d[2] == "9" else "tsd\t%s\t%s\t%s\t%s" % (d[1], d[2], d[3], d[4])
    if d[0] == "TsdTensor":
        return None if d[2] == "9" else "tensor\t%s\t%s\t%s\t%s\t%s" % (d[1], d[2], d[3], d[4], d[5])
    if d[0] == "TsdFrame":
        return None if d[2] == "9" else "frame\t%s\t%s\t%s\t%s\t%s\t%s\t%s" % (d[1], d[2], d[3], d[4], d[5], d[6], d[7])
    if d[0] == "IntervalSet":
        return "iset\t%s\t%s" % (d[1], d[2])
    if d[0] == "TsGroup":
        return "group\t%s\t%s\t%s\t0" % (d[1], d[2], d[3])
    return None


# ---------------------------------------------------------------------------------------------- the statement, restated
def _meta_equal(a, b):
    """same columns (names, order), same index, same cells, same kind of dtype (integer / float / string) where there are cells"""
    if list(a.columns) != list(b.columns):
        return "metadata columns %r != %r" % (list(a.columns), list(b.columns))
    if list(a.index) != list(b.index) or [type(i) for i in a.index] != [type(i) for i in b.index]:
        return "metadata index %r != %r" % (list(a.index), list(b.index))
    for c in a.columns:
        ka, kb = a[c].dtype.kind, b[c].dtype.kind
        ka, kb = ("s" if ka in "OUT" else ka), ("s" if kb in "OUT" else kb)
        ka, kb = ("i" if ka == "u" else ka), ("i" if kb == "u" else kb)      # integer (signed or unsigned) / float / string / bool
        if ka != kb and len(a[c]):      # a column without cells has no cell dtype to preserve (pandas gives it a default one)
            return "metadata column %r dtype %s != %s" % (c, a[c].dtype, b[c].dtype)
        va, vb = list(a[c].values), list(b[c].values)
        for u, v in zip(va, vb):
            if not (u == v or (isinstance(u, float) and isinstance(v, float) and np.isnan(u) and np.isnan(v))):
                return "metadata column %r cells %r != %r" % (c, va, vb)
    return None


def _same_values(a, b):
    """equal shape and equal cells; a NaN cell equals a NaN cell (the statement says "equal data values": a series holding NaN that comes back
    with the same NaN in the same place is equal)"""
    a, b = np.asarray(a), np.asarray(b)
    if a.shape != b.shape:
        return False
    if a.dtype.kind in "fc" and b.dtype.kind in "fc":
        return bool(np.array_equal(a, b, equal_nan=True))
    if a.dtype != b.dtype and a.dtype.kind in "iuf" and b.dtype.kind in "iuf" and any(z.dtype.kind in "iu" and z.dtype.itemsize == 8 for z in (a, b)):
        # integer cells against float cells (a group member's data comes back float64), int64 against uint64: NumPy would compare after a
        # lossy cast to float64; Python compares an int with a float (and ints with ints) exactly
        la, lb = a.ravel().tolist(), b.ravel().tolist()
        return all(u == v or (u != u and v != v) for u, v in zip(la, lb))
    return bool(np.array_equal(a, b))


def oracle(nap, x, y):
    """list of (part, message, detail): where the loaded object y is NOT equal to the saved object x in the sense of the statement; detail =
    extra fields of the violation key that name the precise trigger"""
    return [(b + ({},))[:3] for b in _oracle(nap, x, y)]


def _oracle(nap, x, y):
    bad = []
    if type(x) is not type(y):
        return [("class", "loaded %s, saved %s" % (type(y).__name__, type(x).__name__))]
    if isinstance(x, nap.IntervalSet):
        if not np.array_equal(x.values, y.values):
            bad.append(("intervals", "%r != %r" % (y.values.tolist(), x.values.tolist())))
        m = _meta_equal(x._metadata, y._metadata)
        if m:
            bad.append(("metadata", m))
        return bad
    if not np.array_equal(x.time_support.values, y.time_support.values):
        bad.append(("time_support", "%r != %r" % (y.time_support.values.tolist(), x.time_support.values.tolist())))
    if isinstance(x, nap.TsGroup):
        if list(x.keys()) != list(y.keys()):
            bad.append(("keys", "%r != %r" % (list(y.keys()), list(x.keys()))))
            return bad
        for k in x.keys():
            a, b = x[k], y[k]
            if type(a) is not type(b):
                bad.append(("member_class", "member %r loaded as %s, saved as %s" % (k, type(b).__name__, type(a).__name__)))
                continue
            if not np.array_equal(a.time_support.values, b.time_support.values):
                bad.append(("member_support", "member %r: %r != %r" % (k, b.time_support.values.tolist(), a.time_support.values.tolist())))
            if not np.array_equal(a.t, b.t):
                bad.append(("member_times", "member %r: %r != %r" % (k, b.t.tolist(), a.t.tolist())))
            elif hasattr(a, "values") and not _same_values(a.values, b.values):
                # the precise trigger of the known finding: THIS member has a repeated timestamp, and its rows came back permuted inside the
                # groups of tied samples only (same multiset of (time, value) pairs); anything else is another defect
                ties = len(set(a.t.tolist())) < len(a.t)
                perm = a.values.shape == b.values.shape and _pairs(a) == _pairs(b)
                # (widening) integer member data: the ONLY difference is that every cell came back as the nearest float64
                av, bv = np.asarray(a.values), np.asarray(b.values)
                rounded = av.dtype.kind in "iu" and av.shape == bv.shape and bool(np.array_equal(av.astype(np.float64), bv.astype(np.float64)))
                bad.append(("member_data", "member %r: %r != %r" % (k, b.values.tolist(), a.values.tolist()),
                            {"dup_times_in_member": bool(ties), "permuted_ties_only": bool(perm), "integers_rounded_to_float64_only": bool(rounded)}))
        m = _meta_equal(x._metadata, y._metadata)
        if m:
            bad.append(("metadata", m))
        return bad
    if not np.array_equal(x.t, y.t):
        bad.append(("times", "%r != %r" % (y.t.tolist(), x.t.tolist()), {"loaded_empty": bool(len(x) > 0 and len(y) == 0)}))
    if hasattr(x, "values"):
        if not _same_values(x.values, y.values):
            bad.append(("data", "%r != %r" % (np.asarray(y.values).tolist(), np.asarray(x.values).tolist()),
                        {"loaded_empty": bool(len(x) > 0 and len(y) == 0)}))
        if x.values.dtype != y.values.dtype:
            bad.append(("dtype", "%s != %s" % (y.values.dtype, x.values.dtype)))
    if isinstance(x, nap.TsdFrame):
        if list(x.columns) != list(y.columns) or [isinstance(c, str) for c in x.columns] != [isinstance(c, str) for c in y.columns]:
            bad.append(("columns", "%r != %r" % (list(y.columns), list(x.columns))))
        m = _meta_equal(x._metadata, y._metadata)
        if m:
            bad.append(("metadata", m))
    return bad


def _pairs(m):
    def norm(v):
        return (1, 0.0) if isinstance(v, float) and v != v else (0, v)
    return sorted((t, norm(v)) for t, v in zip(m.t.tolist(), np.asarray(m.values).tolist()))


def envelope_ok(nap, x, y):
    """for groups: every member comes back with the same multiset of (time, data) samples, sorted by time — what any
    legal np.argsort allows (the model's stable instance fixes one of these outcomes)"""
    if not (isinstance(x, nap.TsGroup) and isinstance(y, nap.TsGroup)) or list(x.keys()) != list(y.keys()):
        return False
    for k in x.keys():
        a, b = x[k], y[k]
        if type(a) is not type(b) or not np.array_equal(a.t, b.t):
            return False
        if hasattr(a, "values") and _pairs(a) != _pairs(b):
            return False
    return True


# ---------------------------------------------------------------------------------------------- case generation
S1 = [[0, 40]]
S2 = [[0, 10], [20, 40]]
S3 = [[-7, -3], [0, 10], [12, 40]]
US = 1000                      # ticks per unit of the small lattice below (1 us): times = unit * US + sub-us offsets
TIMES = {
    "empty": [],
    "one": [5],
    "multi": [0, 3, 10, 20, 33, 40],           # on interval starts and ends of S2
    "dups": [3, 3, 3, 20, 20, 40],
    "ns": [1, 2, 1001, 1002, 2003],            # distinct nanoseconds (times are scaled by US except this one)
    "one_instant_dups": [3, 3, 3],             # several samples, one distinct timestamp (zero span)
}
METAS = {
    "none": [],
    "int": [["m0", "int"]],
    "float": [["m1", "float"]],
    "str": [["m2", "str"]],
    "mix": [["m0", "int"], ["m2", "str"], ["m1", "float"]],
}
# run on a thinned set of cases only (implementation + oracle; the model's cells are integers)
META_X = [["m1", "floatx"], ["m2", "str"]]
SPECIAL = ["nan", 0.5, "inf", -2.25, "-inf", 1e-300, 3]          # data cells that are not integer-valued floats


def _special(n):
    return [SPECIAL[i % len(SPECIAL)] for i in range(n)]


def _scale(ts, name):
    return list(ts) if name == "ns" else [t * US for t in ts]


def _sups(t, name):
    """explicit supports that contain every time of t (canonical, in ticks)"""
    out = []
    for s in (S1, S2, S3):
        sc = [[a * US, b * US] for a, b in s]
        if all(any(a <= x <= b for a, b in sc) for x in t):
            out.append(sc)
    return out


def _mk_meta(which, n, rng):
    return [[name, kind, [rng.randrange(-5, 50) for _ in range(n)]] for name, kind in METAS[which]]


def structured_specs(rng):
    specs = []
    # --- Ts / Tsd / TsdTensor / TsdFrame
    for tn, ts in TIMES.items():
        t = _scale(ts, tn)
        sups = _sups(t, tn) if t else [None, [[0, 40 * US]]]
        if t:
            # the default support, ALSO when all timestamps coincide: the constructor then gives an empty support and keeps the samples
            # ("for every Ts, Tsd, ..." does not exclude these objects)
            sups = sups + [None]
        for sup in sups:
            v = {"times": tn, "sup": "default" if sup is None else "%d_intervals" % len(sup)}
            specs.append(({"cls": "Ts", "t": t, "sup": sup}, dict(v)))
            thin = t and (sup is None or sup is sups[0])       # the variants below: default support and the first explicit one
            if thin:
                # data that is not an integer-valued float: NaN, +-inf, fractions, a denormal-range value
                specs.append(({"cls": "Tsd", "t": t, "d": _special(len(t)), "dtype": "float64", "sup": sup}, dict(v, dtype="float64", data="nan_inf_fraction")))
                specs.append(({"cls": "Tsd", "t": t, "d": [0.5] * len(t), "dtype": "float32", "sup": sup}, dict(v, dtype="float32", data="fraction")))
                specs.append(({"cls": "TsdTensor", "t": t, "d": _special(len(t) * 4), "shape": [2, 2], "dtype": "float64", "sup": sup},
                              dict(v, dtype="float64", shape="[2, 2]", data="nan_inf_fraction")))
                for cols, cn in ((None, "default"), (["s1", "s0", "s7"], "str"), ([5, 5, 9], "int_repeated")):
                    for mt in ("none", "mix"):
                        specs.append(({"cls": "TsdFrame", "t": t, "d": _special(len(t) * 3), "ncols": 3, "dtype": "float64", "cols": cols, "sup": sup,
                                       "meta": _mk_meta(mt, 3, rng)}, dict(v, dtype="float64", labels=cn, meta=mt, data="nan_inf_fraction")))
                specs.append(({"cls": "TsdFrame", "t": t, "d": [(i * 3 + 2) % 17 - 8 for i in range(len(t) * 3)], "ncols": 3, "dtype": "float64",
                               "cols": [5, 3, 9], "sup": sup, "meta": [[n, k, [rng.randrange(-5, 50) for _ in range(3)]] for n, k in META_X]},
                              dict(v, dtype="float64", labels="int", meta="fraction_nan_cells")))
            for dt in ("int64", "float64", "bool", "int32", "float32"):
                d = [(i * 7 + 3) % 11 - 4 for i in range(len(t))]
                if dt == "bool":
                    d = [x % 2 for x in d]
                specs.append(({"cls": "Tsd", "t": t, "d": d, "dtype": dt, "sup": sup}, dict(v, dtype=dt)))
            for shape, dt in (([2, 2], "float64"), ([1, 3, 2], "int64"), ([2, 1], "bool")):
                n = len(t) * int(np.prod(shape))
                d = [(i * 5 + 1) % 13 - 6 for i in range(n)]
                if dt == "bool":
                    d = [x % 2 for x in d]
                specs.append(({"cls": "TsdTensor", "t": t, "d": d, "shape": shape, "dtype": dt, "sup": sup}, dict(v, dtype=dt, shape=str(shape))))
            for (ncols, cols, cn), mt, dt in itertools.product(
                    ((1, None, "default"), (3, None, "default"), (3, [5, 3, 9], "int"), (3, ["s1", "s0", "s7"], "str"), (1, ["s4"], "str"), (0, None, "zero_columns"),
                     (3, [5, 5, 9], "int_repeated"), (3, ["s1", "s7", "s1"], "str_repeated"), (2, [4, 4], "int_all_equal")),
                    METAS, ("int64", "float64")):
                if dt == "int64" and mt in ("float", "str") and cn != "str":
                    continue   # thin the product a little: every (labels x meta) pair still occurs with float64
                if cn in ("int_repeated", "str_repeated", "int_all_equal") and (not (sup is None or sup is sups[0]) or (dt == "int64" and cn != "int_repeated")):
                    continue
                d = [(i * 3 + 2) % 17 - 8 for i in range(len(t) * ncols)]
                specs.append(({"cls": "TsdFrame", "t": t, "d": d, "ncols": ncols, "dtype": dt, "cols": cols, "sup": sup,
                               "meta": _mk_meta(mt, ncols, rng)}, dict(v, dtype=dt, labels=cn, meta=mt)))
    # --- IntervalSet
    for iv in ([], [[0, 10]], [[0, 10], [20, 40], [50, 51]], [[-7, -3], [0, 1]]):
        for mt in METAS:
            ivs = [[a * US, b * US] for a, b in iv]
            specs.append(({"cls": "IntervalSet", "iv": ivs, "meta": _mk_meta(mt, len(iv), rng)}, {"intervals": len(iv), "meta": mt}))
    for iv in ([[0, 10], [20, 40]],):
        ivs = [[a * US, b * US] for a, b in iv]
        specs.append(({"cls": "IntervalSet", "iv": ivs, "meta": [[n, k, [rng.randrange(-5, 50) for _ in iv]] for n, k in META_X]},
                      {"intervals": len(iv), "meta": "fraction_nan_cells"}))
    # --- TsGroup
    keysets = {"contiguous": [0, 1, 2], "unsorted_noncontiguous": [30, 2, 7], "negative": [5, -3], "str_float_keys": ["7", 2.0, 11], "single": [4]}
    patterns = {
        "all_nonempty": [[0, 3, 10], [3, 20, 40], [1, 33]],
        "interleaved_shared_times": [[0, 20, 40], [0, 20, 40], [10, 20]],
        "one_empty_member": [[0, 3, 10], [], [1, 33]],
        "first_empty_member": [[], [3, 20, 40], [33]],
        "all_empty": [[], [], []],
        "dup_times_in_member": [[3, 3, 3, 20, 20, 40], [3, 20], [40]],
        "long_dups": [[1], [0, 0, 0, 0, 0, 0], [0, 0, 1, 1]],
    }
    for (kn, keys), (pn, pat), kind, sup, mt in itertools.product(keysets.items(), patterns.items(), ("Ts", "Tsd"), (S1, S2), METAS):
        if sup is S2 and any(not any(a <= x <= b for a, b in S2) for ts in pat for x in ts):
            continue
        if kn in ("negative", "str_float_keys", "single") and mt in ("float", "mix") and sup is S2:
            continue
        members = []
        c = 0
        for j, key in enumerate(keys):
            t = [x * US for x in pat[j % len(pat)]]
            d = [100 * (j + 1) + i for i in range(len(t))]
            c += len(t)
            members.append([key, kind, t, d])
        specs.append(({"cls": "TsGroup", "members": members, "sup": [[a * US, b * US] for a, b in sup], "meta": _mk_meta(mt, len(keys), rng)},
                      {"keys": kn, "pattern": pn, "members": kind, "sup": "%d_intervals" % len(sup), "meta": mt}))
    # members carrying finite data that is not integer-valued; metadata with fractional / NaN cells; a group built WITHOUT a time support
    # (members keep their default supports, the group takes the union; a member with one distinct timestamp is emptied by the constructor)
    for (kn, keys), pn, kind, sup in itertools.product((("contiguous", [0, 1, 2]), ("unsorted_noncontiguous", [30, 2, 7])),
                                                       ("all_nonempty", "one_empty_member", "interleaved_shared_times", "dup_times_in_member"),
                                                       ("Ts", "Tsd"), (S1, None)):
        pat = patterns[pn]
        members = []
        for j, key in enumerate(keys):
            t = [x * US for x in pat[j % len(pat)]]
            members.append([key, kind, t, [[0.5, -2.25, 1e-300, 1e300, 7.125, -0.0][(i + j) % 6] for i in range(len(t))]])
        for mt, meta in (("none", []), ("fraction_nan_cells", [[n, k, [rng.randrange(-5, 50) for _ in keys]] for n, k in META_X])):
            if sup is None and mt != "none" and kind == "Ts":
                continue
            specs.append(({"cls": "TsGroup", "members": members, "sup": None if sup is None else [[a * US, b * US] for a, b in sup], "meta": meta},
                          {"keys": kn, "pattern": pn, "members": kind, "sup": "default" if sup is None else "1_intervals", "meta": mt,
                           "data": "fraction"}))
    for sup in (S1, S2):
        specs.append(({"cls": "TsGroup", "members": [], "sup": [[a * US, b * US] for a, b in sup], "meta": []},
                      {"keys": "no_members", "pattern": "no_members", "members": "none", "sup": "%d_intervals" % len(sup), "meta": "none"}))
    return specs


def outside_specs():
    """objects OUTSIDE the statement's quantifier: only the model/implementation correspondence is checked on them"""
    sup = [[0, 40 * US]]
    t = [0, 3 * US, 10 * US]
    return [
        ({"cls": "TsdFrame", "t": t, "d": [1, 2, 3, 4, 5, 6], "ncols": 2, "dtype": "int64", "cols": [1, "s3"], "sup": sup, "meta": []}, {"outside": "mixed_labels"}),
        ({"cls": "TsGroup", "members": [[1, "Tsd", t, [None, None, None]], [4, "Tsd", t[:2], [None, None]]], "sup": sup, "meta": []}, {"outside": "all_nan_data"}),
        ({"cls": "TsGroup", "members": [[1, "Tsd", t, [5, None, 7]], [4, "Tsd", [], []]], "sup": sup, "meta": []}, {"outside": "some_nan_data"}),
        ({"cls": "TsGroup", "members": [[1, "Tsd", t, [5, 6, 7]], [4, "Ts", t[1:], [0, 0]], [9, "Ts", [], []]], "sup": sup, "meta": [["m0", "int", [1, 2, 3]]]}, {"outside": "mixed_Ts_Tsd_members"}),
    ]


def random_specs(rng, n, big):
    out = []
    for _ in range(n):
        cls = rng.choice(["Ts", "Tsd", "TsdFrame", "TsdTensor", "IntervalSet", "TsGroup", "TsGroup"])
        m = rng.randint(1, 4)
        pts = sorted(rng.sample(range(0, 10 ** 9), 2 * m))
        sup = [[pts[2 * i], pts[2 * i + 1]] for i in range(m)]
        def times(k, distinct):
            xs = []
            for _ in range(k):
                a, b = rng.choice(sup)
                xs.append(rng.choice([a, b, rng.randint(a, b)]))
            xs = sorted(set(xs)) if distinct else sorted(xs)
            return xs
        n_s = rng.randint(2, 300 if big else 30)
        mt = rng.choice(list(METAS))
        v = {"random": True}
        if cls == "Ts":
            out.append(({"cls": "Ts", "t": times(n_s, False), "sup": sup}, v))
        elif cls == "Tsd":
            t = times(n_s, False)
            dt = rng.choice(["int64", "float64"])
            d = [rng.randint(-1000, 1000) for _ in t]
            if dt == "float64" and rng.random() < 0.4:
                d = [rng.choice([rng.uniform(-5, 5), "nan", u]) for u in d]
            out.append(({"cls": "Tsd", "t": t, "d": d, "dtype": dt, "sup": sup}, v))
        elif cls == "TsdTensor":
            t = times(min(n_s, 40), False)
            shape = rng.choice([[2, 2], [3, 1, 2], [1, 1]])
            out.append(({"cls": "TsdTensor", "t": t, "d": [rng.randint(-9, 9) for _ in range(len(t) * int(np.prod(shape)))], "shape": shape,
                         "dtype": rng.choice(["int64", "float64"]), "sup": sup}, v))
        elif cls == "TsdFrame":
            t = times(min(n_s, 60), False)
            nc = rng.randint(1, 5)
            cols = rng.choice([None, rng.sample(range(-20, 20), nc), ["s%d" % c for c in rng.sample(range(50), nc)],
                               [rng.randrange(0, 3) for _ in range(nc)], ["s%d" % rng.randrange(0, 3) for _ in range(nc)]])   # the last two: labels may repeat
            out.append(({"cls": "TsdFrame", "t": t, "d": [rng.randint(-99, 99) for _ in range(len(t) * nc)], "ncols": nc,
                         "dtype": rng.choice(["int64", "float64"]), "cols": cols, "sup": sup, "meta": _mk_meta(mt, nc, rng)}, v))
        elif cls == "IntervalSet":
            out.append(({"cls": "IntervalSet", "iv": sup, "meta": _mk_meta(mt, m, rng)}, v))
        else:
            nk = rng.randint(1, 6)
            keys = rng.sample(range(-10, 60), nk)
            kind = rng.choice(["Ts", "Tsd"])
            members = []
            for key in keys:
                t = [] if rng.random() < 0.2 else times(rng.randint(1, 80 if big else 12), kind == "Tsd")
                members.append([key, kind, t, [rng.randint(-500, 500) for _ in t]])
            if kind == "Tsd" and all(len(mm[2]) == 0 for mm in members):
                members[0][2], members[0][3] = [sup[0][0]], [1]
            out.append(({"cls": "TsGroup", "members": members, "sup": sup, "meta": _mk_meta(mt, nk, rng)}, dict(v, members=kind)))
    return out


# ---------------------------------------------------------------------------------------------- widened generators: argument forms
TIMES2 = {       # in units of US ticks (1 us), except the *_ns entries (ticks)
    "negative": [-33, -20, -3, -1],
    "straddle0": [-3, -1, 0, 2, 3],
    "whole_seconds": [0, 10 ** 6, 3 * 10 ** 6, 4 * 10 ** 6, 9 * 10 ** 6],
    "neg_whole_seconds": [-2 * 10 ** 6, -10 ** 6, 0, 10 ** 6],
    "offset_1e5s": [10 ** 11 + k for k in (0, 1, 2, 10, 40)],
    "multi": TIMES["multi"],
    "dups": TIMES["dups"],
    "one": [5],
    "one_whole_second": [2 * 10 ** 6],
    "one_negative": [-5],
    "empty": [],
    "offset_1e5s_ns": [10 ** 14 + k for k in (1, 2, 1001, 1002, 2003)],
    "negative_ns": [-2003, -1002, -1001, -2, -1],
}
T_FORMS = ["ndarray", "list", "tuple", "series", "pdindex", "tsindex", "t_attr", "view", "readonly", "int64_us", "int32_us", "uint64_us", "uint32_us", "uint8_us",
           "int64_ms", "uint16_ms", "int64_s", "int16_s", "uint64_s", "pyint_s", "scalar_float", "scalar_np", "scalar_int", "scalar_npint"]
SUP_FORMS = ["arrays", "list", "tuple", "series", "pdindex", "ms", "us", "positional_units", "int64_us", "uint64_us", "kw", "array2d", "dataframe", "iset_of_iset",
             "unsorted_overlapping", "mixed", "support_of_series", "view", "readonly"]
STYLES = ["mix", "kw", "pos", "explicit_defaults"]
DTYPES = ["float32", "float16", "int32", "int16", "int8", "uint8", "uint16", "uint32", "uint64", "bool", "complex128", "complex64", "int64", "float64"]
META_KINDS = ["int", "float", "str", "floatx", "int32", "int16", "int8", "uint8", "uint16", "uint32", "uint64", "uint64big", "float32", "bool", "intlist",
              "floattuple", "strlist", "strU", "strtext"]
META_HOW = ["ctor", "ctor_dataframe", "set_info_kwargs", "set_info_dict", "set_info_dataframe", "set_info_series", "setitem", "attr"]
NEW_VIAS = ["load_file_kw_path", "load_file_lazy_true", "load_file_lazy_false_kw", "relative_path", "load_folder_subfolder", "folder_load_all",
            "folder_dotted_name", "saved_twice", "reload_and_save_again", "same_file_twice", "over_a_file_of_another_class"]


def _ticks_of(tn):
    return list(TIMES2[tn]) if tn.endswith("_ns") else [v * US for v in TIMES2[tn]]


def _admissible(tf, units, t):
    """can the instants t (ticks) be written exactly in the time form tf / units?"""
    if tf.startswith("scalar"):
        if len(t) != 1:
            return False
        return tf in ("scalar_float", "scalar_np") or t[0] % int(UNIT[units]) == 0
    grain = {"_us": 1000, "_ms": 10 ** 6}.get(tf[-3:], 10 ** 9 if tf.endswith("_s") else None)
    if grain is None:
        return units == "s" or all(v % 1000 == 0 for v in t)     # ms / us floats: instants on the microsecond lattice only (exact after rounding)
    if any(v % grain for v in t):
        return False
    vals = [v // grain for v in t]
    if tf == "pyint_s":
        return True
    info = np.iinfo(np.dtype(tf.rsplit("_", 1)[0]))
    return all(info.min <= v <= info.max for v in vals)


def _sup_modes(t):
    if not t:
        return [("explicit", [[0, 40 * US]]), ("default", None)]
    out = [("hull", [[t[0] - 2 * US, t[-1] + 2 * US]])]
    ds = sorted(set(t))
    if len(ds) >= 2:
        out.append(("default", None))
    if len(ds) >= 4:
        out.append(("on_samples", [[ds[0], ds[1]], [ds[2], ds[-1]]]))       # every interval end carries a sample
    return out


def _sup_admissible(sf, sup):
    if sup is None:
        return sf == "arrays"
    pts = [v for iv in sup for v in iv]
    if sf in ("ms", "us", "positional_units"):
        return all(v % 1000 == 0 for v in pts)
    if sf.endswith("_us"):
        return _admissible(sf, "s", pts)
    return True


def _pick(rng, vals, ok):
    c = [v for v in vals if ok(v)]
    return rng.choice(c) if c else None


def _mix(rng, axes, n):
    """n combinations over the axes in which every value of every axis occurs (round robin over independently shuffled axes): all values
    always, the pairs at random (different pairs for different seeds)"""
    cols = {}
    for name, vals in axes.items():
        vals = list(vals)
        seq = []
        while len(seq) < n:
            rng.shuffle(vals)
            seq += vals
        cols[name] = seq[:n]
    return [{name: cols[name][i] for name in axes} for i in range(n)]


def _data_for(dt, n, pattern):
    """n cells valid for the dtype dt (JSON-able: NaN / inf / complex cells are strings)"""
    k = np.dtype(dt).kind
    if pattern == "zeros":
        return [0] * n
    if pattern == "all_equal":
        return [1 if k == "b" else 3] * n
    if k == "b":
        return [(i * 7 + 3) % 11 % 2 for i in range(n)]
    if k in "iu":
        info = np.iinfo(dt)
        if pattern == "extremes":
            cyc = [int(info.min), int(info.max), 0, int(info.max) - 1, int(info.min) + 1]
            return [cyc[i % 5] for i in range(n)]
        return [((i * 7 + 3) % 11 - 4) if k == "i" else (i * 7 + 3) % 11 for i in range(n)]
    if k == "c":
        cyc = ["(1+2j)", "(-0.5-1j)", "0j", "(3+0j)", "(nan+1j)"] if pattern == "extremes" else ["(1+2j)", "(2-1j)", "(-3+0.5j)"]
        return [cyc[i % len(cyc)] for i in range(n)]
    if pattern == "extremes":
        fi = np.finfo(dt)
        cyc = [float(fi.max), -float(fi.max), float(fi.tiny), "nan", "inf", "-inf", -0.0, float(fi.eps)]
        return [cyc[i % len(cyc)] for i in range(n)]
    return [(i * 3 + 2) % 17 * 0.5 - 4 for i in range(n)]


def _meta_cols(rng, kinds, n):
    return [["m%d" % j, kind, [rng.randrange(-5, 50) for _ in range(n)]] for j, kind in enumerate(kinds)]


def _series_spec(cls, t, sup, dt, pattern, rng, cols="rot", kinds=()):
    if cls == "Ts":
        return {"cls": "Ts", "t": t, "sup": sup}
    if cls == "Tsd":
        return {"cls": "Tsd", "t": t, "d": _data_for(dt, len(t), pattern), "dtype": dt, "sup": sup}
    if cls == "TsdTensor":
        shape = rng.choice([[2, 2], [1, 3, 2], [2, 1], [1, 1]])
        return {"cls": "TsdTensor", "t": t, "d": _data_for(dt, len(t) * int(np.prod(shape)), pattern), "shape": shape, "dtype": dt, "sup": sup}
    if cols == "rot":
        cols = rng.choice([None, [5, 3, 9], ["s1", "s0", "s7"], [10, 2, 33], ["s10", "s2", "s33"]])
    nc = 3 if cols is None else len(cols)
    return {"cls": "TsdFrame", "t": t, "d": _data_for(dt, len(t) * nc, pattern), "ncols": nc, "dtype": dt, "cols": cols, "sup": sup,
            "meta": _meta_cols(rng, kinds, nc)}


def _with_form(sp, var, form, fam):
    form = {k: v for k, v in form.items() if v is not None}
    return dict(sp, form=form), dict(var, family=fam, **{"form_" + k: (",".join(v) if isinstance(v, list) else v) for k, v in form.items()})


def form_specs(rng, tier):
    """(spec, variant, vias) triples of the widened input classes; quick tier: every value of every axis at least once per family (round robin,
    pairs by the seeded rng); thorough tier: many more combinations of the same axes"""
    big = tier != "quick"
    out = []

    def vias(i):
        extra = NEW_VIAS[(i + rng.randrange(len(NEW_VIAS))) % len(NEW_VIAS)]
        # quick tier: save -> load_file for every case, one of the other routes (rotating) on every second case; thorough: load_file, Folder, a rotating route
        return ("load_file", "folder", extra) if big else (("load_file", extra) if i % 2 == 0 else ("load_file",))

    # --- F1: the time argument of the four series classes: container / dtype / units / call style x the form of the time support
    for i, c in enumerate(_mix(rng, {"cls": ["Ts", "Tsd", "TsdFrame", "TsdTensor"], "t": T_FORMS, "units": ["s", "ms", "us"], "style": STYLES,
                                     "supform": SUP_FORMS, "dtype": ["float64", "int64"]}, 1500 if big else 96)):
        if c["t"] == "series" and c["cls"] in ("Ts", "Tsd"):
            # for Ts / Tsd a pandas Series passed as t is documented to mean "index = times, values = data": Tsd gets the form d="series", Ts a pandas Index
            c["t"] = "pdindex"
        tn = _pick(rng, list(TIMES2), lambda n: _admissible(c["t"], c["units"], _ticks_of(n)))
        for u in ("us", "ms", "s"):
            if tn is None:
                c["units"] = u
                tn = _pick(rng, list(TIMES2), lambda n: _admissible(c["t"], u, _ticks_of(n)))
        t = _ticks_of(tn)
        sm, sup = rng.choice(_sup_modes(t))
        sf = c["supform"] if _sup_admissible(c["supform"], sup) else "arrays"
        if sf in ("array2d", "dataframe", "unsorted_overlapping", "support_of_series") and sup is not None and len(sup) == 0:
            sf = "arrays"
        sp = _series_spec(c["cls"], t, sup, c["dtype"], "ramp", rng, kinds=rng.choice([(), ("int", "str")]))
        fm = {"t": c["t"], "units": c["units"], "style": c["style"], "sup": None if sup is None else sf}
        if c["cls"] == "Tsd" and c["t"] == "pdindex" and i % 2 == 0:
            fm = {"d": "series", "units": c["units"], "sup": fm["sup"]}
        out.append(_with_form(sp, {"times": tn, "sup": sm}, fm, "time_forms") + (vias(i),))
    # --- F2: dtype of the data, complete over class x dtype x pattern; container of the data by round robin
    combos = list(itertools.product(["Tsd", "TsdFrame", "TsdTensor"], DTYPES, ["ramp", "extremes", "zeros", "all_equal"]))
    rot = _mix(rng, {"d": ["ndarray", "list", "fortran", "view", "readonly", "memmap_lazy"], "style": STYLES,
                     "times": ["multi", "dups", "negative", "straddle0", "offset_1e5s", "one", "empty", "whole_seconds"]}, len(combos))
    reps = 3 if big else 1
    for rep in range(reps):
        for i, ((cls, dt, pat), r) in enumerate(zip(combos, rot)):
            if rep:
                r = rng.choice(rot)
            t = _ticks_of(r["times"])
            sm, sup = rng.choice(_sup_modes(t))
            df = r["d"]
            if (df == "list" and (dt not in ("int64", "float64", "bool") or not t)) or (df == "fortran" and cls == "Tsd") or (df == "memmap_lazy" and not t):
                df = "ndarray"
            sp = _series_spec(cls, t, sup, dt, pat, rng, kinds=rng.choice([(), ("float", "str")]))
            out.append(_with_form(sp, {"times": r["times"], "sup": sm, "dtype": dt, "data": pat, "rep": rep}, {"d": df, "style": r["style"] if df != "memmap_lazy" else "mix"},
                                  "data_dtypes") + (vias(i),))
    # --- F3: TsdFrame column labels x metadata: label container / dtype, metadata cell dtype, the way the metadata is attached
    labelsets = {"int": [[5, 3, 9], [10, 2, 33], [0, 1, 2], [-1, 200, 7]], "str": [["s1", "s0", "s7"], ["s10", "s2", "s33"], ["left foot", "10", "café"]]}
    for i, c in enumerate(_mix(rng, {"labels": ["int", "str", "int", "default"], "cols": ["list", "tuple", "ndarray", "int32", "int16", "uint8", "uint64", "pdindex", "object_index"],
                                     "kind": META_KINDS, "kind2": META_KINDS, "how": META_HOW, "d": ["ndarray", "dataframe", "ndarray"], "dtype": ["float64", "int64", "float32", "uint8"],
                                     "units": ["s", "ms", "us"]}, 700 if big else 72)):
        cols = None if c["labels"] == "default" else rng.choice(labelsets[c["labels"]])
        cf = c["cols"]
        if cols is None or (c["labels"] == "str" and cf in ("int32", "int16", "uint8", "uint64")):
            cf = "list" if cols is None else "ndarray"
        if cols is not None and cf in ("uint8", "uint64") and min(cols) < 0:
            cols = [5, 3, 9]
        tn = rng.choice(["multi", "dups", "negative", "empty", "one"])
        t = _ticks_of(tn)
        sm, sup = rng.choice(_sup_modes(t))
        kinds = (c["kind"],) if c["kind"] == c["kind2"] else (c["kind"], c["kind2"])
        sp = _series_spec("TsdFrame", t, sup, c["dtype"], "ramp", rng, cols=cols, kinds=kinds)
        how = c["how"]
        out.append(_with_form(sp, {"times": tn, "sup": sm, "labels": c["labels"], "meta": "+".join(kinds), "dtype": c["dtype"]},
                              {"cols": None if cols is None else cf, "meta": how, "d": c["d"] if c["d"] != "ndarray" else None, "units": c["units"]}, "frame_labels_metadata")
                   + (vias(i),))
    # --- F4: IntervalSet: the form of start / end, units, metadata
    ivsets = {"none": [], "one": [[0, 10]], "three": [[0, 10], [20, 40], [50, 51]], "negative": [[-7, -3], [-2, -1]], "straddle0": [[-7, 3], [5, 6]],
              "whole_seconds": [[0, 10 ** 6], [2 * 10 ** 6, 5 * 10 ** 6]], "one_whole_seconds": [[10 ** 6, 3 * 10 ** 6]], "one_straddling0_whole_seconds": [[-2 * 10 ** 6, 10 ** 6]],
              "offset_1e5s": [[10 ** 11, 10 ** 11 + 1], [10 ** 11 + 5, 10 ** 11 + 40]]}
    IV_FORMS = [f for f in SUP_FORMS if f not in ("unsorted_overlapping", "support_of_series")] + ["uint8_us", "int64_s", "pyint_s", "int64_ms", "scalar_float", "scalar_np",
                                                                                                  "scalar_int", "scalar_npint"]
    for i, c in enumerate(_mix(rng, {"iv": IV_FORMS, "kind": META_KINDS + ["none", "none"], "how": META_HOW}, 500 if big else 60)):
        def ok(n):
            iv = [[a * US, b * US] for a, b in ivsets[n]]
            pts = [v for p in iv for v in p]
            f = c["iv"]
            if f.startswith("scalar"):
                return len(iv) == 1 and _admissible(f, "s", pts[:1]) and _admissible(f, "s", pts[1:])
            if not iv:
                return f in ("arrays", "list", "tuple", "kw", "ms", "us", "series")
            if f[-3:] in ("_us", "_ms") or f.endswith("_s"):
                return _admissible(f, "s", pts)
            return True
        n = _pick(rng, list(ivsets), ok)
        iv = [[a * US, b * US] for a, b in ivsets[n]]
        kinds = () if c["kind"] == "none" else (c["kind"],)
        sp = {"cls": "IntervalSet", "iv": iv, "meta": _meta_cols(rng, kinds, len(iv))}
        out.append(_with_form(sp, {"intervals": n, "meta": "+".join(kinds) or "none"}, {"iv": c["iv"], "meta": c["how"] if kinds else None}, "intervalset_forms") + (vias(i),))
    # --- F5: TsGroup: keys, container, members, units, bypass_check, metadata
    keysets = {"contiguous": [0, 1, 2], "unsorted_noncontiguous": [30, 2, 7], "negative": [5, -3], "multi_digit": [100, 12, 7, 1000], "large": [10 ** 10, 4], "single": [4]}     # large: beyond int32
    pats = {"all_nonempty": [[0, 3, 10], [3, 20, 40], [1, 33]], "one_empty_member": [[0, 3, 10], [], [1, 33]], "interleaved_shared_times": [[0, 20, 40], [0, 20, 40], [10, 20]],
            "negative_times": [[-33, -3, 0], [-20, 2], [3]], "offset_1e5s": [[10 ** 11, 10 ** 11 + 2], [10 ** 11 + 1, 10 ** 11 + 40], []],
            "whole_seconds": [[0, 10 ** 6], [10 ** 6, 3 * 10 ** 6], [2 * 10 ** 6]], "all_empty": [[], [], []]}
    for i, c in enumerate(_mix(rng, {"keys": list(keysets), "keyform": ["int", "npint64", "npint32", "str", "float", "int"], "pattern": list(pats), "kind": ["Ts", "Tsd", "Tsd"],
                                     "members": ["objects", "objects", "arrays"], "t": ["ndarray", "list", "tuple", "tsindex", "view", "int64_us", "uint64_us", "int64_s", "series"],
                                     "units": ["s", "ms", "us"], "member_dtype": ["float64", "float32", "int64", "int32", "uint8", "uint64", "bool", "float16"],
                                     "bypass": [False, True], "sup": ["given", "given", "default"], "mkind": META_KINDS + ["none"] * 4, "how": META_HOW + ["ctor_kwargs"],
                                     "style": ["mix", "kw", "pos"], "container": ["dict", "dict", "list"]}, 800 if big else 84)):
        keys, pat = keysets[c["keys"]], pats[c["pattern"]]
        if c["keys"] == "large" and c["keyform"] == "npint32":
            c["keyform"] = "npint64"
        container = c["container"] if c["keys"] == "contiguous" else "dict"
        kind = "Ts" if c["members"] == "arrays" else c["kind"]
        allt = sorted(v * US for ts in pat for v in ts)
        tf, units = c["t"], c["units"]
        if tf == "series" or (c["members"] == "arrays" and tf in ("tsindex", "tuple")):
            tf = "pdindex" if c["members"] == "objects" else "ndarray"
        given = c["sup"] == "given" or c["bypass"] or not allt or c["pattern"] == "all_empty" or len(set(allt)) < 2
        # a member with one distinct timestamp would be emptied by its empty default support: it gets a second sample when no support is passed
        tl = [[v * US for v in pat[j % len(pat)]] for j in range(len(keys))]
        tl = [t + [t[0] + US] if (not given and len(set(t)) == 1) else t for t in tl]
        if not all(_admissible(tf, units, t) for t in tl):
            tf = "ndarray"
        if tf != "ndarray" and (tf[-3:] in ("_us", "_ms") or tf.endswith("_s")) and c["members"] == "arrays":
            units = {"_us": "us", "_ms": "ms"}.get(tf[-3:], "s")
        if tf in ("tsindex", "t_attr"):
            units = "s"
        lo, hi = (allt[0], allt[-1]) if allt else (0, 40 * US)
        sup = [[lo - 2 * US, hi + 2 * US]] if given else None
        members = []
        for j, key in enumerate(keys):
            t = tl[j]
            if c["member_dtype"] in ("float64", "float32", "float16"):
                d = [(7 * j + i) % 9 * 0.25 - 1 for i in range(len(t))]
            elif c["member_dtype"] == "bool":
                d = [(j + i) % 2 for i in range(len(t))]
            else:
                d = [(10 * (j + 1) + i) % 200 for i in range(len(t))]
            members.append([key, kind, t, d])
        kinds = () if c["mkind"] == "none" else (c["mkind"],)
        sp = {"cls": "TsGroup", "members": members, "sup": sup, "meta": _meta_cols(rng, kinds, len(keys))}
        form = {"keys": c["keyform"], "members": c["members"], "t": tf, "units": units, "member_dtype": c["member_dtype"] if kind == "Tsd" else None,
                "bypass_check": True if (c["bypass"] and c["members"] == "objects") else None, "meta": c["how"] if kinds else None, "style": c["style"],
                "container": "list" if container == "list" else None, "member_sup": None if given else False}
        out.append(_with_form(sp, {"keys": c["keys"], "pattern": c["pattern"], "members": kind, "sup": "1_intervals" if given else "default", "meta": "+".join(kinds) or "none"},
                              form, "tsgroup_forms") + (vias(i),))
    # an empty group built with ms / us arguments; integer member data that float64 cannot hold
    for units in ("ms", "us"):
        out.append(_with_form({"cls": "TsGroup", "members": [], "sup": [[0, 40 * US]], "meta": []}, {"keys": "no_members", "pattern": "no_members", "members": "none"},
                              {"members": "arrays", "units": units, "sup": units}, "tsgroup_forms") + (("load_file", "folder"),))
    for mdt, vals in (("int64", [2 ** 53 + 1, -(2 ** 53) - 1, 2 ** 62 + 1]), ("uint64", [2 ** 64 - 1, 2 ** 53 + 1, 5]), ("int64", [2 ** 53, -(2 ** 53), 2 ** 53 - 1])):
        out.append(_with_form({"cls": "TsGroup", "members": [[1, "Tsd", [0, 3 * US, 10 * US], vals], [4, "Tsd", [US, 5 * US], [1, 2]]], "sup": [[0, 40 * US]], "meta": []},
                              {"keys": "noncontiguous", "pattern": "all_nonempty", "members": "Tsd", "data": "integers_at_2p53:%s:%d" % (mdt, max(vals))},
                              {"member_dtype": mdt}, "tsgroup_forms") + (("load_file", "folder"),))
    # --- degenerate: every sample outside the time support that is passed (an empty series with a non-empty support), one interval holding no sample
    for cls in ("Ts", "Tsd", "TsdFrame", "TsdTensor"):
        for tn, sup in (("multi", [[50 * US, 60 * US]]), ("negative", [[0, 10 * US], [20 * US, 30 * US]]), ("multi", [[0, 10 * US], [11 * US, 19 * US], [20 * US, 40 * US]])):
            outside = not any(a <= v <= b for v in _ticks_of(tn) for a, b in sup)
            sp = _series_spec(cls, _ticks_of(tn), sup, "float64", "ramp", rng)
            out.append(_with_form(sp, {"times": tn, "sup": "all_samples_outside" if outside else "an_interval_without_samples"}, {"outside_support": True if outside else None, "style": "mix"},
                                  "degenerate_support") + (("load_file", "folder"),))
    # --- F6: histories: the saved object is the result of one more public operation (or of a save + load)
    series_h = {"Ts": ["slice", "step", "fancy", "mask", "get", "restrict", "restrict_same", "reload", "copy"],
                "Tsd": ["slice", "step", "fancy", "mask", "get", "restrict", "restrict_same", "arith", "neg", "npabs", "npsqrt", "compare", "dropna", "to_tsgroup", "reload", "copy"],
                "TsdFrame": ["slice", "step", "fancy", "mask", "get", "restrict", "arith", "npabs", "npsqrt", "compare", "colsel", "loc", "column", "dropna", "bin_average",
                             "as_frame_int_labels_of_mixed", "reload", "copy"],
                "TsdTensor": ["slice", "step", "fancy", "mask", "get", "restrict", "arith", "npsqrt", "compare", "column", "reload", "copy"],
                "IntervalSet": ["slice", "fancy", "mask", "intersect", "set_diff", "union", "drop_short", "merge_close", "split", "reload", "copy"],
                "TsGroup": ["subset", "mask", "restrict", "merge", "reload", "copy"]}
    i = 0
    for rep in range(3 if big else 1):
        for cls, hs in series_h.items():
            for h in hs + ([["restrict", "slice"], ["reload", "reload"], ["arith", "mask"]][rep % 3:][:1] if cls in ("Tsd", "TsdFrame", "TsdTensor") else []):
                hist = h if isinstance(h, list) else [h]
                if cls == "IntervalSet":
                    iv = [[a * US, b * US] for a, b in rng.choice([[[0, 10], [20, 40], [50, 51]], [[-7, -3], [0, 1], [3, 9]]])]
                    sp = {"cls": "IntervalSet", "iv": iv, "meta": _meta_cols(rng, rng.choice([(), ("int", "str"), ("float",)]), len(iv))}
                    var = {"intervals": len(iv), "meta": len(sp["meta"])}
                elif cls == "TsGroup":
                    kind = rng.choice(["Ts", "Tsd"])
                    keys = rng.choice([[0, 1, 2], [30, 2, 7]])
                    pat = [[0, 3, 10], [3, 20, 40], [1, 33]]
                    members = [[key, kind, [v * US for v in pat[j]], [100 * (j + 1) + q for q in range(len(pat[j]))]] for j, key in enumerate(keys)]
                    sp = {"cls": "TsGroup", "members": members, "sup": [[0, 40 * US]], "meta": _meta_cols(rng, rng.choice([(), ("int", "str")]), 3)}
                    var = {"keys": str(keys), "members": kind, "meta": len(sp["meta"])}
                else:
                    tn = rng.choice(["multi", "straddle0", "offset_1e5s", "dups"])
                    t = _ticks_of(tn)
                    sm, sup = rng.choice(_sup_modes(t))
                    dt = "int64" if "to_tsgroup" in hist else rng.choice(["float64", "int64", "float32", "int16"])
                    sp = _series_spec(cls, t, sup, dt, "ramp", rng, kinds=rng.choice([(), ("int", "str")]))
                    if cls == "TsdFrame" and "as_frame_int_labels_of_mixed" in hist:
                        sp = _series_spec(cls, t, sup, dt, "ramp", rng, cols=[5, 3, 9], kinds=())
                    var = {"times": tn, "sup": sm, "dtype": dt}
                out.append(_with_form(sp, dict(var, rep=rep), {"hist": hist}, "histories") + (vias(i),))
                i += 1
    # --- F7: every route (parameter forms of save / load_file / Folder) x every class
    for rep in range(4 if big else 1):
        reps_specs = [
            _series_spec("Ts", _ticks_of("straddle0"), None, "float64", "ramp", rng),
            _series_spec("Tsd", _ticks_of("multi"), [[0, 10 * US], [20 * US, 40 * US]], rng.choice(["int64", "float32"]), "ramp", rng),
            _series_spec("TsdFrame", _ticks_of("multi"), None, "float64", "ramp", rng, cols=rng.choice([[5, 3, 9], ["s1", "s0", "s7"]]), kinds=("int", "str")),
            _series_spec("TsdTensor", _ticks_of("negative"), None, "int64", "ramp", rng),
            {"cls": "IntervalSet", "iv": [[0, 10 * US], [20 * US, 40 * US]], "meta": _meta_cols(rng, ("int", "str"), 2)},
            {"cls": "TsGroup", "members": [[30, "Tsd", [0, 3 * US, 10 * US], [1, 2, 3]], [2, "Tsd", [], []], [7, "Tsd", [US, 33 * US], [4, 5]]], "sup": [[0, 40 * US]],
             "meta": _meta_cols(rng, ("int", "str"), 3)},
            {"cls": "TsGroup", "members": [[0, "Ts", [0, 3 * US, 10 * US], [0, 0, 0]], [1, "Ts", [US, 33 * US], [0, 0]]], "sup": [[0, 40 * US]], "meta": []},
        ]
        for sp in reps_specs:
            out.append(_with_form(sp, {"rep": rep, "content": "%s_%d_metadata_columns_%s" % (sp["cls"], len(sp.get("meta") or []), sp["members"][0][1] if sp["cls"] == "TsGroup" else "")}, {"style": "mix"}, "routes")
                       + (tuple(NEW_VIAS),))
    return out


# ---------------------------------------------------------------------------------------------- running one case
def flags(nap, sp, x):
    """the fields of a violation key that describe the INPUT (each names one precise trigger of a recorded finding)"""
    hist = bool((sp.get("form") or {}).get("hist"))
    cls = type(x).__name__ if hist else sp["cls"]          # a history may change the class of the object that is saved
    f = {"cls": cls}
    if cls in ("Ts", "Tsd", "TsdTensor", "TsdFrame"):
        # samples present, all at one instant, no time support passed: the constructor's default support is empty and the samples lie outside it
        f["zero_span_default_support"] = bool(sp.get("sup") is None and len(x) > 0 and len(set(x.t.tolist() if hist else sp["t"])) == 1 and len(x.time_support) == 0)
        if (sp.get("form") or {}).get("outside_support"):
            # every sample given to the constructor lies outside the time support that was passed: the object is empty and keeps that support
            f["empty_series_keeps_nonempty_support"] = bool(len(x) == 0 and len(x.time_support) > 0)
    if cls == "TsdFrame":
        cols = list(x.columns)
        f["repeated_labels"] = bool(len(set(cols)) < len(cols))
        f["has_metadata"] = bool(len(x._metadata.columns) > 0)
        # integer labels sitting in an object-dtype Index (what selecting the integer-labelled columns of a mixed-label frame gives)
        f["int_labels_in_object_index"] = bool(len(cols) > 0 and x.columns.dtype == np.dtype("O")
                                               and all(isinstance(c, (int, np.integer)) and not isinstance(c, (bool, np.bool_)) for c in cols))
    if cls == "TsGroup":
        kinds = set(m[1] for m in sp["members"]) if "members" in sp and not hist else set("Tsd" if isinstance(x[k], nap.Tsd) else "Ts" for k in x.keys())
        f["members"] = "Tsd" if kinds == {"Tsd"} else "Ts" if kinds == {"Ts"} else "none"
        f["dup_times"] = bool(any(len(set(x[k].t.tolist())) < len(x[k]) for k in x.keys()))
        f["all_members_empty"] = bool(len(x) > 0 and all(len(x[k]) == 0 for k in x.keys()))
        # a member holds integer-dtype data with a cell that float64 cannot represent (|v| > 2**53 and not a float64 value)
        f["member_int_not_a_float64"] = bool(any(hasattr(x[k], "values") and np.asarray(x[k].values).dtype.kind in "iu"
                                                 and any(int(v) != int(float(int(v))) for v in np.asarray(x[k].values).ravel().tolist()) for k in x.keys()))
    return f


def roundtrip(nap, x, d, via):
    from pynapple.io.folder import Folder
    from pynapple.io.interface_npz import NPZFile
    if via == "load_file":
        p = os.path.join(d, "obj.npz")
        x.save(p)
        with np.load(p, allow_pickle=True) as z:
            files = list(z.files)
        typ = NPZFile(p).type
        try:
            y = nap.load_file(p)
        except Exception as ex:                                                              # noqa: BLE001
            return ex, files, typ          # the file was written: the model is still asked what load does with it
        return y, files, typ
    f = Folder(d)
    f.save("viafolder", x)
    if via == "folder_overwrite":
        # the same LIVE folder: a first object saved and loaded under the name, then x saved over it and loaded again
        first = nap.Ts(np.array([1.0, 2.0, 3.0]))
        h = Folder(d)
        h.save("again", first)
        h.load()
        _ = h["again"]
        h.save("again", x)
        h.load()
        return h["again"], None, None
    g = Folder(d)                      # a fresh Folder reads the file back (Folder.save caches the object itself)
    return g["viafolder"], None, None


def route(nap, x, d, via):
    """the other parameter forms of save / load_file / Folder (widening): -> list of loaded objects, EACH of which has to equal x"""
    from pathlib import Path
    from pynapple.io.folder import Folder
    p = os.path.join(d, "obj.npz")
    if via == "load_file_kw_path":                 # filename= keyword, a pathlib.Path without the suffix; path= keyword, a Path; lazy_loading at its default by keyword
        x.save(filename=Path(d) / "objkw")
        return [nap.load_file(path=Path(d) / "objkw.npz", lazy_loading=None)]
    if via == "load_file_lazy_true":               # lazy_loading positional, True (documented: only matters for NWB)
        x.save(p)
        return [nap.load_file(p, True)]
    if via == "load_file_lazy_false_kw":
        x.save(os.path.join(d, "obj"))              # str without suffix
        return [nap.load_file(p, lazy_loading=False)]
    if via == "relative_path":
        cwd = os.getcwd()
        os.chdir(d)
        try:
            x.save("rel")
            return [nap.load_file("rel.npz")]
        finally:
            os.chdir(cwd)
    if via == "load_folder_subfolder":             # nap.load_folder, a sub-folder, Folder.save with every parameter by keyword and a description
        os.makedirs(os.path.join(d, "sub"))
        f = nap.load_folder(d)
        f["sub"].save(name="inner", obj=x, description="a note")
        g = nap.load_folder(Path(d))
        return [g["sub"]["inner"]]
    if via == "folder_load_all":                   # description positional; Folder.load() loads every file, then the name is looked up
        f = Folder(d)
        f.save("one", x, "first")
        f.save("two", x)
        g = Folder(d)
        g.load()
        return [g["one"], g["two"], g.data["one"]]
    if via == "folder_dotted_name":
        f = Folder(Path(d))
        f.save("v1.2", x)
        return [Folder(d)["v1.2"]]
    if via == "saved_twice":                       # the same live object saved twice (two files)
        x.save(p)
        y1 = nap.load_file(p)
        x.save(os.path.join(d, "second.npz"))
        return [y1, nap.load_file(os.path.join(d, "second.npz"))]
    if via == "reload_and_save_again":             # the loaded object is saved and loaded again
        x.save(p)
        y1 = nap.load_file(p)
        y1.save(os.path.join(d, "again.npz"))
        return [y1, nap.load_file(os.path.join(d, "again.npz"))]
    if via == "same_file_twice":
        x.save(p)
        x.save(p)
        return [nap.load_file(p)]
    if via == "over_a_file_of_another_class":      # the file name held an object of another class (with metadata) before
        other = nap.IntervalSet(np.array([0.0, 2.0]), np.array([1.0, 3.0]), metadata={"old": np.array([1, 2])}) if not isinstance(x, nap.IntervalSet) else \
            nap.TsGroup({3: nap.Tsd(np.array([0.0, 1.0]), np.array([1.0, 2.0]))}, metadata={"old": np.array(["a"])})
        other.save(p)
        _ = nap.load_file(p)
        x.save(p)
        return [nap.load_file(p)]
    raise ValueError(via)


OLD_VIAS = ("load_file", "folder", "folder_overwrite")


def run_case(nap, res, sp, var, d, lines, pending, use_oracle=True, overwrite=True, vias=None):
    try:
        x = build(nap, sp)
    except Exception as ex:
        res.count("build_failed:" + type(ex).__name__)
        if sp.get("form"):
            # every widened form is one the documented signatures accept: a constructor that refuses it is reported, not skipped
            res.violations.append({"key": {"cls": sp["cls"], "part": "build_exception", "exception": type(ex).__name__, "family": var.get("family")},
                                   "what": "building the object raised %s: %s" % (type(ex).__name__, str(ex)[:200]), "input": sp, "impl": type(ex).__name__,
                                   "expected": "a " + sp["cls"]})
        return
    last = None
    fl = flags(nap, sp, x)
    key = json.dumps([sp["cls"], var], sort_keys=True)
    nontrivial = len(x) > 0
    res.case(key, nontrivial=nontrivial)
    res.count(sp["cls"])
    if not nontrivial:
        res.count("empty_objects")
    desc_x = describe(nap, x)
    form = sp.get("form") or {}
    if form:
        res.count("widened_cases")
        for k, v in form.items():
            res.count("form:%s=%s" % (k, "+".join(v) if isinstance(v, list) else v))
        for k in ("times", "sup", "dtype", "data", "labels", "intervals", "keys", "pattern", "members"):
            if k in var:
                res.count("content:%s=%s" % (k, var[k]))
    canon_done = False
    if vias is None:
        vias = ("load_file", "folder", "folder_overwrite") if overwrite else ("load_file", "folder")
    for via in vias:
        shutil.rmtree(d, ignore_errors=True)
        os.makedirs(d)
        files = typ = None
        more = []
        try:
            if via in OLD_VIAS:
                y, files, typ = roundtrip(nap, x, d, via)
            else:
                res.count("route:" + via)
                ys = route(nap, x, d, via)
                y, more = ys[-1], ys[:-1]
            ex = y if isinstance(y, Exception) else None
        except Exception as e:                                                               # noqa: BLE001
            ex = e
        if ex is not None:
            if use_oracle:
                res.violations.append({"key": dict(fl, part="exception", via=via, exception=type(ex).__name__),
                                       "what": "save/load raised %s: %s" % (type(ex).__name__, str(ex)[:200]),
                                       "input": sp, "impl": type(ex).__name__, "expected": "an equal " + sp["cls"]})
            bad, desc_y, env = [("exception", "", {})], "none", False
        else:
            last = y
            bad = oracle(nap, x, y) if use_oracle else []
            for z in more:                               # every object a route loads has to equal x
                bad = bad or (oracle(nap, x, z) if use_oracle else [])
            if use_oracle and not bad and via == "saved_twice":
                # saving must not change the live object: what the second save wrote equals a freshly built x
                bad = [("after_a_first_save:" + b[0],) + b[1:] for b in oracle(nap, build(nap, sp), y)]
            if use_oracle and not bad and form and not form.get("hist") and not canon_done and not fl.get("member_int_not_a_float64"):
                # the same instants / data / labels / metadata given in another argument form: the loaded object equals the object built from the
                # canonical form (float64 seconds in an ndarray, ndarray data, list labels, metadata dict) - "the same instants give the same result"
                # (the canonical group members are float64: no comparison where a member holds integers that float64 cannot represent)
                canon_done = True
                bad = [("other_argument_form:" + b[0],) + b[1:] for b in oracle(nap, build(nap, {k: v for k, v in sp.items() if k != "form"}), y)]
            for part, msg, detail in bad[:3]:
                res.violations.append({"key": dict(fl, part=part, via=via, **detail), "what": "loaded object differs from the saved one in %s: %s" % (part, msg[:300]),
                                       "input": sp, "impl": describe(nap, y), "expected": desc_x})
            desc_y, env = describe(nap, y), (envelope_ok(nap, x, y) if sp["cls"] == "TsGroup" else True)
        if via == "load_file" and files is not None:
            ml = model_line(nap, x) if representable(nap, x) else None
            if ml is not None:
                lines.append(ml)
                pending.append((sp, fl, desc_x, desc_y, files, typ, bool(bad), env))
            else:
                res.count("impl_only(cells or dtype outside the model's: NaN / inf / fractional data, int32 / float32)")
    if len(res.samples) < 4 and nontrivial and last is not None and (res.evaluations % 97 == 1):
        res.sample({"spec": sp, "loaded": describe(nap, last)})


def compare_model(res, lines, pending):
    out = C.run_model(lines, driver="driver_c11") if lines else []
    for (sp, fl, desc_x, desc_y, files, typ, violated, env), o in zip(pending, out):
        parts = o.split("#")
        if len(parts) != 3:
            res.disagreements.append({"op": "roundtrip", "input": sp, "model": o, "impl": desc_y})
            continue
        mdesc, mkeys, mtype = parts
        res.traces += 1
        if mkeys.split(",") != files:
            res.disagreements.append({"op": "keys_written", "input": sp, "model": mkeys, "impl": ",".join(files)})
        if mtype != typ:
            res.disagreements.append({"op": "type_detected", "input": sp, "model": mtype, "impl": typ})
        if mdesc != desc_y:
            if fl.get("dup_times") and fl.get("members") == "Tsd" and env and mdesc == desc_x:
                # ties in np.argsort: the implementation returned another legal order than the model's stable instance
                res.count("tie_order_other_than_stable(within np.argsort's contract)")
                continue
            res.disagreements.append({"op": "roundtrip", "input": sp, "model": mdesc, "impl": desc_y})


def tables_check(res):
    """the generated tables are current, the table theorems compute to true in the extracted model, and gen_c11 parses"""
    gen = os.path.join(C.HOME, "tools", "gen_c11.py")
    p = subprocess.run(["/venv/bin/python", gen, "--check"], stdout=subprocess.PIPE, stderr=subprocess.STDOUT, text=True, timeout=120)
    res.extra["sites_table"] = p.stdout.strip()[-300:]
    if p.returncode != 0:
        res.disagreements.append({"op": "generated_tables", "what": "coq/Gen/SitesC11.v is not what tools/gen_c11.py reads from /repo now (translator tie broken)",
                                  "detail": p.stdout[-400:]})
    o = C.run_model(["tables"], driver="driver_c11")[0].split("|")
    res.extra["table_checks(keys_cover,kwargs_ok,group_keys_known,type_written)"] = o[:4]
    if o[:4] != ["1", "1", "1", "1"]:
        res.disagreements.append({"op": "table_checks", "model": o[:4], "what": "a generated-table check is false"})
    try:
        j = subprocess.run(["/venv/bin/python", gen, "--json"], stdout=subprocess.PIPE, stderr=subprocess.PIPE, text=True, timeout=120)
        res.extra["source_hashes"] = json.loads(j.stdout)["hashes"] if j.returncode == 0 else j.stderr[-300:]
    except Exception as ex:                                                                # noqa: BLE001
        res.extra["source_hashes"] = "unavailable: %s" % ex


def run(res, tier, seed):
    nap = _nap()
    warnings.simplefilter("ignore")
    rng = random.Random(seed * 11 + 3)
    res.rule = ("every class x content variant, COMPLETE over the product: Ts/Tsd/TsdTensor/TsdFrame x {empty, one sample, samples on interval starts/ends, "
                "duplicate timestamps, several samples at one instant, distinct nanoseconds} x {default support (INCLUDING the empty default support of a "
                "zero-span series), 1-, 2-, 3-interval support} x dtypes {int64,float64,bool,int32,float32} x data {integer-valued, NaN / +-inf / fractions} x "
                "tensor shapes x frame {default / unsorted int / str labels / REPEATED int or str labels, 0/1/2/3 columns} x metadata {none,int,float,str,"
                "mixed, fractional+NaN cells}; IntervalSet {0,1,2,3 intervals} x metadata; TsGroup {Ts, Tsd members} x keys {contiguous, unsorted non-"
                "contiguous, negative, str/float keys, single, no members} x {all non-empty, shared timestamps across members, empty member (first / middle), "
                "all empty, duplicate timestamps inside a member} x {1,2-interval support, no support passed} x metadata x member data {integers, fractions}; "
                "each through save -> nap.load_file and Folder.save -> fresh Folder[name], and (thorough tier: every case; quick tier: every third structured "
                "case and every random one) overwrite in a live Folder; plus seeded random larger objects "
                "(random frames may repeat labels, random Tsd may hold NaN / fractions). "
                "oracle = same class, equal timestamps / data (NaN = NaN) / dtype / support / columns / keys / member classes / member supports / metadata "
                "(incl. rate); an exception on save or load is a violation. The model is also asked about files the implementation fails to load (it must "
                "answer `none`). non-trivial = the object is not empty. "
                "WIDENED (argument forms; families counted as family:*, every value as form:<axis>=<value>, every route as route:*; quick tier: every value "
                "of every axis at least once per family by round robin over seeded shuffles, thorough tier ~8x more combinations): "
                "[data dtype] Tsd / TsdFrame / TsdTensor x {float32, float16, int32, int16, int8, uint8, uint16, uint32, uint64, bool, complex64, complex128, "
                "int64, float64} x {ramp, dtype extremes incl. NaN / +-inf / -0.0 / max / tiny, zeros, all equal} COMPLETE, the dtype has to come back; group "
                "members of float32 / float16 / int / uint / bool data (values compared exactly, a Python int against a float), integer member data at 2**53; "
                "metadata cells of every int / uint / float width, bool, uint64 beyond int64, Python lists / tuples, numpy unicode, free text. "
                "[time argument form] t as ndarray, list, tuple, pandas Series / Index, another object's TsIndex, another object's .t, a non-contiguous view, a "
                "read-only array, int64 / int32 / uint64 / uint32 / uint8 microseconds, int64 / uint16 milliseconds, int64 / int16 / uint64 / Python-int seconds, "
                "a float / np.float64 / Python int / np.int64 scalar; IntervalSet start / end (also as the time support of the series) in the same forms plus a "
                "2-d array, a DataFrame, an IntervalSet, a mixed list / array pair, unsorted input, the time_support of a live series. "
                "[parameters] constructor arguments all positional / all by keyword / optional ones at their documented defaults; save(filename=) str / Path, with / "
                "without suffix, relative; load_file(path=, lazy_loading= None / True / False, positional and keyword); Folder.save(name, obj, description) positional and "
                "keyword, nap.load_folder, a sub-folder, Folder.load(), a dotted name; bypass_check=True; load_array=False (memmap). "
                "[units] every time argument in s / ms / us (the loaded object has to equal the one built from float seconds). "
                "[placement] negative times, samples and intervals straddling 0, 1e5 s offsets (us and ns spacing), whole seconds, samples on every interval end. "
                "[degenerate] empty series / one sample in every form, an empty group built with ms / us, keys multi-digit / large / np.int64 / np.int32 / str / float / "
                "a list instead of a dict. [classes] labels as tuple / ndarray / int32 / int16 / uint8 / uint64 / pandas Index / object-dtype Index, frames built "
                "from a DataFrame, Tsd from a Series; metadata attached through the constructor (dict / DataFrame), set_info (kwargs / dict / DataFrame / Series), "
                "item assignment, attribute assignment. [histories] the saved object is the result of slice / step / non-monotone fancy index / mask / get / "
                "restrict / arithmetic / negation / np.abs / np.sqrt / comparison / column selection by position and by label / a single column / dropna / "
                "bin_average / to_tsgroup / IntervalSet slice, index, mask, intersect, set_diff, union, drop_short, merge_close, split / group subset, mask, "
                "restrict, merge_group / deepcopy / a previous save + load, also chained; the same live object saved twice, the same file written twice, a file "
                "that held another class, a loaded object saved again. Extra oracle clauses for these cases: every object a route loads equals x; a second save "
                "writes a freshly built x (save does not mutate); the object loaded from another argument form equals the object built from the canonical form")
    res.exhaustive = True
    base = os.path.join(SCRATCH, "%d" % os.getpid())
    shutil.rmtree(base, ignore_errors=True)
    os.makedirs(base)
    lines, pending = [], []
    try:
        tables_check(res)
        specs = structured_specs(rng)
        res.count("structured_cases", len(specs))
        nrand = 150 if tier == "quick" else 6000
        specs += random_specs(rng, nrand, big=(tier != "quick"))
        res.count("random_cases", nrand)
        for n, (sp, var) in enumerate(specs):
            # the overwrite-in-a-live-Folder route exercises Folder's cache, not the content variant: quick tier runs it on every third
            # structured case (every class and variant family still meets it) and on all random cases; thorough tier on every case
            run_case(nap, res, sp, dict(var, n=n) if var.get("random") else var, os.path.join(base, "c"), lines, pending,
                     overwrite=(tier != "quick" or bool(var.get("random")) or n % 3 == 0))
        # widened input classes (argument forms): own seeded stream, so that the cases above are the same as before for a given seed
        wide = form_specs(random.Random(seed * 13 + 7), tier)
        res.count("widened_generated", len(wide))
        for n, (sp, var, vias) in enumerate(wide):
            res.count("family:" + var.get("family", "?"))
            run_case(nap, res, sp, dict(var, n=n) if var.get("family") in ("time_forms", "frame_labels_metadata", "intervalset_forms", "tsgroup_forms") else var,
                     os.path.join(base, "c"), lines, pending, vias=vias)
            del _KEEP[:]
        for sp, var in outside_specs():
            res.count("outside_quantifier_correspondence_only")
            run_case(nap, res, sp, var, os.path.join(base, "c"), lines, pending, use_oracle=False)
        compare_model(res, lines, pending)
    finally:
        shutil.rmtree(base, ignore_errors=True)
        try:
            os.rmdir(SCRATCH)
        except OSError:
            pass


def search(res, seed):
    r2 = C.Result()
    run(r2, "thorough", seed)
    new = [v for v in r2.violations if C.match_known("C11", v) is None]
    return new[0] if new else (r2.violations[0] if r2.violations else None)


def replay(payload):
    nap = _nap()
    warnings.simplefilter("ignore")
    v = payload.get("violation") or (payload.get("disagreements") or [{}])[0]
    sp = v.get("input")
    if not isinstance(sp, dict) or "cls" not in sp:
        print("nothing to replay in this file:", json.dumps(payload)[:400])
        return 1
    base = os.path.join(SCRATCH, "replay%d" % os.getpid())
    shutil.rmtree(base, ignore_errors=True)
    os.makedirs(base)
    rc = 0
    try:
        x = build(nap, sp)
        print("saved   :", describe(nap, x))
        named = (v.get("key") or {}).get("via")
        for via in ("load_file", "folder", "folder_overwrite") + ((named,) if named in NEW_VIAS else ()):
            d = os.path.join(base, via)
            os.makedirs(d)
            try:
                if via in OLD_VIAS:
                    ys = [roundtrip(nap, x, d, via)[0]]
                else:
                    ys = route(nap, x, d, via)
                if isinstance(ys[-1], Exception):
                    raise ys[-1]
            except Exception as ex:
                print("%-9s: raised %s: %s" % (via, type(ex).__name__, ex))
                rc = 1
                continue
            for y in ys:
                bad = oracle(nap, x, y)
                if not bad and sp.get("form") and not sp["form"].get("hist"):
                    bad = [("other_argument_form:" + b[0],) + b[1:] for b in oracle(nap, build(nap, {k: u for k, u in sp.items() if k != "form"}), y)]
                print("%-9s: %s" % (via, describe(nap, y)))
                for part, msg, detail in bad:
                    print("   differs in %s: %s %s" % (part, msg, detail or ""))
                    rc = 1
    finally:
        shutil.rmtree(base, ignore_errors=True)
        try:
            os.rmdir(SCRATCH)
        except OSError:
            pass
    print("round trip", "HOLDS" if rc == 0 else "FAILS")
    return rc
