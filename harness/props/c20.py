"""C20 surrogate generators conserve what they promise to conserve."""
import itertools
import os
import random
import shutil
import tempfile
import warnings

import numpy as np

import common as C
import gen as G

LEVEL = "proof"
DRIVERS = ["driver_c20"]
TRUSTED = ["model: coq/Model/Randomize.v (shift/jitter/resample/shuffle for Ts and TsGroup, with the Ts and TsGroup constructors they end in) over Model/Restrict.v and "
           "Model/Iset.v; theorems: Proofs/RandomizeProofs.v",
           "the random draws are explicit arguments of the model; the harness replaces np.random.uniform / np.random.permutation inside its own process (no change to /repo), "
           "records every draw and feeds the same numbers (as ticks) to the model; NumPy's contract low <= uniform(low, high) <= high and 'permutation returns a "
           "rearrangement of its argument' is NumPy's",
           "np.sort is modelled as a sorted permutation (Coq's mergesort); float % on the dyadic lattice is exact and agrees with Z.modulo for a positive divisor"]
ASSUMPTIONS = ["inputs: Ts / TsGroup on a single-interval support [s, e], s < e, every timestamp inside it. pynapple gives every EMPTY series an empty support (base-class "
               "invariant), so an empty Ts is never 'on a single-interval support'; it is nevertheless required to go through all four generators as every empty TsGroup member "
               "does: no exception, nothing out, (empty) support kept - part (G), key empty_input=True. For the same reason an empty member's own support is not compared with the group's",
               "draws forced onto the dyadic lattice 2^-9 s for the model comparison (every float operation exact); runs with NumPy's real generator (seeded) are judged by the "
               "statement-level oracle, and jitter keep_tsupport=True also against the recorded draws (result = the t_k + d_k inside the support, to 1 ns; a mismatch is a disagreement)",
               "jitter keep_tsupport=True (the count is not promised): read as 'the result is the jittered series restricted to the kept support' - every returned stamp is a distinct input "
               "stamp moved by at most max_jitter, and an input stamp is missing only if a move of at most max_jitter can take it outside [s, e]",
               "TsGroup results whose support is RECOMPUTED (jitter keep_tsupport=False, shuffle): member counts are conserved only for members with >= 2 distinct result "
               "timestamps (C20_group_recomputed_support_single_refuted / _raises_refuted; reported as findings). A pair of members whose recomputed supports touch is no "
               "longer an exception (6917604: _union_intervals unites two supports like three or more); such pairs are generated (counter "
               "recomputed_pair_with_touching_supports) and must keep every stamp",
               "argument forms: a form never changes WHAT is given, only HOW; a form that cannot hold the sampled values exactly (uint8 and -50 s, float32 and 1e5 s + 2^-9 s, a "
               "TsIndex and ms) is not generated. An UNSIGNED NumPy scalar / 0-d array as max_jitter is an admissible jitter (it is the number it holds): violations met with it carry "
               "the key flag unsigned_max_jitter=True; the model is not compared there (the draws break its precondition |d| <= J). A TsGroup WITHOUT members is a TsGroup input: the "
               "statement holds vacuously member-wise, so the call must return a group without members (pattern empty_group when it raises instead). An input object modified in "
               "place by the call is reported as an exception-part violation ('the INPUT object was modified by the call')",
               "the statement does not promise the class or the order of the result: any object with .t and .time_support is accepted and its stamps are compared as a multiset "
               "(the model comparison still pins the sorted order)"]

U = 1953125                                   # 2^-9 s in ticks
ORIGINS = (0, 100 * 10 ** 9, -50 * 10 ** 9)   # 0 s, 100 s, -50 s: all whole multiples of U
OPS = ("shift_timestamps", "jitter_timestamps", "resample_timestamps", "shuffle_ts_intervals")


def _nap():
    import pynapple as nap
    return nap


# --------------------------------------------------------------------------------------
# the draws: np.random.uniform / np.random.permutation replaced inside this process
class Draws:
    """mode 'script': the queued tick values / permutations are returned in order;
       mode 'lattice': values on the dyadic lattice inside [low, high] from a seeded PRNG (ends included);
       mode 'real': NumPy's own generator after np.random.seed(seed), recorded."""

    def __init__(self, mode, rng=None, script=None, seed=0, step=U):
        self.mode, self.rng, self.script, self.seed, self.step = mode, rng, list(script or []), seed, step
        self.log = []        # ("u", lo, hi, [ticks]) | ("p", [perm])
        self.bad = None
        self.inverted = False
        self.mark = None     # length of the log when the SECOND of two calls on one live object started

    def __enter__(self):
        self._u, self._p, self._state = np.random.uniform, np.random.permutation, np.random.get_state()
        if self.mode == "real":
            np.random.seed(self.seed)
        np.random.uniform, np.random.permutation = self.uniform, self.permutation
        return self

    def __exit__(self, *a):
        np.random.uniform, np.random.permutation = self._u, self._p
        np.random.set_state(self._state)
        return False

    def uniform(self, low=0.0, high=1.0, size=None):
        n = 1 if size is None else int(size)
        if self.mode == "real":
            v = self._u(low, high, size)
            self.log.append(("u", C.to_ns(low), C.to_ns(high), [C.to_ns(x) for x in np.atleast_1d(v)]))
            return v
        lo, hi = C.to_ns(low), C.to_ns(high)
        vals = []
        for _ in range(n):
            if self.mode == "script":
                v = self.script.pop(0)
            else:
                k = (hi - lo) // self.step
                r = self.rng.random()
                v = lo if r < 0.1 else (hi if r < 0.2 else lo + self.rng.randint(0, max(k, 0)) * self.step)
            if lo > hi and self.mode != "script":
                # the LIBRARY asked for an inverted range (NumPy accepts it and draws between the two): not a harness error; the
                # draw is one of the two ends and the statement oracle judges what comes out
                v = lo if self.rng.random() < 0.5 else hi
                self.inverted = True
            elif not lo <= v <= hi:
                self.bad = "scripted draw %d outside [%d, %d]" % (v, lo, hi)
            vals.append(v)
        self.log.append(("u", lo, hi, vals))
        return vals[0] / 1e9 if size is None else G.arr(vals)

    def permutation(self, x):
        x = np.asarray(x)
        n = len(x)
        if self.mode == "script":
            perm = list(self.script.pop(0))
        elif self.mode == "lattice":
            perm = self.rng.sample(range(n), n)
        else:
            perm = [int(i) for i in self._p(n)]
        if sorted(perm) != list(range(n)):
            self.bad = "scripted permutation %r is not a permutation of range(%d)" % (perm, n)
        self.log.append(("p", perm))
        return x[np.asarray(perm, dtype=np.int64)]

    def flat(self):
        return [list(e[-1]) for e in self.log]


# --------------------------------------------------------------------------------------
# implementation leg
def canon_ts(r):
    return [C.to_ns(x) for x in r.t], [(C.to_ns(a), C.to_ns(b)) for a, b in r.time_support.values]


def call_op(nap, op, x, p, cf=None):
    if cf is not None:
        return call_op_form(nap, op, x, p, cf)
    if op == "shift_timestamps":
        return nap.shift_timestamps(x, p["min"] / 1e9, None if p["max"] is None else p["max"] / 1e9)
    if op == "jitter_timestamps":
        return nap.jitter_timestamps(x, max_jitter=p["J"] / 1e9, keep_tsupport=p["keep"])
    if op == "resample_timestamps":
        return nap.resample_timestamps(x)
    return nap.shuffle_ts_intervals(x)


def mk_support(nap, s, e):
    return nap.IntervalSet(s / 1e9, e / 1e9)


def in_support_of(ts, s, e):
    """the time support of the INPUT Ts: [s, e], except that pynapple gives every empty series an empty support (base-class invariant)"""
    return [(s, e)] if len(ts) else []


# --------------------------------------------------------------------------------------
# ARGUMENT FORMS: the same instants / the same numbers, handed over in every form the public signatures accept.
# A form never changes WHAT is given (ticks of the stamps, of the support, of min/max/J), only HOW; every builder below is a
# pure function of (ticks, form) so that a replay rebuilds the very same objects.
S1 = 10 ** 9                                   # whole-second lattice (= 512 U): stamps an integer dtype can hold
BIG = 10 ** 14                                 # 1e5 s (a whole multiple of U; 1e5 + k 2^-9 is exact in float64)
INT_DT = {"int64": np.int64, "int32": np.int32, "int16": np.int16, "int8": np.int8,
          "uint8": np.uint8, "uint16": np.uint16, "uint32": np.uint32, "uint64": np.uint64}
T_FORMS_ANY = ("ndarray", "list", "tuple", "pd.Series", "pd.Index", "TsIndex", "x.t", "strided_view", "readonly", "reversed")
T_FORMS_WHOLE = tuple(INT_DT) + ("pyint_list", "bool", "pd.Series_int64", "float32")
SUP_FORMS_ANY = ("scalars", "kw", "arrays", "lists", "2d", "ms", "us", "metadata", "intersect", "from_ts")
SUP_FORMS_WHOLE = ("pyint", "int64_arrays", "int16_arrays", "uint16_arrays", "uint64_arrays", "us_pyint", "float32_arrays")
HIST_TS = ("direct", "direct_kw", "restrict", "slice_all", "slice_sub", "mask", "fancy", "get", "saveload", "tsd_index", "TsIndex_slice")
NUM_ANY = ("float", "np.float64", "np.float32", "0d_float64", "0d_float32")
NUM_WHOLE = ("int", "np.int64", "np.int32", "np.int16", "0d_int64", "np.uint8", "np.uint16", "np.uint64", "0d_uint8")
UNSIGNED = ("np.uint8", "np.uint16", "np.uint64", "0d_uint8")
STYLES = {"shift_timestamps": ("pos", "kw", "kw_ts", "mixed"), "jitter_timestamps": ("pos", "kw", "kw_ts", "mixed"),
          "resample_timestamps": ("pos", "kw_ts"), "shuffle_ts_intervals": ("pos", "kw_ts", "extra_pos", "extra_kw")}
KEEP_FORMS = ("bool", "np.bool_", "omit")
TSD_DATA = ("float64", "float32", "int64", "int32", "int16", "int8", "uint8", "uint16", "uint32", "uint64", "bool", "nan_inf", "zeros", "equal")
MEMBER_FORMS = ("Ts", "Ts_sup", "Ts_units", "TsIndex", "Tsd", "Tsd_sup", "array", "list", "array_int", "same_obj")
KEY_FORMS = ("int", "str", "float", "np.int64", "mixed", "reversed", "list", "tuple")
KEY_SETS = ("small", "multi_digit", "negative", "range")
GROUP_HIST = ("direct", "direct_pos", "subset", "restrict", "saveload", "bool_index")
GROUP_META = (None, "dict", "dataframe", "kwargs")
_TMP = []


class NotApplicable(Exception):
    """this form cannot hold these values exactly (e.g. uint8 and a negative time): the sampler draws another case"""


def _tmpdir():
    if not _TMP:
        _TMP.append(tempfile.mkdtemp(prefix="c20_forms_"))
    return _TMP[0]


def _cleanup_tmp():
    while _TMP:
        shutil.rmtree(_TMP.pop(), ignore_errors=True)


def mknum(kind, ticks):
    """the number ticks/1e9 as a Python float / int, a NumPy scalar or a 0-d array - only when that form holds it exactly"""
    v = ticks / 1e9
    if kind == "float":
        return v
    if kind == "np.float64":
        return np.float64(v)
    if kind == "0d_float64":
        return np.array(v)
    if kind in ("np.float32", "0d_float32"):
        if float(np.float32(v)) != v:
            raise NotApplicable(kind)
        return np.float32(v) if kind == "np.float32" else np.array(v, dtype=np.float32)
    if ticks % S1:
        raise NotApplicable(kind)
    n = ticks // S1
    if kind == "int":
        return int(n)
    dt = np.dtype(kind.split("_")[-1].replace("np.", ""))
    if not np.iinfo(dt).min <= n <= np.iinfo(dt).max:
        raise NotApplicable(kind)
    return np.array(n, dtype=dt) if kind.startswith("0d") else dt.type(n)


def check_nums(op, p, cf):
    """raise NotApplicable unless every number of the call can be given in the form cf['num']"""
    k = cf.get("num", "float")
    if op == "shift_timestamps":
        mknum(k, p["min"])
        if p["max"] is not None:
            mknum(k, p["max"])
    elif op == "jitter_timestamps":
        mknum(k, p["J"])
    elif op == "shuffle_ts_intervals" and cf.get("style", "pos").startswith("extra"):
        for t in cf.get("extra", (0, None)):
            if t is not None:
                mknum(k, t)
    elif k != "float":
        raise NotApplicable("no number in this call")


def call_op_form(nap, op, x, p, cf):
    """the public call in the form cf: positional / keyword / mixed, defaults left out or spelled, numbers in the form cf['num']"""
    k, style = cf.get("num", "float"), cf.get("style", "pos")
    if op == "shift_timestamps":
        a = mknum(k, p["min"])
        b = None if p["max"] is None else mknum(k, p["max"])
        omit_max = p["max"] is None and cf.get("omit_max", False)
        omit_min = p["min"] == 0 and cf.get("omit_min", False)
        if style == "pos":
            return nap.shift_timestamps(*((x,) if omit_min and omit_max else (x, a) if omit_max else (x, a, b)))
        kw = {}
        if not omit_max:
            kw["max_shift"] = b
        if style == "mixed" and not omit_min:
            return nap.shift_timestamps(x, a, **kw)
        if not omit_min:
            kw = dict(min_shift=a, **kw) if not cf.get("kw_swapped") else dict(kw, min_shift=a)
        return nap.shift_timestamps(ts=x, **kw) if style == "kw_ts" else nap.shift_timestamps(x, **kw)
    if op == "jitter_timestamps":
        J = mknum(k, p["J"])
        kf = cf.get("keep", "bool")
        keep = np.bool_(p["keep"]) if kf == "np.bool_" else bool(p["keep"])
        omit = kf == "omit" and not p["keep"]
        if style == "pos":
            return nap.jitter_timestamps(x, J) if omit else nap.jitter_timestamps(x, J, keep)
        kw = {} if omit else {"keep_tsupport": keep}
        if style == "mixed":
            return nap.jitter_timestamps(x, J, **kw)
        kw = dict(max_jitter=J, **kw) if not cf.get("kw_swapped") else dict(kw, max_jitter=J)
        return nap.jitter_timestamps(ts=x, **kw) if style == "kw_ts" else nap.jitter_timestamps(x, **kw)
    f = nap.resample_timestamps if op == "resample_timestamps" else nap.shuffle_ts_intervals
    if style == "kw_ts":
        return f(ts=x)
    if style.startswith("extra"):        # shuffle_ts_intervals(ts, min_shift=0.0, max_shift=None): two parameters of the signature the docstring ignores
        a, b = cf.get("extra", (0, None))
        a, b = mknum(k, a), (None if b is None else mknum(k, b))
        return f(x, a, b) if style == "extra_pos" else f(x, max_shift=b, min_shift=a)
    return f(x)


def mk_times(nap, ticks, tform, units="s"):
    """the instants `ticks` as the `t` argument of a constructor, in the form tform and the unit `units`"""
    mult = {"s": 1, "ms": 10 ** 3, "us": 10 ** 6}[units]
    if tform in INT_DT or tform in ("pyint_list", "bool", "pd.Series_int64"):
        if any(t % S1 for t in ticks):
            raise NotApplicable(tform)
        vals = [t // S1 * mult for t in ticks]
        if tform == "pyint_list":
            return [int(v) for v in vals]
        if tform == "bool":
            if units != "s" or not vals or any(v not in (0, 1) for v in vals):
                raise NotApplicable(tform)
            return np.array(vals, dtype=bool)
        dt = np.dtype(np.int64 if tform == "pd.Series_int64" else INT_DT[tform])
        if any(not np.iinfo(dt).min <= v <= np.iinfo(dt).max for v in vals):
            raise NotApplicable(tform)
        a = np.array(vals, dtype=dt)
        if tform == "pd.Series_int64":
            import pandas as pd
            return pd.Series(a)
        return a
    f = G.arr(ticks) if units == "s" else G.arr(ticks) * float(mult)
    if tform == "float32":
        f32 = f.astype(np.float32)
        if not np.array_equal(f32.astype(np.float64), f):
            raise NotApplicable(tform)
        return f32
    if tform == "ndarray":
        return f
    if tform == "list":
        return [float(v) for v in f]
    if tform == "tuple":
        return tuple(float(v) for v in f)
    if tform in ("pd.Series", "pd.Index"):
        import pandas as pd
        return pd.Series(f) if tform == "pd.Series" else pd.Index(f, dtype=np.float64)
    if tform in ("TsIndex", "x.t"):
        if units != "s":                 # a TsIndex / x.t is in seconds by construction
            raise NotApplicable(tform)
        other = nap.Ts(f)
        return other.index if tform == "TsIndex" else other.t
    if tform == "strided_view":          # every other cell of a bigger buffer: shares memory, not contiguous
        big = np.full(2 * len(f) + 1, -1.0)
        big[1::2] = f
        return big[1::2]
    if tform == "readonly":
        f = f.copy()
        f.setflags(write=False)
        return f
    if tform == "reversed":              # decreasing order, negative stride: the constructor sorts
        return f[::-1]
    raise RuntimeError("harness: unknown time form %r" % (tform,))


def mk_sup(nap, s, e, sform="scalars"):
    """the IntervalSet [s, e] built in the form sform"""
    a, b = s / 1e9, e / 1e9
    if sform == "scalars":
        return nap.IntervalSet(a, b)
    if sform == "kw":
        return nap.IntervalSet(start=a, end=b)
    if sform == "arrays":
        return nap.IntervalSet(np.array([a]), np.array([b]))
    if sform == "lists":
        return nap.IntervalSet([a], [b])
    if sform == "2d":
        return nap.IntervalSet(np.array([[a, b]]))
    if sform in ("ms", "us"):
        m = 1e3 if sform == "ms" else 1e6
        return nap.IntervalSet(a * m, b * m, time_units=sform)
    if sform == "metadata":
        return nap.IntervalSet(a, b, metadata={"label": ["x"]})
    if sform == "intersect":             # a derived support: the intersection of two wider ones
        w = max(e - s, U)
        return nap.IntervalSet((s - w) / 1e9, b).intersect(nap.IntervalSet(a, (e + w) / 1e9))
    if sform == "from_ts":               # the default support of another series that spans it
        return nap.Ts(np.array([a, b])).time_support
    if s % S1 or e % S1:
        raise NotApplicable(sform)
    si, ei = s // S1, e // S1
    if sform == "pyint":
        return nap.IntervalSet(int(si), int(ei))
    if sform == "us_pyint":
        return nap.IntervalSet(int(si) * 10 ** 6, int(ei) * 10 ** 6, time_units="us")
    if sform == "float32_arrays":
        if float(np.float32(si)) != si or float(np.float32(ei)) != ei:
            raise NotApplicable(sform)
        return nap.IntervalSet(np.array([si], dtype=np.float32), np.array([ei], dtype=np.float32))
    if sform.endswith("_arrays"):
        dt = np.dtype(sform[:-7])
        if not (np.iinfo(dt).min <= si and ei <= np.iinfo(dt).max):
            raise NotApplicable(sform)
        return nap.IntervalSet(np.array([si], dtype=dt), np.array([ei], dtype=dt))
    raise RuntimeError("harness: unknown support form %r" % (sform,))


def build_ts(nap, ts, s, e, form=None):
    """the input Ts with stamps `ts` on the support [s, e], reached through the construction history form['hist']"""
    if form is None:
        return nap.Ts(G.arr(ts), time_support=mk_support(nap, s, e))
    tf, un, hist, step = form.get("t", "ndarray"), form.get("units", "s"), form.get("hist", "direct"), form.get("step", U)
    sup = mk_sup(nap, s, e, form.get("sup", "scalars"))
    n = len(ts)
    if hist == "direct":
        return nap.Ts(mk_times(nap, ts, tf, un), un, sup)
    if hist == "direct_kw":
        return nap.Ts(time_support=sup, time_units=un, t=mk_times(nap, ts, tf, un))
    if hist in ("restrict", "TsIndex_slice"):
        wide = [s - 2 * step, s - step] + list(ts) + [e + step]
        if hist == "restrict":           # a longer recording cut down to the support
            return nap.Ts(mk_times(nap, wide, tf, un), time_units=un).restrict(sup)
        return nap.Ts(nap.Ts(mk_times(nap, wide, tf, un), time_units=un).index[2:-1], time_support=sup)    # a TsIndex VIEW into another object's index
    if hist == "tsd_index":              # the index of a Tsd re-used for a Ts
        if tf.startswith("pd.Series"):   # Tsd(t=Series) reads the Series as (index -> times, values -> data): another meaning, by design
            raise NotApplicable(tf)
        tsd = nap.Tsd(mk_times(nap, ts, tf, un), np.arange(n), time_units=un, time_support=sup)
        return nap.Ts(tsd.index, time_support=tsd.time_support)
    if hist == "slice_sub":              # parent holds one more stamp (on the support end); the input is a slice of it
        return nap.Ts(mk_times(nap, list(ts) + [e], tf, un), time_units=un, time_support=sup)[0:n]
    parent = nap.Ts(mk_times(nap, ts, tf, un), time_units=un, time_support=sup)
    if hist == "slice_all":
        return parent[:]
    if hist == "mask":
        return parent[np.ones(n, dtype=bool)]
    if hist == "fancy":
        return parent[np.arange(n)]
    if hist == "get":
        return parent.get(s / 1e9, e / 1e9)
    if hist == "saveload":
        path = os.path.join(_tmpdir(), "ts.npz")
        parent.save(path)
        return nap.load_file(path)
    raise RuntimeError("harness: unknown history %r" % (hist,))


def mk_data(n, dt, dseed):
    """n data values of a Tsd member (the generators must ignore them): every dtype, NaN / +inf / -inf, zeros, all equal"""
    r = random.Random(dseed)
    if dt == "nan_inf":
        return np.array([r.choice([np.nan, np.inf, -np.inf, 1.0, 0.0]) for _ in range(n)], dtype=np.float64)
    if dt == "zeros":
        return np.zeros(n)
    if dt == "equal":
        return np.full(n, 7.0)
    if dt == "bool":
        return np.array([r.random() < 0.5 for _ in range(n)], dtype=bool)
    d = np.dtype(dt)
    if d.kind == "f":
        return np.array([r.randint(-5, 5) for _ in range(n)], dtype=d)
    lo = 0 if d.kind == "u" else -5
    return np.array([r.choice([lo, 5, np.iinfo(d).max, np.iinfo(d).min]) for _ in range(n)], dtype=d)


def build_group(nap, keys, tss, s, e, gf=None):
    """the input TsGroup {keys[i]: tss[i]} on [s, e]; keys / members / container / options / history in the form gf"""
    if gf is None:
        return nap.TsGroup({k: nap.Ts(G.arr(ts)) for k, ts in zip(keys, tss)}, time_support=mk_support(nap, s, e))
    sup = mk_sup(nap, s, e, gf.get("sup", "scalars"))
    mform, kform, hist, step, un = gf.get("member", "Ts"), gf.get("keys", "int"), gf.get("hist", "direct"), gf.get("step", U), gf.get("units", "s")
    keys, tss = list(keys), [list(t) for t in tss]
    full_sup = sup
    if hist == "restrict":               # a wider recording, every member with stamps outside [s, e], cut down with TsGroup.restrict
        tss = [[s - 2 * step] + t + [e + step, e + 3 * step] for t in tss]
        full_sup = mk_sup(nap, s - 4 * step, e + 4 * step, "scalars")
    elif hist in ("subset", "bool_index"):      # one more member, indexed away afterwards
        keys, tss = keys + [max(keys + [0]) + 1], tss + [[s, e]]
    if mform == "same_obj" and any(t != tss[0] for t in tss):
        raise NotApplicable("same_obj needs identical members")
    if mform in ("array", "list", "array_int") and hist == "restrict":
        raise NotApplicable("raw arrays are restricted by the constructor already")
    bypass = bool(gf.get("bypass")) and mform in ("Ts_sup", "Tsd_sup") and hist != "restrict"      # only for members restricted beforehand
    if mform not in ("array", "list", "array_int"):
        un = "s"                         # time_units of TsGroup only applies to raw arrays
    shared = None
    members = []
    for i, ts in enumerate(tss):
        if mform == "Ts":
            m = nap.Ts(G.arr(ts))
        elif mform == "Ts_sup":
            m = nap.Ts(G.arr(ts), time_support=full_sup)
        elif mform == "Ts_units":
            u = ("ms", "us")[i % 2]
            m = nap.Ts(mk_times(nap, ts, "ndarray", u), time_units=u)
        elif mform == "TsIndex":
            m = nap.Ts(nap.Ts(G.arr(ts)).index)
        elif mform in ("Tsd", "Tsd_sup"):
            d = mk_data(len(ts), TSD_DATA[(gf.get("dseed", 0) + i) % len(TSD_DATA)] if gf.get("data") is None else gf["data"], gf.get("dseed", 0) + i)
            m = nap.Tsd(G.arr(ts), d) if mform == "Tsd" else nap.Tsd(G.arr(ts), d, time_support=full_sup)
        elif mform == "array":
            m = mk_times(nap, ts, "ndarray", un)
        elif mform == "list":
            m = mk_times(nap, ts, "list", un)
        elif mform == "array_int":
            m = mk_times(nap, ts, ("int64", "uint16", "int32", "uint64")[i % 4], un)
        elif mform == "same_obj":
            shared = shared if shared is not None else nap.Ts(G.arr(ts))
            m = shared
        else:
            raise RuntimeError("harness: unknown member form %r" % (mform,))
        members.append(m)
    ko = []
    for i, k in enumerate(keys):
        f = kform if kform != "mixed" else ("int", "str", "float", "np.int64")[i % 4]
        ko.append(str(k) if f == "str" else float(k) if f == "float" else np.int64(k) if f == "np.int64" else int(k))
    if kform in ("list", "tuple"):
        if keys != list(range(len(keys))):
            raise NotApplicable("an iterable gives the keys 0..n-1")
        data = list(members) if kform == "list" else tuple(members)
    elif kform == "reversed":            # insertion order decreasing: the group sorts its keys
        data = dict(reversed(list(zip(ko, members))))
    else:
        data = dict(zip(ko, members))
    kw = {}
    if bypass:
        kw["bypass_check"] = True
    if un != "s":
        kw["time_units"] = un
    meta = gf.get("meta")
    lab = ["m%d" % i for i in range(len(keys))]
    if meta == "dict":
        kw["metadata"] = {"label": lab}
    elif meta == "dataframe":
        import pandas as pd
        kw["metadata"] = pd.DataFrame({"label": lab, "depth": list(range(len(keys)))}, index=keys)
    elif meta == "kwargs":
        kw["label"] = np.array(lab)
    g = nap.TsGroup(data, full_sup, **kw) if hist == "direct_pos" else nap.TsGroup(data, time_support=full_sup, **kw)
    if hist == "restrict":
        g = g.restrict(sup)
    elif hist == "subset":
        g = g[keys[:-1]]
    elif hist == "bool_index":
        g = g[np.array([True] * (len(keys) - 1) + [False])]
    elif hist == "saveload":
        if mform in ("Tsd", "Tsd_sup"):
            raise NotApplicable("save/load of Tsd groups is C11's business")
        path = os.path.join(_tmpdir(), "group.npz")
        g.save(path)
        g = nap.load_file(path)
    return g


def run_ts(nap, op, ts, s, e, p, dr, form=None, keep=None, obj=None):
    """-> ("ok", stamps, support) | ("exc", name).  form = {"t","units","sup","hist","step","call": {...}, "twice"}; keep: dict receiving the live
    objects; obj: an existing live object (the result of an earlier call) used instead of building the input"""
    x = build_ts(nap, ts, s, e, form) if obj is None else obj
    if canon_ts(x) != (list(ts), in_support_of(ts, s, e)):
        raise RuntimeError("harness: could not build the input Ts %r on [%d, %d] (form %r)" % (ts, s, e, form))
    cf = None if form is None else form.get("call")
    try:
        with dr:
            r = call_op(nap, op, x, p, cf)
            if form is not None and form.get("twice"):       # the same live object used twice: the second result is the one judged
                dr.mark = len(dr.log)
                r = call_op(nap, op, x, p, cf)
    except Exception as ex:   # noqa: BLE001
        return ("exc", type(ex).__name__)
    if dr.bad:
        raise RuntimeError("harness: " + dr.bad)
    if keep is not None:
        keep["x"], keep["r"] = x, r
    if not (hasattr(r, "t") and hasattr(r, "time_support")):     # the class of the result is not part of the statement
        return ("exc", "not a series of timestamps: " + type(r).__name__)
    if form is not None and canon_ts(x) != (list(ts), in_support_of(ts, s, e)):
        return ("exc", "the INPUT object was modified by the call")
    return ("ok",) + canon_ts(r)


def canon_group(r):
    return ([int(k) for k in r.keys()], [[C.to_ns(v) for v in r[k].t] for k in r.keys()], [(C.to_ns(a), C.to_ns(b)) for a, b in r.time_support.values])


def run_group(nap, op, keys, tss, s, e, p, dr, form=None, keep=None, obj=None):
    """-> ("ok", keys, [stamps], support, [member supports]) | ("exc", name)"""
    g = build_group(nap, keys, tss, s, e, None if form is None else form.get("group", {})) if obj is None else obj
    if list(g.keys()) != list(keys) or [[C.to_ns(v) for v in g[k].t] for k in keys] != [list(t) for t in tss] or \
            (form is not None and canon_group(g)[2] != [(s, e)]):
        raise RuntimeError("harness: could not build the input TsGroup %r (form %r)" % (tss, form))
    cf = None if form is None else form.get("call")
    try:
        with dr:
            r = call_op(nap, op, g, p, cf)
            if form is not None and form.get("twice"):
                dr.mark = len(dr.log)
                r = call_op(nap, op, g, p, cf)
    except Exception as ex:   # noqa: BLE001
        return ("exc", type(ex).__name__)
    if dr.bad:
        raise RuntimeError("harness: " + dr.bad)
    if keep is not None:
        keep["x"], keep["r"] = g, r
    if not (hasattr(r, "keys") and hasattr(r, "time_support") and hasattr(r, "__getitem__")):
        return ("exc", "not a group of series: " + type(r).__name__)
    if form is not None and canon_group(g) != (list(keys), [list(t) for t in tss], [(s, e)]):
        return ("exc", "the INPUT object was modified by the call")
    ks = [int(k) for k in r.keys()]
    gs = [(C.to_ns(a), C.to_ns(b)) for a, b in r.time_support.values]
    # ticks of support endpoints stored as NON-canonical floats (trimmed `end - 1e-6`, never re-rounded): DESIGN.md section 2
    nc = [C.to_ns(x) for x in r.time_support.values.ravel() if float(x) != C.to_ns(x) / 1e9]
    return ("ok", ks, [[C.to_ns(v) for v in r[k].t] for k in r.keys()], gs,
            [[(C.to_ns(a), C.to_ns(b)) for a, b in r[k].time_support.values] for k in r.keys()], nc)


# --------------------------------------------------------------------------------------
# the statement, by brute force on ticks (independent of the model)
def diffs(l):
    return [b - a for a, b in zip(l, l[1:])]


def matchable(out, cand, tol, droppable):
    """is sorted `out` obtained from sorted `cand` by moving each kept candidate by at most tol and dropping only droppable ones?
    (an order-preserving matching exists whenever any matching does: all windows have the same width)"""
    m, n = len(out), len(cand)
    f = [[False] * (n + 1) for _ in range(m + 1)]
    f[0][0] = True
    for j in range(1, n + 1):
        f[0][j] = f[0][j - 1] and droppable[j - 1]
    for i in range(1, m + 1):
        for j in range(1, n + 1):
            f[i][j] = (f[i][j - 1] and droppable[j - 1]) or (f[i - 1][j - 1] and abs(out[i - 1] - cand[j - 1]) <= tol)
    return f[m][n]


def oracle_member(op, ts, s, e, p, out, recomputed):
    """list of (part, what) the statement promises and `out` (result stamps) breaks; the order of `out` is not part of the statement"""
    bad = []
    out = sorted(out)
    if op in ("shift_timestamps", "resample_timestamps"):
        if len(out) != len(ts):
            bad.append(("count", "%d timestamps in, %d out" % (len(ts), len(out))))
        if any(not s <= x <= e for x in out):
            bad.append(("in_support", "a returned timestamp lies outside the original time support"))
    elif op == "shuffle_ts_intervals":
        if len(ts) and (not out or out[0] != ts[0]):
            bad.append(("first", "the first timestamp is not kept"))
        if not len(ts) and out:
            bad.append(("count", "0 timestamps in, %d out" % len(out)))
        if sorted(diffs(out)) != sorted(diffs(ts)):
            bad.append(("isi", "the multiset of inter-event intervals is not kept" if len(out) == len(ts) else
                        "%d timestamps in, %d out: the inter-event intervals are not kept" % (len(ts), len(out))))
    else:
        J = p["J"]
        if recomputed:
            if len(out) != len(ts):
                bad.append(("count", "support recomputed, yet %d timestamps in, %d out" % (len(ts), len(out))))
            elif any(abs(a - b) > J for a, b in zip(out, ts)):
                bad.append(("bound", "the k-th timestamp (sorted) moved by more than max_jitter"))
        else:
            # support kept: the result is the jittered series restricted to [s, e]: every returned stamp is an input stamp moved by at
            # most J (one input stamp each), and an input stamp may be MISSING only if a move of at most J can take it out of [s, e]
            if any(not s <= x <= e for x in out):
                bad.append(("in_support", "a returned timestamp lies outside the kept time support"))
            elif len(out) > len(ts):
                bad.append(("count", "support kept, yet %d timestamps in, %d out" % (len(ts), len(out))))
            elif not matchable(out, ts, J, [True] * len(ts)):
                bad.append(("bound", "the returned timestamps are not distinct input timestamps moved by at most max_jitter each"))
            elif not matchable(out, ts, J, [t - J < s or t + J > e for t in ts]):
                bad.append(("dropped_inside", "a timestamp that no move of at most max_jitter can take out of the kept support is missing from the result"))
    return bad


def align_draws(op, tss, draws):
    """one draw entry per member: shuffle consumes no draw for an empty member (it is returned unchanged)"""
    if op != "shuffle_ts_intervals":
        return draws
    it, out = iter(draws), []
    for ts in tss:
        if not ts:
            out.append([])
        else:
            d = next(it, None)
            if d is None:
                return draws
            out.append(d)
    return out if next(it, None) is None else draws


def support_kept(op, p):
    return op in ("shift_timestamps", "resample_timestamps") or (op == "jitter_timestamps" and p["keep"])


def expected_free(op, ts, dr_vals):
    """what the member looks like before any restriction, from the recorded draws (used only to CLASSIFY a loss)"""
    if op == "jitter_timestamps":
        return sorted(t + d for t, d in zip(ts, dr_vals))
    if not ts:
        return []
    d, out = diffs(ts), [ts[0]]
    for i in dr_vals:
        out.append(out[-1] + d[i])
    return out


def judge_ts(op, ts, s, e, p, r):
    """-> list of violation dicts (without input)"""
    empty = not len(ts)
    if r[0] == "exc":
        return [{"key": {"op": op, "kind": "Ts", "part": "exception", "exception": r[1], "empty_input": empty}, "what": "%s(Ts) raised %s" % (op, r[1])}]
    _, out, sup = r
    v = [{"key": {"op": op, "kind": "Ts", "part": part, "empty_input": empty}, "what": "%s(Ts): %s" % (op, what), "impl": out}
         for part, what in oracle_member(op, ts, s, e, p, out, recomputed=not support_kept(op, p))]
    if support_kept(op, p) and sup != in_support_of(ts, s, e):
        v.append({"key": {"op": op, "kind": "Ts", "part": "support", "empty_input": empty}, "what": "%s(Ts): the time support is not kept" % op, "impl": sup,
                  "expected": in_support_of(ts, s, e)})
    return v


def kept_by_draws(ts, s, e, out, dvals, tol):
    """jitter_timestamps(keep_tsupport=True) against the RECORDED draws: the result is the stamps t_k + d_k that fall inside [s, e]
    (C20_jitter_keep_support). tol = 1 tick when the draws are real floats (t + d is rounded to 1e-9 once, the recorded d separately)"""
    cand = sorted(t + d for t, d in zip(ts, dvals))
    return len(dvals) == len(ts) and matchable(sorted(out), cand, tol, [not (s + tol <= c <= e - tol) for c in cand])


def judge_group(op, keys, tss, s, e, p, r, draws, res=None):
    kind = "TsGroup"
    # the patterns of the known findings are computed from the RESULT the recorded draws imply; when the recorded draws do not line up
    # with the members (the call stopped half-way) no pattern is assigned
    aligned = len(draws) == len(tss) and all(len(d) == (len(ts) if op == "jitter_timestamps" else max(len(ts) - 1, 0)) for ts, d in zip(tss, draws))
    free = [expected_free(op, ts, d) for ts, d in zip(tss, draws)] if (not support_kept(op, p)) and aligned else [list(t) for t in tss]
    degenerate = [aligned and len(set(f)) <= 1 for f in free]
    if res is not None and aligned and not support_kept(op, p) and len(tss) == 2 and not any(degenerate) and \
            (free[0][-1] == free[1][0] or free[1][-1] == free[0][0]):
        res.count("recomputed_pair_with_touching_supports")      # an exception until 6917604; now the two supports must merge
    if r[0] == "exc":
        key = {"op": op, "kind": kind, "part": "exception", "exception": r[1]}
        if r[1] == "IndexError" and op == "shuffle_ts_intervals" and any(len(t) == 0 for t in tss):
            key["pattern"] = "empty_member"
        elif r[1] == "RuntimeError" and not support_kept(op, p) and not tss:
            key["pattern"] = "empty_group"        # no member at all: its own pattern, so that the known zero-span entries cannot absorb it
        elif r[1] == "RuntimeError" and not support_kept(op, p) and all(degenerate):
            key["pattern"] = "all_members_single_distinct_timestamp"
        return [{"key": key, "what": "%s(TsGroup) raised %s" % (op, r[1])}]
    _, ks, outs, gs, msups = r[:5]
    v = []
    if ks != list(keys):
        v.append({"key": {"op": op, "kind": kind, "part": "keys"}, "what": "%s(TsGroup): keys not preserved" % op, "impl": ks, "expected": list(keys)})
        return v
    kept = support_kept(op, p)
    for i, (ts, out) in enumerate(zip(tss, outs)):
        for part, what in oracle_member(op, ts, s, e, p, out, recomputed=not kept):
            key = {"op": op, "kind": kind, "part": part}
            if not kept and aligned and len(out) < len(ts):
                lost = list(free[i])
                for x in out:
                    if x in lost:
                        lost.remove(x)
                other = free[1 - i] if len(tss) == 2 else []
                if degenerate[i]:
                    key["pattern"] = "member_single_distinct_timestamp"
                elif lost and len(set(other)) > 1 and free[i][-1] == other[0] and all(other[0] - 1000 <= x < other[0] for x in lost):
                    key["pattern"] = "two_members_touching_supports"      # the defect repaired by 6917604 (no known entry any more): names it if it comes back
            v.append({"key": key, "what": "%s(TsGroup) member %d: %s" % (op, keys[i], what), "impl": outs})
    if kept:
        if gs != [(s, e)]:
            v.append({"key": {"op": op, "kind": kind, "part": "support"}, "what": "%s(TsGroup): the time support is not kept" % op, "impl": gs, "expected": [(s, e)]})
        elif any(ms != gs for ms, out in zip(msups, outs) if out):
            v.append({"key": {"op": op, "kind": kind, "part": "member_support"}, "what": "%s(TsGroup): a member's time support differs from the group's" % op, "impl": msups})
    return v


# --------------------------------------------------------------------------------------
# model lines
def line_ts(op, ts, s, e, p, draws):
    if op == "shift_timestamps":
        return "shift\t%d %d %d\t%s" % (s, e, draws[0][0], C.fmt_ints(ts))
    if op == "jitter_timestamps":
        return "jitter\t%d %d %d\t%s\t%s" % (1 if p["keep"] else 0, s, e, C.fmt_ints(ts), C.fmt_ints(draws[0]))
    if op == "resample_timestamps":
        return "resample\t%d %d\t%s" % (s, e, C.fmt_ints(draws[0]))
    return "shuffle\t%s\t%s" % (C.fmt_ints(ts), C.fmt_ints(draws[0] if draws else []))


def line_group(op, keys, tss, s, e, p, draws):
    if op == "shift_timestamps":
        return "shift_group\t%d %d\t%s\t%s\t%s" % (s, e, C.fmt_ints(keys), C.fmt_ints([d[0] for d in draws]), "\t".join(C.fmt_ints(t) for t in tss))
    pairs = "\t".join(C.fmt_ints(t) + "\t" + C.fmt_ints(d) for t, d in zip(tss, draws))
    if op == "jitter_timestamps":
        return "jitter_group\t%d %d %d\t%s\t%s" % (1 if p["keep"] else 0, s, e, C.fmt_ints(keys), pairs)
    if op == "resample_timestamps":
        return "resample_group\t%d %d\t%s\t%s" % (s, e, C.fmt_ints(keys), pairs)
    return "shuffle_group\t%s\t%s" % (C.fmt_ints(keys), pairs)


def parse_iset(f):
    v = [int(x) for x in f.split()]
    return [(v[2 * i], v[2 * i + 1]) for i in range(len(v) // 2)]


def parse_model_ts(out):
    if out == "none":
        return ("exc",)
    f = out.split("|")
    return ("ok", [int(x) for x in f[0].split()], parse_iset(f[1]))


def parse_model_group(out):
    if out == "none":
        return ("exc",)
    f = out.split("|")
    return ("ok", [int(x) for x in f[0].split()], [[int(x) for x in m.split()] for m in f[1:-1]], parse_iset(f[-1]))


# --------------------------------------------------------------------------------------
# case generators
SHIFT_PARAMS = ({"min": 0, "max": None}, {"min": 0, "max": 4 * U}, {"min": U, "max": 3 * U}, {"min": 2 * U, "max": 9 * U}, {"min": -3 * U, "max": 2 * U})


def lattice_range(lo, hi):
    return list(range(lo, hi + 1, U))


def ts_cases(tier, seed):
    """(op, ts, s, e, params, script) on a 5-point dyadic lattice; the support is [o, o + 4U] and stamps may sit on both ends"""
    rng = random.Random(seed * 7 + 3)
    out = []
    for o in ORIGINS:
        pts = G.lattice(5, step=U, origin=o)
        s, e = o, o + 4 * U
        ms3 = [m for m in G.sorted_multisets(pts, 3) if m]
        ms4 = [m for m in G.sorted_multisets(pts, 4) if m]
        for ts in ms3:
            for p in SHIFT_PARAMS:
                hi = p["max"] if p["max"] is not None else ts[-1] - ts[0]
                for sg in lattice_range(p["min"], hi):
                    out.append(("shift_timestamps", ts, s, e, p, [sg]))
            for J in (U, 2 * U):
                vecs = list(itertools.product(lattice_range(-J, J), repeat=len(ts)))
                if tier == "quick" and J == 2 * U and len(vecs) > 25:
                    vecs = rng.sample(vecs, 12)
                for keep in (False, True):
                    for ds in vecs:
                        out.append(("jitter_timestamps", ts, s, e, {"J": J, "keep": keep}, list(ds)))
            for us in itertools.product(lattice_range(ts[0], ts[-1]), repeat=len(ts)):
                out.append(("resample_timestamps", ts, s, e, {}, list(us)))
        for ts in ms4:
            for perm in itertools.permutations(range(len(ts) - 1)):
                out.append(("shuffle_ts_intervals", ts, s, e, {}, [list(perm)]))
    return out


def rand_ts(rng, o, L, nmax, dup=0.25):
    n = rng.randint(1, nmax)
    ts = []
    for _ in range(n):
        r = rng.random()
        if ts and r < dup:
            ts.append(rng.choice(ts))
        elif r < dup + 0.08:
            ts.append(o + rng.choice([0, L]) * U)
        else:
            ts.append(o + rng.randint(0, L) * U)
    return sorted(ts)


def rand_params(rng, op, L):
    if op == "shift_timestamps":
        r = rng.random()
        if r < 0.3:
            return {"min": 0, "max": None}
        a = rng.randint(-L, L) * U if r < 0.5 else rng.randint(0, L) * U
        return {"min": a, "max": a + rng.randint(0, 2 * L) * U}
    if op == "jitter_timestamps":
        return {"J": rng.choice([U, 2 * U, 5 * U, L * U]), "keep": rng.random() < 0.5}
    return {}


def group_cases(tier, seed):
    """(op, keys, tss, s, e, params) with lattice draws; members may be empty, single stamps, duplicates"""
    rng = random.Random(seed * 11 + 5)
    out = []
    n = 2500 if tier == "quick" else 40000
    for _ in range(n):
        o = rng.choice(ORIGINS)
        L = rng.choice([4, 4, 6, 12])
        s, e = o, o + L * U
        nm = rng.choice([1, 2, 2, 3, 3, 4])
        keys = sorted(rng.sample(range(0, 12), nm))
        tss = []
        for _k in keys:
            r = rng.random()
            if r < 0.06:
                tss.append([])
            elif r < 0.16:
                tss.append([o + rng.randint(0, L) * U])
            else:
                tss.append(rand_ts(rng, o, L, 4))
        op = rng.choice(OPS)
        out.append((op, keys, tss, s, e, rand_params(rng, op, L)))
    return out



# --------------------------------------------------------------------------------------
# sampler of (case, argument form)
ORIGIN_NAMES = ("0", "100s", "-50s", "straddle0", "1e5s")
PARAM_SPECIALS = ("max_jitter=0", "min_shift==max_shift", "max_shift=None", "min_shift<0", "max_shift>span")


def origin_ticks(name, L, step):
    return {"0": 0, "100s": 100 * 10 ** 9, "-50s": -50 * 10 ** 9, "straddle0": -(L // 2) * step, "1e5s": BIG}[name]


def rand_ts_step(rng, o, L, nmax, step, dup=0.25):
    n = rng.randint(1, nmax)
    ts = []
    for _ in range(n):
        r = rng.random()
        if ts and r < dup:
            ts.append(rng.choice(ts))
        elif r < dup + 0.1:
            ts.append(o + rng.choice([0, L]) * step)
        else:
            ts.append(o + rng.randint(0, L) * step)
    return sorted(ts)


def rand_params_form(rng, op, L, step, special=None):
    if op == "shift_timestamps":
        r = rng.random()
        if special == "max_shift=None" or (special is None and r < 0.25):
            return {"min": rng.choice([0, 0, step]), "max": None}
        if special == "min_shift==max_shift" or (special is None and r < 0.35):
            a = rng.randint(-L, 2 * L) * step
            return {"min": a, "max": a}
        if special == "min_shift<0":
            a = -rng.randint(1, L) * step
        elif special == "max_shift>span":
            a = rng.randint(L, 2 * L) * step
        else:
            a = rng.randint(-L, L) * step if r < 0.5 else rng.randint(0, L) * step
        return {"min": a, "max": a + rng.randint(1 if special else 0, 2 * L) * step}
    if op == "jitter_timestamps":
        J = 0 if special == "max_jitter=0" else rng.choice([0, step, step, 2 * step, 5 * step, L * step])
        return {"J": J, "keep": rng.random() < 0.5}
    return {}


def sample_case(rng, kind, op, force):
    whole = force.get("whole")
    if whole is None:
        whole = any(v in T_FORMS_WHOLE or v in SUP_FORMS_WHOLE or v in NUM_WHOLE or v == "array_int" for v in force.values() if isinstance(v, str)) \
            or rng.random() < 0.35
    step = S1 if whole else U
    L = rng.choice([4, 6, 12])
    o = origin_ticks(force.get("origin") or rng.choice(ORIGIN_NAMES), L, step)
    s, e = o, o + L * step
    p = rand_params_form(rng, op, L, step, force.get("param"))
    style = rng.choice(STYLES[op])
    call = {"style": style, "num": rng.choice(NUM_ANY + (NUM_WHOLE if whole else ())), "keep": rng.choice(KEEP_FORMS),
            "omit_min": rng.random() < 0.5, "omit_max": rng.random() < 0.6, "kw_swapped": rng.random() < 0.5}
    for k, v in force.items():
        if k.startswith("call."):
            call[k[5:]] = v
    if op == "shuffle_ts_intervals" and call["style"].startswith("extra"):
        call["extra"] = (rng.choice([0, step, 3 * step]), rng.choice([None, 4 * step]))
    elif op in ("resample_timestamps", "shuffle_ts_intervals"):
        call["num"] = "float"
    form = {"step": step, "call": call, "twice": force.get("twice", rng.random() < 0.12)}
    sups = SUP_FORMS_ANY + (SUP_FORMS_WHOLE if whole else ())
    c = {"kind": kind, "op": op, "s": s, "e": e, "p": p, "form": form}
    if kind == "Ts":
        form.update(t=rng.choice(T_FORMS_ANY + (T_FORMS_WHOLE if whole else ())), units=rng.choice(["s", "s", "ms", "us"]),
                    sup=rng.choice(sups), hist=rng.choice(HIST_TS))
        for k in ("t", "units", "sup", "hist"):
            if k in force:
                form[k] = force[k]
        r = rng.random()
        if force.get("ts") == "empty" or (r < 0.05 and "hist" not in force and "ts" not in force):
            c["ts"] = []
            form["hist"] = rng.choice(["direct", "direct_kw"])
        elif force.get("ts") == "single" or r < 0.15:
            c["ts"] = [o + rng.randint(0, L) * step]
        elif force.get("ts") == "bool01":
            c["ts"] = sorted(rng.choice([0, step]) for _ in range(rng.randint(1, 4)))
        elif force.get("ts") == "all_equal":
            c["ts"] = [o + rng.randint(0, L) * step] * rng.randint(2, 4)
        else:
            c["ts"] = rand_ts_step(rng, o, L, 6, step)
        return c
    gf = {"step": step, "sup": rng.choice(sups), "member": rng.choice(MEMBER_FORMS + (() if whole else ())), "keys": rng.choice(KEY_FORMS),
          "keyset": rng.choice(KEY_SETS), "hist": rng.choice(GROUP_HIST), "meta": rng.choice(GROUP_META), "bypass": rng.random() < 0.4,
          "units": rng.choice(["s", "s", "ms", "us"]), "data": rng.choice((None,) + TSD_DATA), "dseed": rng.randrange(10 ** 6)}
    for k, v in force.items():
        if k.startswith("group."):
            gf[k[6:]] = v
    if gf["member"] == "array_int" and not whole:
        gf["member"] = "array"
    if force.get("group.bypass") and "group.member" not in force:
        gf["member"] = rng.choice(["Ts_sup", "Tsd_sup"])
        gf["hist"] = rng.choice([h for h in GROUP_HIST if h != "restrict"])
    if force.get("group.data") and "group.member" not in force:
        gf["member"] = rng.choice(["Tsd", "Tsd_sup"])
    if force.get("group.units") and "group.member" not in force:
        gf["member"] = rng.choice(["array", "list"] + (["array_int"] if whole else []))
    if gf["member"] in ("array", "list", "array_int") and gf["hist"] == "restrict" and "group.hist" not in force:
        gf["hist"] = "direct"
    if gf["member"] in ("Tsd", "Tsd_sup") and gf["hist"] == "saveload" and "group.hist" not in force:
        gf["hist"] = "subset"
    form["group"] = gf
    nm = rng.choice([1, 2, 2, 3, 3, 4])
    if gf["keys"] in ("list", "tuple"):
        gf["keyset"] = "range"
    ks = gf["keyset"]
    keys = list(range(nm)) if ks == "range" else sorted(rng.sample(range(0, 12) if ks == "small" else range(10, 400) if ks == "multi_digit" else range(-9, 6), nm))
    tss = []
    for _k in keys:
        r = rng.random()
        tss.append([] if r < 0.06 else [o + rng.randint(0, L) * step] if r < 0.16 else rand_ts_step(rng, o, L, 4, step))
    if gf["member"] == "same_obj":
        tss = [list(tss[-1]) for _ in keys]
    c["keys"], c["tss"] = keys, tss
    return c


def gen_form_case(rng, nap, kind, op, force=None, tries=80):
    """a sampled case whose form can hold the sampled values exactly (uint8 cannot hold -50 s, float32 cannot hold 1e5 s + 2^-9 s, ...)"""
    for _ in range(tries):
        c = sample_case(rng, kind, op, force or {})
        try:
            check_nums(op, c["p"], c["form"]["call"])
            if kind == "Ts":
                build_ts(nap, c["ts"], c["s"], c["e"], c["form"])
            else:
                build_group(nap, c["keys"], c["tss"], c["s"], c["e"], c["form"]["group"])
        except NotApplicable:
            continue
        return c
    return None


def forced_axes(kind, op):
    """one-factor-at-a-time list: every value of every form axis is generated at least once per operation and tier, whatever the seed"""
    out = [{"origin": v} for v in ORIGIN_NAMES] + [{"twice": True}]
    out += [{"call.style": v} for v in STYLES[op]]
    if op == "shift_timestamps":
        out += [{"call.num": v} for v in NUM_ANY + NUM_WHOLE] + [{"param": v} for v in PARAM_SPECIALS[1:]]
        out += [{"param": "max_shift=None", "call.omit_max": a, "call.omit_min": b, "call.style": st} for a in (True, False) for b in (True, False) for st in ("pos", "kw")]
        out += [{"call.style": "kw", "call.kw_swapped": True}]
    if op == "jitter_timestamps":
        out += [{"call.num": v} for v in NUM_ANY + NUM_WHOLE] + [{"param": "max_jitter=0"}]
        out += [{"call.keep": k, "call.style": st} for k in KEEP_FORMS for st in ("pos", "kw", "mixed")]
    if op == "shuffle_ts_intervals":
        out += [{"call.style": st, "call.num": v} for st in ("extra_pos", "extra_kw") for v in ("float", "int", "np.float32")]
    sups = [{"sup": v} for v in SUP_FORMS_ANY + SUP_FORMS_WHOLE]
    if kind == "Ts":
        out += sups + [{"t": v} for v in T_FORMS_ANY + T_FORMS_WHOLE if v != "bool"] + [{"units": v} for v in ("ms", "us")] + [{"hist": v} for v in HIST_TS]
        out += [{"t": "bool", "origin": "0", "units": "s", "ts": "bool01", "hist": h} for h in ("direct", "get")]      # a bool array can only say 0 s and 1 s
        out += [{"t": v, "units": u} for v in ("int64", "uint32", "list", "pd.Series") for u in ("ms", "us")]
        out += [{"ts": v} for v in ("empty", "single", "all_equal")] + [{"ts": "single", "hist": h} for h in ("slice_sub", "restrict", "get")]
        out += [{"t": "TsIndex", "hist": h} for h in ("direct", "slice_sub", "restrict")] + [{"hist": "TsIndex_slice", "twice": True}]
    else:
        out += [{"group." + k: v["sup"]} for v in sups for k in ("sup",)]
        out += [{"group.member": v} for v in MEMBER_FORMS] + [{"group.keys": v} for v in KEY_FORMS] + [{"group.keyset": v} for v in KEY_SETS]
        out += [{"group.hist": v} for v in GROUP_HIST] + [{"group.meta": v} for v in GROUP_META[1:]] + [{"group.bypass": True}]
        out += [{"group.data": v} for v in TSD_DATA] + [{"group.units": v} for v in ("ms", "us")]
        out += [{"group.keys": "str", "group.keyset": "multi_digit"}, {"group.keys": "reversed", "group.keyset": "negative"},
                {"group.member": "same_obj", "twice": True}, {"group.member": "Tsd", "group.hist": "restrict"},
                {"group.member": "Tsd_sup", "group.bypass": True, "group.meta": "dict"}]
    return out


def form_labels(c):
    """the input classes a case belongs to (counted in the evidence file)"""
    kind, op, p, form = c["kind"], c["op"], c["p"], c["form"]
    cf = form["call"]
    out = ["lattice=" + ("1s" if form["step"] == S1 else "2^-9s"), "%s:style=%s" % (op, cf["style"])]
    if "chain" in form:
        out.append("history=result of %s fed to %s" % (form["chain"], op))
    else:
        L = (c["e"] - c["s"]) // form["step"]
        out.append("placement=" + ([n for n in ORIGIN_NAMES if origin_ticks(n, L, form["step"]) == c["s"]] + ["other"])[0])
    if op in ("shift_timestamps", "jitter_timestamps") or cf["style"].startswith("extra"):
        out.append("num=" + cf["num"])
    if op == "shift_timestamps":
        if p["max"] is None:
            out.append("max_shift=" + ("left out" if cf.get("omit_max") else "None spelled"))
        elif p["min"] == p["max"]:
            out.append("min_shift==max_shift")
        if p["min"] == 0 and cf.get("omit_min") and (cf["style"] != "pos" or (p["max"] is None and cf.get("omit_max"))):
            out.append("min_shift left out")
        if p["min"] < 0:
            out.append("min_shift<0")
    if op == "jitter_timestamps":
        out.append("keep_tsupport=" + ("left out" if cf["keep"] == "omit" and not p["keep"] else "np.bool_" if cf["keep"] == "np.bool_" else "bool") + ("/True" if p["keep"] else "/False"))
        if p["J"] == 0:
            out.append("max_jitter=0")
    if form.get("twice"):
        out.append("same live object used twice")
    if "chain" in form:
        pass
    elif kind == "Ts":
        out += ["t=" + form["t"], "units=" + form["units"], "support=" + form["sup"], "history=" + form["hist"]]
        out.append("Ts:" + ("empty" if not c["ts"] else "single stamp" if len(c["ts"]) == 1 else "all stamps equal" if len(set(c["ts"])) == 1 else "general"))
    elif c["keys"]:
        gf = form["group"]
        raw = gf["member"] in ("array", "list", "array_int")
        out += ["group:support=" + gf["sup"], "group:member=" + gf["member"], "group:keys=" + gf["keys"], "group:keyset=" + gf["keyset"],
                "group:history=" + gf["hist"], "group:metadata=" + str(gf["meta"])]
        if raw:
            out.append("group:time_units=" + gf["units"])
        if gf["member"] in ("Tsd", "Tsd_sup"):
            out.append("group:Tsd data=" + (gf["data"] or "cycled dtypes"))
        if gf.get("bypass") and gf["member"] in ("Ts_sup", "Tsd_sup") and gf["hist"] != "restrict":
            out.append("group:bypass_check=True")
        if any(not t for t in c["tss"]):
            out.append("group:with an empty member")
    else:
        out.append("group:EMPTY TsGroup built from " + {"int": "{}", "list": "[]", "tuple": "()"}[form["group"]["keys"]])
    return out


def line_empty_group(op, s, e, p):
    """model line of a group WITHOUT members (line_group would emit one empty member)"""
    if op == "shift_timestamps":
        return "shift_group\t%d %d\t\t" % (s, e)
    if op == "jitter_timestamps":
        return "jitter_group\t%d %d %d\t" % (1 if p["keep"] else 0, s, e)
    if op == "resample_timestamps":
        return "resample_group\t%d %d\t" % (s, e)
    return "shuffle_group\t"


def judged_draws(dr):
    """the draws of the call whose outcome is judged: the SECOND of two calls on one live object when it was reached, else everything"""
    return dr.flat()[dr.mark:] if dr.mark is not None else dr.flat()


def judged_log(dr):
    return dr.log[dr.mark:] if dr.mark is not None else dr.log


def range_errors(op, kind, members, s, e, p, log):
    """the library must ask NumPy for draws in the range the signature documents (the model takes the draws as arguments under exactly that
    precondition): list of messages. Default max_shift of a Ts: last - first stamp in the code, 'length of time support' in the docstring - both accepted"""
    bad = []
    us = [x for x in log if x[0] == "u"]
    if op == "shuffle_ts_intervals":
        return ["np.random.uniform called by shuffle_ts_intervals"] if us else []
    for _, lo, hi, _v in us:
        if op == "shift_timestamps":
            his = [p["max"]] if p["max"] is not None else [e - s] + ([members[0][-1] - members[0][0]] if kind == "Ts" and members[0] else [])
            ok = lo == p["min"] and hi in his
        elif op == "jitter_timestamps":
            ok = (lo, hi) == (-p["J"], p["J"])
        else:
            ok = (lo, hi) == (s, e) or (kind == "Ts" and members[0] and (lo, hi) == (members[0][0], members[0][-1]))
        if not ok:
            bad.append("%s drew from [%d, %d] ns, parameters %r, support [%d, %d]" % (op, lo, hi, p, s, e))
    return bad[:1]


def check_range(res, op, kind, members, s, e, p, dr, inp):
    for msg in range_errors(op, kind, members, s, e, p, dr.log):
        res.disagreements.append({"op": op, "kind": kind, "input": inp, "what": "draw range: " + msg})


def flag_unsigned(viols, op, form):
    """violations met with an UNSIGNED NumPy scalar as max_jitter carry their own key flag (genuine-defect candidate: -max_jitter wraps around)"""
    if op == "jitter_timestamps" and form is not None and form.get("call", {}).get("num") in UNSIGNED:
        for v in viols:
            v["key"]["unsigned_max_jitter"] = True
    return viols


def run_form_case(nap, res, c, dr, section, n, lines, pending, real=False, keep=None, obj=None):
    """one case in one argument form: library run, statement oracle, draw-range check, model line (lattice draws only)"""
    kind, op, s, e, p, form = c["kind"], c["op"], c["s"], c["e"], c["p"], c["form"]
    unsigned = op == "jitter_timestamps" and form["call"]["num"] in UNSIGNED
    if kind == "Ts":
        ts = c["ts"]
        r = run_ts(nap, op, ts, s, e, p, dr, form=form, keep=keep, obj=obj)
        draws = judged_draws(dr)
        inp = {"kind": "Ts", "op": op, "ts": ts, "support": [s, e], "params": p, "form": form}
        inp.update({"numpy_seed": dr.seed} if real else {"draws": draws})
        res.case((section, n), nontrivial=r[0] == "ok" and r[1] != ts)
        record(res, flag_unsigned(judge_ts(op, ts, s, e, p, r), op, form), inp)
        members = [ts]
    else:
        keys, tss = c["keys"], c["tss"]
        r = run_group(nap, op, keys, tss, s, e, p, dr, form=form, keep=keep, obj=obj)
        draws = align_draws(op, tss, judged_draws(dr))
        inp = {"kind": "TsGroup", "op": op, "keys": keys, "tss": tss, "support": [s, e], "params": p, "form": form}
        inp.update({"numpy_seed": dr.seed} if real else {"draws": draws})
        res.case((section, n), nontrivial=r[0] == "ok" and r[2] != tss)
        record(res, flag_unsigned(judge_group(op, keys, tss, s, e, p, r, draws, res=res), op, form), inp)
        members = tss
    for lab in form_labels(c):
        if not real:
            res.count("forms " + lab)
        elif lab.startswith(("t=", "num=", "group:member=", "keep_tsupport=", "same live")):      # (the other families are counted for the lattice runs)
            res.count("forms(real rng) " + lab)
    if not unsigned:
        for msg in range_errors(op, kind, members, s, e, p, dr.log):      # both calls of a 'twice' case
            res.disagreements.append({"op": op, "kind": kind, "input": inp, "what": "draw range: " + msg})
    if real:
        if op == "jitter_timestamps" and p["keep"] and r[0] == "ok" and not unsigned:
            dv = judged_draws(dr)
            outs = [r[1]] if kind == "Ts" else r[2]
            if (kind == "TsGroup" and r[1] != list(c["keys"])) or len(dv) != len(members) or \
                    not all(kept_by_draws(t, s, e, o_, d, 1) for t, o_, d in zip(members, outs, dv)):
                res.disagreements.append({"op": op, "kind": kind, "input": dict(inp, draws=dv), "impl": r[1:4],
                                          "what": "keep_tsupport=True: the result is not the stamps t_k + d_k (recorded draws) that fall inside the support"})
        return r
    # model comparison: the forms do not change WHAT is given, so the same model line applies. Not compared: a call that raised before drawing
    # (already a violation) and an unsigned max_jitter (the draws break the model's precondition |d| <= J)
    if unsigned or dr.inverted:
        res.count("forms: model comparison skipped (inverted draw range)")
    elif kind == "Ts":
        if r[0] == "ok":
            mdraws = draws if draws else [[0] if op == "shift_timestamps" else []]
            lines.append(line_ts(op, ts, s, e, p, mdraws))
            pending.append(("Ts", inp, r))
    elif not keys and not support_kept(op, p) and r[0] == "ok":
        # the model's TsGroup constructor raises on an empty union of supports, members or not (that is the library's behaviour at the pinned commit, reported
        # as pattern empty_group); a library repaired to return the empty group is judged by the statement oracle alone on this form
        res.count("forms: model comparison skipped (empty group returned, model says 'raises')")
    elif len(draws) == len(members):
        lines.append(line_group(op, keys, tss, s, e, p, draws) if keys else line_empty_group(op, s, e, p))
        pending.append(("TsGroup", inp, r))
    elif r[0] != "exc":
        res.disagreements.append({"op": op, "input": inp, "what": "number of recorded draw calls differs from the number of members"})
    return r


# --------------------------------------------------------------------------------------
def record(res, viols, inp):
    for v in viols:
        v["input"] = inp
        res.violations.append(v)


def run(res, tier, seed):
    nap = _nap()
    warnings.simplefilter("ignore")
    res.rule = ("public shift_timestamps / jitter_timestamps / resample_timestamps / shuffle_ts_intervals on Ts and TsGroup, support origin in {0 s, 100 s, -50 s}. "
                "(A) Ts, COMPLETE: all sorted multisets of 1..3 stamps (1..4 for shuffle) on a 5-point dyadic lattice spanning the support (stamps on both support ends, duplicates, "
                "single stamps) x ALL draws: every shift in [min, max] for 5 (min, max) incl. default, negative and > support length; every jitter vector in {-J..J}^n, J in {1, 2} "
                "lattice steps, keep_tsupport both ways (J = 2: seeded subsample in quick); every resample vector in [first, last]^n; every permutation of the intervals. "
                "(B) TsGroup: seeded random groups of 1..4 members (empty / single-stamp / duplicate members) with lattice draws. (C) larger random Ts/TsGroup, n <= 40, lattice draws. "
                "(D) NumPy's real generator, seeded, 200 (quick) / 5000 (thorough) seeds x 4 generators x Ts/TsGroup, statement oracle only. (E) shuffle on ns-resolution stamps. "
                "(F) shift/jitter/resample with ns-resolution stamps and draws (a shift landing exactly on a multiple of the support length may come out as end instead of start: float_ambiguous). "
                "(G) the EMPTY Ts x 3 origins x 4 generators x every parameter set (5 shift ranges, jitter keep both ways): no exception, nothing out. "
                "Every (A)(B)(C)(E)(F)(G) case is also compared with the extracted Coq model fed the recorded draws. non-trivial = the draw changes the series (result != input). "
                "ARGUMENT FORMS (H)(J)(K)(L)(M): the same instants and numbers handed over in every form the signatures accept; (H) = every value of every axis below once per "
                "operation (one factor at a time, deterministic) + a seeded sample of the product, lattice draws, model compared; (L) = the same sampler with NumPy's real generator. "
                "Axis 1 (dtype of data): the four generators take no data; Tsd MEMBERS of a TsGroup carry float64/float32/int64..int8/uint8..uint64/bool data, NaN, +inf, -inf, zeros, "
                "all-equal values, which must not matter. "
                "Axis 2 (form of times and scalars): the input stamps as ndarray, list, tuple, pandas Series / Index, another object's TsIndex and .t, a TsIndex slice (view), strided / "
                "read-only / decreasing arrays, float32, int8..int64, uint8..uint64, bool, Python ints (integer forms on a whole-second lattice); the support from scalars, keywords, arrays, "
                "lists, a 2-d array, Python ints, int16/int64/uint16/uint64/float32 arrays, with metadata, as an intersection, as another series' default support; min_shift / max_shift / "
                "max_jitter as float, int, np.float64, np.float32, np.int16/32/64, np.uint8/16/64 and 0-d arrays; keep_tsupport as bool and np.bool_. "
                "Axis 3 (positional / keyword / defaults): every call positional, keyword, mixed and with ts= by keyword, keyword order swapped; max_shift left out / None spelled / given; "
                "min_shift left out / given; keep_tsupport left out / False / True; min_shift == max_shift; max_jitter = 0; shuffle_ts_intervals with its two ignored parameters given. "
                "Axis 4 (time units): the generators take no unit; the INPUT Ts / IntervalSet / raw TsGroup members are built from ms and us values (same instants). "
                "Axis 5 (placement): supports at 0 s, 100 s, -50 s, straddling 0 and at 1e5 s, stamps on both support ends (sub-microsecond spacing: sections (E)(F)). "
                "Axis 6 (degenerate): empty Ts, single stamp, all stamps equal (explicit support), duplicates; (K) the EMPTY TsGroup built from {} / [] / () x 5 placements x every parameter "
                "set; groups with empty members; keys small / multi-digit / negative / 0..n-1, given as int, str, float, np.int64, mixed, in decreasing insertion order, or implied by a list / tuple. "
                "Axis 7 (classes): Ts and TsGroup; TsGroup members Ts (own / default support), Ts from ms/us, Ts on a TsIndex, Tsd, raw arrays / lists / integer arrays (time_units s/ms/us), "
                "the same Ts object as every member; metadata as dict / DataFrame / keyword; bypass_check=True; (M) Tsd, TsdFrame, TsdTensor, dict, list are outside the signature: an "
                "exception or a result that satisfies the statement. "
                "Axis 8 (histories): the input reached through restrict, slices, boolean / integer indexing, get, save + load, a Tsd's index, TsGroup[...] subsets, TsGroup.restrict; the same "
                "live object used twice (second result judged, input must be unchanged - checked after every call of (H)(J)(K)(L)); (J) the RESULT of one generator fed to the next. "
                "All sections: the range np.random.uniform is asked for must be the documented one (else a disagreement: it is the model's precondition on the draws)")
    res.exhaustive = True
    lines, pending = [], []

    # (A) Ts, complete small space with scripted draws
    for op, ts, s, e, p, script in ts_cases(tier, seed):
        dr = Draws("script", script=script)
        r = run_ts(nap, op, ts, s, e, p, dr)
        draws = dr.flat()
        inp = {"kind": "Ts", "op": op, "ts": ts, "support": [s, e], "params": p, "draws": draws}
        res.case(("A", op, tuple(ts), s, tuple(sorted(p.items(), key=str)), str(draws)), nontrivial=r[0] == "ok" and r[1] != list(ts))
        res.count("A:" + op)
        res.count("origin=%d" % (s // 10 ** 9))
        record(res, judge_ts(op, ts, s, e, p, r), inp)
        check_range(res, op, "Ts", [ts], s, e, p, dr, inp)
        lines.append(line_ts(op, ts, s, e, p, draws))
        pending.append(("Ts", inp, r))
        if len(pending) % 9001 == 0:
            res.sample({"op": op, "ts": ts, "support": [s, e], "params": p, "draws": draws, "result": r[1:]})

    # (B) TsGroup, random small groups with lattice draws
    for n, (op, keys, tss, s, e, p) in enumerate(group_cases(tier, seed)):
        dr = Draws("lattice", rng=random.Random(seed * 13 + n))
        r = run_group(nap, op, keys, tss, s, e, p, dr)
        draws = align_draws(op, tss, dr.flat())
        inp = {"kind": "TsGroup", "op": op, "keys": keys, "tss": tss, "support": [s, e], "params": p, "draws": draws}
        res.case(("B", op, tuple(keys), str(tss), s, str(p), str(draws)), nontrivial=r[0] == "ok" and r[2] != tss)
        res.count("B:" + op)
        res.count("group_members=%d" % len(keys))
        if any(len(t) == 0 for t in tss):
            res.count("group_with_empty_member")
        if any(len(set(t)) == 1 for t in tss):
            res.count("group_with_single_distinct_member")
        record(res, judge_group(op, keys, tss, s, e, p, r, draws, res=res), inp)
        check_range(res, op, "TsGroup", tss, s, e, p, dr, inp)
        if len(draws) == len(tss):
            lines.append(line_group(op, keys, tss, s, e, p, draws))
            pending.append(("TsGroup", inp, r))
        elif r[0] != "exc":
            res.disagreements.append({"op": op, "input": inp, "what": "number of recorded draw calls differs from the number of members"})
        if n % 701 == 0:
            res.sample({"op": op, "keys": keys, "tss": tss, "support": [s, e], "params": p, "draws": draws, "result": r[1:4]})

    # (C) larger random cases, lattice draws
    rng = random.Random(seed * 17 + 9)
    for n in range(600 if tier == "quick" else 8000):
        o = rng.choice(ORIGINS)
        L = rng.choice([16, 64, 200])
        s, e = o, o + L * U
        op = rng.choice(OPS)
        p = rand_params(rng, op, L)
        dr = Draws("lattice", rng=random.Random(seed * 19 + n))
        if rng.random() < 0.6:
            ts = rand_ts(rng, o, L, 40)
            r = run_ts(nap, op, ts, s, e, p, dr)
            draws = dr.flat()
            inp = {"kind": "Ts", "op": op, "ts": ts, "support": [s, e], "params": p, "draws": draws}
            res.case(("C", n), nontrivial=r[0] == "ok" and r[1] != ts)
            record(res, judge_ts(op, ts, s, e, p, r), inp)
            check_range(res, op, "Ts", [ts], s, e, p, dr, inp)
            lines.append(line_ts(op, ts, s, e, p, draws))
            pending.append(("Ts", inp, r))
        else:
            keys = sorted(rng.sample(range(0, 50), rng.randint(1, 5)))
            tss = [rand_ts(rng, o, L, 25) if rng.random() > 0.05 else [] for _ in keys]
            r = run_group(nap, op, keys, tss, s, e, p, dr)
            draws = align_draws(op, tss, dr.flat())
            inp = {"kind": "TsGroup", "op": op, "keys": keys, "tss": tss, "support": [s, e], "params": p, "draws": draws}
            res.case(("C", n), nontrivial=r[0] == "ok" and r[2] != tss)
            record(res, judge_group(op, keys, tss, s, e, p, r, draws, res=res), inp)
            check_range(res, op, "TsGroup", tss, s, e, p, dr, inp)
            if len(draws) == len(tss):
                lines.append(line_group(op, keys, tss, s, e, p, draws))
                pending.append(("TsGroup", inp, r))
        res.count("C:" + op)

    # (E) shuffle on ns-resolution stamps (no float draw is involved: any tick values are exact after re-rounding)
    rng = random.Random(seed * 23 + 1)
    for n in range(300 if tier == "quick" else 4000):
        o = rng.choice(ORIGINS)
        s, e = o, o + 10 ** 9
        gaps = (0, 1, 500, 999, 1000, 1001, 10 ** 6, 123456789)

        def mk():
            t = [o + rng.choice([0, 1, 1000, 10 ** 6, 5 * 10 ** 8])]
            for _ in range(rng.randint(0, 6)):
                t.append(t[-1] + rng.choice(gaps))
            return [x for x in t if x <= e]
        dr = Draws("lattice", rng=random.Random(seed * 29 + n))
        if rng.random() < 0.5:
            ts = mk()
            r = run_ts(nap, "shuffle_ts_intervals", ts, s, e, {}, dr)
            draws = dr.flat()
            inp = {"kind": "Ts", "op": "shuffle_ts_intervals", "ts": ts, "support": [s, e], "params": {}, "draws": draws}
            res.case(("E", n), nontrivial=r[0] == "ok" and r[1] != ts)
            record(res, judge_ts("shuffle_ts_intervals", ts, s, e, {}, r), inp)
            lines.append(line_ts("shuffle_ts_intervals", ts, s, e, {}, draws))
            pending.append(("Ts", inp, r))
        else:
            keys = sorted(rng.sample(range(0, 9), rng.choice([2, 2, 3])))
            tss = [mk() for _ in keys]
            if rng.random() < 0.3:      # make two members' recomputed supports touch
                tss[1] = [x for x in [tss[0][-1] + g for g in (0, 7, 2000)] if x <= e] or tss[1]
            r = run_group(nap, "shuffle_ts_intervals", keys, tss, s, e, {}, dr)
            draws = align_draws("shuffle_ts_intervals", tss, dr.flat())
            inp = {"kind": "TsGroup", "op": "shuffle_ts_intervals", "keys": keys, "tss": tss, "support": [s, e], "params": {}, "draws": draws}
            res.case(("E", n), nontrivial=r[0] == "ok" and r[2] != tss)
            record(res, judge_group("shuffle_ts_intervals", keys, tss, s, e, {}, r, draws, res=res), inp)
            if len(draws) == len(tss):
                lines.append(line_group("shuffle_ts_intervals", keys, tss, s, e, {}, draws))
                pending.append(("TsGroup", inp, r))
        res.count("E:shuffle_ns")

    # (F) shift / jitter / resample on ns-resolution stamps and draws (decimal, not dyadic): t + d, the sort, the rounding to
    #     1e-9 and the restriction are exact on ticks; only a shift landing exactly on a multiple of the support length may come
    #     out as `end` instead of `start` (float %), counted as float_ambiguous
    rng = random.Random(seed * 37 + 4)
    for n in range(600 if tier == "quick" else 8000):
        o = rng.choice(ORIGINS)
        span = rng.choice([2000, 10 ** 6, 10 ** 9])
        s, e = o, o + span

        def mkns(nmax):
            t = []
            for _ in range(rng.randint(1, nmax)):
                r = rng.random()
                t.append(rng.choice(t) if t and r < 0.2 else (o + rng.choice([0, span]) if r < 0.3 else o + rng.randint(0, span)))
            return sorted(t)
        op = rng.choice(OPS[:3])
        if op == "shift_timestamps":
            a = rng.choice([0, 0, rng.randint(-span, span)])
            p = rng.choice([{"min": 0, "max": None}, {"min": a, "max": a + rng.randint(0, 2 * span)}])
        elif op == "jitter_timestamps":
            p = {"J": rng.choice([1, 500, 1000, 1001, span // 3]), "keep": rng.random() < 0.5}
        else:
            p = {}
        dr = Draws("lattice", rng=random.Random(seed * 41 + n), step=1)
        if rng.random() < 0.6:
            ts = mkns(12)
            r = run_ts(nap, op, ts, s, e, p, dr)
            draws = dr.flat()
            inp = {"kind": "Ts", "op": op, "ts": ts, "support": [s, e], "params": p, "draws": draws, "resolution": "ns"}
            res.case(("F", n), nontrivial=r[0] == "ok" and r[1] != ts)
            record(res, judge_ts(op, ts, s, e, p, r), inp)
            check_range(res, op, "Ts", [ts], s, e, p, dr, inp)
            lines.append(line_ts(op, ts, s, e, p, draws))
            pending.append(("Ts", inp, r))
        else:
            keys = sorted(rng.sample(range(0, 20), rng.randint(1, 4)))
            tss = [mkns(6) for _ in keys]
            r = run_group(nap, op, keys, tss, s, e, p, dr)
            draws = align_draws(op, tss, dr.flat())
            inp = {"kind": "TsGroup", "op": op, "keys": keys, "tss": tss, "support": [s, e], "params": p, "draws": draws, "resolution": "ns"}
            res.case(("F", n), nontrivial=r[0] == "ok" and r[2] != tss)
            record(res, judge_group(op, keys, tss, s, e, p, r, draws, res=res), inp)
            check_range(res, op, "TsGroup", tss, s, e, p, dr, inp)
            if len(draws) == len(tss):
                lines.append(line_group(op, keys, tss, s, e, p, draws))
                pending.append(("TsGroup", inp, r))
        res.count("F:" + op + "_ns")

    # (G) the empty Ts (its support is empty, see ASSUMPTIONS): nothing in, nothing out, no exception - for every generator and parameter
    for o in ORIGINS:
        s, e = o, o + 8 * U
        for op in OPS:
            plist = SHIFT_PARAMS if op == "shift_timestamps" else ([{"J": U, "keep": False}, {"J": U, "keep": True}] if op == "jitter_timestamps" else [{}])
            for p in plist:
                dr = Draws("lattice", rng=random.Random(seed + 5))
                r = run_ts(nap, op, [], s, e, p, dr)
                draws = dr.flat()
                inp = {"kind": "Ts", "op": op, "ts": [], "support": [s, e], "params": p, "draws": draws}
                res.case(("G", op, s, str(p)), nontrivial=False)
                res.count("G:empty_Ts")
                record(res, judge_ts(op, [], s, e, p, r), inp)
                check_range(res, op, "Ts", [[]], s, e, p, dr, inp)
                if r[0] == "ok":       # the model never raises on an empty series; an exception is already reported above
                    mdraws = draws if draws else [[0] if op == "shift_timestamps" else []]
                    lines.append(line_ts(op, [], s, e, p, mdraws))
                    pending.append(("Ts", inp, r))

    # ---- argument forms (sections H..M): the same instants and numbers in every form the public signatures accept ----
    FOREIGN = ("Tsd", "TsdFrame", "TsdTensor", "dict", "list")
    quick = tier == "quick"

    # (H) every form axis, one factor at a time (deterministic list) + seeded samples of the product; lattice draws, model compared
    rng = random.Random(seed * 43 + 6)
    todo = [(kind, op, f) for kind in ("Ts", "TsGroup") for op in OPS for f in forced_axes(kind, op)]
    res.count("H:one-factor-at-a-time cases", len(todo))
    todo += [(rng.choice(["Ts", "TsGroup"]), rng.choice(OPS), None) for _ in range(1500 if quick else 20000)]
    for n, (kind, op, f) in enumerate(todo):
        c = gen_form_case(rng, nap, kind, op, f)
        if c is None:
            res.count("H:forced combination that no sampled case can hold (skipped)")
            continue
        run_form_case(nap, res, c, Draws("lattice", rng=random.Random(seed * 47 + n)), "H", n, lines, pending)
        res.count("H:" + op)
        if n % 997 == 0:
            res.sample({"section": "H", "case": {k: v for k, v in c.items()}})

    # (J) multi-step histories: the RESULT of one generator (a live object) fed to the next one
    rng = random.Random(seed * 53 + 8)
    for n in range(350 if quick else 4000):
        kind, op1, op2 = rng.choice(["Ts", "TsGroup"]), rng.choice(OPS), rng.choice(OPS)
        c = gen_form_case(rng, nap, kind, op1, {"twice": False})
        if c is None:
            continue
        if c["form"]["call"]["num"] in UNSIGNED:         # (the unsigned max_jitter candidate is reported by (H)/(L); a chain starts from a sound step)
            c["form"]["call"]["num"] = "float"
        k1, nv = {}, len(res.violations)
        r1 = run_form_case(nap, res, c, Draws("lattice", rng=random.Random(seed * 67 + n)), "J1", n, lines, pending, keep=k1)
        res.count("J:first step " + op1)
        if r1[0] != "ok" or "r" not in k1 or len(res.violations) > nv:
            continue
        sup1 = r1[2] if kind == "Ts" else r1[3]
        if len(sup1) != 1 or sup1[0][0] >= sup1[0][1] or (kind == "Ts" and not r1[1]) or (kind == "TsGroup" and r1[1] != list(c["keys"])):
            res.count("J:result not on a single-interval support (no second step)")
            continue
        s1, e1 = sup1[0]
        step = c["form"]["step"]
        p2 = rand_params_form(rng, op2, max((e1 - s1) // step, 1), step)
        cf2 = sample_case(rng, kind, op2, {"whole": step == S1})["form"]["call"]
        try:
            check_nums(op2, p2, cf2)
        except NotApplicable:
            cf2["num"] = "float"
        c2 = {"kind": kind, "op": op2, "s": s1, "e": e1, "p": p2, "form": {"step": step, "call": cf2, "twice": False, "chain": op1}}
        if kind == "Ts":
            c2["ts"] = sorted(r1[1])
        else:
            c2["keys"], c2["tss"] = list(c["keys"]), [sorted(t) for t in r1[2]]
        run_form_case(nap, res, c2, Draws("lattice", rng=random.Random(seed * 71 + n)), "J2", n, lines, pending, obj=k1["r"])
        res.count("J:second step " + op2)

    # (K) the EMPTY TsGroup (no member) x 5 placements x 4 generators x every parameter set x {} / [] / (): nothing in, nothing out, support kept
    rng = random.Random(seed * 59 + 10)
    n = 0
    for oname in ORIGIN_NAMES:
        s = origin_ticks(oname, 8, U)
        e = s + 8 * U
        for op in OPS:
            plist = SHIFT_PARAMS if op == "shift_timestamps" else ([{"J": U, "keep": False}, {"J": U, "keep": True}] if op == "jitter_timestamps" else [{}])
            for p, cont in itertools.product(plist, ("int", "list", "tuple")):
                cf = sample_case(rng, "TsGroup", op, {"whole": False})["form"]["call"]
                cf["extra"] = (0, None)
                c = {"kind": "TsGroup", "op": op, "s": s, "e": e, "p": p, "keys": [], "tss": [],
                     "form": {"step": U, "call": cf, "twice": rng.random() < 0.2,
                              "group": {"step": U, "keys": cont, "keyset": "range", "member": "Ts", "hist": rng.choice(["direct", "direct_pos"]),
                                        "sup": rng.choice(SUP_FORMS_ANY), "meta": None, "bypass": False, "units": "s", "data": None, "dseed": 0}}}
                run_form_case(nap, res, c, Draws("lattice", rng=random.Random(seed + 7)), "K", n, lines, pending)
                res.count("K:empty_TsGroup")
                n += 1

    # (M) classes the signatures do NOT accept (Tsd, TsdFrame, TsdTensor, dict of Ts, list of Ts): the statement does not say what happens;
    #     required: a Python exception, or a result that satisfies the statement (never a silent wrong answer)
    rng = random.Random(seed * 73 + 14)
    for n, (oname, op, cls) in enumerate(itertools.product(ORIGIN_NAMES, OPS, FOREIGN)):
        s = origin_ticks(oname, 6, U)
        e = s + 6 * U
        ts = rand_ts_step(rng, s, 6, 5, U)
        p = rand_params_form(rng, op, 6, U)
        inp = {"kind": "foreign", "class": cls, "op": op, "ts": ts, "support": [s, e], "params": p, "draw_seed": seed * 79 + n}
        viols, outcome = run_foreign(nap, inp)
        res.case(("M", n), nontrivial=False)
        res.count("M:%s %s" % (cls, outcome))
        record(res, viols, inp)

    # model comparison for (A)(B)(C)(E)(F)(G)(H)(J)(K)
    outm = C.run_model(lines, driver="driver_c20")
    for (kind, inp, r), om in zip(pending, outm):
        if om.startswith("ERR"):
            res.disagreements.append({"op": inp["op"], "input": inp, "model": om})
            continue
        if kind == "Ts":
            m = parse_model_ts(om)
            same = (r[0] == "exc" and m[0] == "exc") or (r[0] == "ok" and m[0] == "ok" and list(r[1]) == m[1] and list(r[2]) == m[2])
        else:
            m = parse_model_group(om)
            same = (r[0] == "exc" and m[0] == "exc") or (r[0] == "ok" and m[0] == "ok" and r[1] == m[1] and r[2] == m[2] and r[3] == m[3])
        if not same and inp.get("resolution") == "ns" and inp["op"] == "shift_timestamps" and r[0] == "ok" and m[0] == "ok":
            s_, e_ = inp["support"]

            def fold(l):
                return sorted(s_ if x == e_ else x for x in l)
            L_ = e_ - s_
            members = [inp["ts"]] if kind == "Ts" else inp["tss"]
            coincide = any((t - s_ + d[0]) % L_ == 0 for tsm, d in zip(members, inp["draws"]) for t in tsm)
            if not coincide:
                res.disagreements.append({"op": inp["op"], "kind": kind, "input": inp, "impl": r[1:4], "model": m})
                continue
            if kind == "Ts" and fold(r[1]) == fold(m[1]) and list(r[2]) == m[2]:
                res.float_ambiguous += 1
                continue
            if kind == "TsGroup" and r[1] == m[1] and [fold(x) for x in r[2]] == [fold(x) for x in m[2]] and r[3] == m[3]:
                res.float_ambiguous += 1
                continue
        if not same:
            res.disagreements.append({"op": inp["op"], "kind": kind, "input": inp, "impl": r[1:4], "model": m})
    res.traces = len(pending)

    # (D) NumPy's real generator: the statement for every state of the generator we can afford
    rng = random.Random(seed * 31 + 2)
    for sd in range(200 if tier == "quick" else 5000):
        o = rng.choice(ORIGINS)
        L = rng.choice([8, 64, 512])
        s, e = o, o + L * U
        for op in OPS:
            p = rand_params(rng, op, L)
            ts = rand_ts(rng, o, L, 30)
            dr = Draws("real", seed=sd)
            r = run_ts(nap, op, ts, s, e, p, dr)
            inp = {"kind": "Ts", "op": op, "ts": ts, "support": [s, e], "params": p, "numpy_seed": sd}
            res.case(("D", "Ts", op, sd), nontrivial=r[0] == "ok" and r[1] != ts)
            record(res, judge_ts(op, ts, s, e, p, r), inp)
            check_range(res, op, "Ts", [ts], s, e, p, dr, inp)
            if op == "jitter_timestamps" and p["keep"] and r[0] == "ok":
                res.count("D:jitter_keep_checked_against_recorded_draws")
                if len(r[1]) < len(ts):
                    res.count("D:jitter_keep_dropped_some")
                dv = dr.flat()
                if len(dv) != 1 or not kept_by_draws(ts, s, e, r[1], dv[0], 1):
                    res.disagreements.append({"op": op, "kind": "Ts", "input": dict(inp, draws=dv), "impl": r[1:3],
                                              "what": "keep_tsupport=True: the result is not the stamps t_k + d_k (recorded draws) that fall inside the support"})
            keys = sorted(rng.sample(range(0, 30), rng.randint(2, 4)))
            tss = [rand_ts(rng, o, L, 12) for _ in keys]
            if op in ("jitter_timestamps", "shuffle_ts_intervals"):
                tss = [t if len(set(t)) > 1 else [t[0], min(t[0] + U, e)] if t[0] < e else [t[0] - U, t[0]] for t in tss]
            dr = Draws("real", seed=sd)
            r = run_group(nap, op, keys, tss, s, e, p, dr)
            inp = {"kind": "TsGroup", "op": op, "keys": keys, "tss": tss, "support": [s, e], "params": p, "numpy_seed": sd}
            res.case(("D", "TsGroup", op, sd), nontrivial=r[0] == "ok" and r[2] != tss)
            record(res, judge_group(op, keys, tss, s, e, p, r, align_draws(op, tss, dr.flat()), res=res), inp)
            check_range(res, op, "TsGroup", tss, s, e, p, dr, inp)
            if op == "jitter_timestamps" and p["keep"] and r[0] == "ok" and r[1] == list(keys):
                dv = dr.flat()
                if len(dv) != len(tss) or not all(kept_by_draws(t, s, e, o, d, 1) for t, o, d in zip(tss, r[2], dv)):
                    res.disagreements.append({"op": op, "kind": "TsGroup", "input": dict(inp, draws=dv), "impl": r[1:4],
                                              "what": "keep_tsupport=True: a member is not its stamps t_k + d_k (recorded draws) that fall inside the support"})
            res.count("D:" + op, 2)

    # (L) argument forms x NumPy's real generator (statement oracle; jitter keep_tsupport=True also against the recorded draws)
    rng = random.Random(seed * 61 + 12)
    for n in range(450 if quick else 6000):
        kind, op = rng.choice(["Ts", "TsGroup"]), rng.choice(OPS)
        c = gen_form_case(rng, nap, kind, op, None)
        if c is None:
            continue
        run_form_case(nap, res, c, Draws("real", seed=n), "L", n, None, None, real=True)
        res.count("L:" + op)
    _cleanup_tmp()


def run_foreign(nap, inp):
    """an object of a class the signature does not list -> (violations, outcome)"""
    op, ts, (s, e), p, cls = inp["op"], inp["ts"], inp["support"], inp["params"], inp["class"]
    sup, t, n = mk_support(nap, s, e), G.arr(ts), len(ts)
    if cls == "Tsd":
        x = nap.Tsd(t, np.arange(n), time_support=sup)
    elif cls == "TsdFrame":
        x = nap.TsdFrame(t, np.zeros((n, 2)), time_support=sup)
    elif cls == "TsdTensor":
        x = nap.TsdTensor(t, np.zeros((n, 2, 2)), time_support=sup)
    elif cls == "dict":
        x = {0: nap.Ts(t, time_support=sup)}
    else:
        x = [nap.Ts(t, time_support=sup)]
    dr = Draws("lattice", rng=random.Random(inp["draw_seed"]))
    try:
        with dr:
            r = call_op(nap, op, x, p)
    except Exception as ex:   # noqa: BLE001
        return [], "rejected with " + type(ex).__name__
    if hasattr(r, "t") and hasattr(r, "time_support") and cls not in ("dict", "list"):
        viols = judge_ts(op, ts, s, e, p, ("ok",) + canon_ts(r))
    elif hasattr(r, "keys") and hasattr(r, "time_support") and cls in ("dict", "list"):
        ks, outs, gs = canon_group(r)
        viols = judge_group(op, [0], [ts], s, e, p, ("ok", ks, outs, gs, [[(C.to_ns(a), C.to_ns(b)) for a, b in r[k].time_support.values] for k in r.keys()], []),
                            align_draws(op, [ts], dr.flat()))
    else:
        viols = [{"key": {"op": op, "kind": cls, "part": "foreign_result"}, "what": "%s(%s) returned a %s" % (op, cls, type(r).__name__)}]
    for v in viols:
        v["key"]["foreign_class"] = cls
    return viols, "accepted"


def search(res, seed):
    r2 = C.Result()
    run(r2, "thorough", seed)
    for v in r2.violations:
        if C.match_known("C20", v) is None:
            return v
    return None


def replay(payload):
    nap = _nap()
    warnings.simplefilter("ignore")
    v = payload.get("violation") or (payload.get("disagreements") or [{}])[0]
    inp = v.get("input", {})
    if not inp:
        print("nothing to replay")
        return 1
    op, (s, e), p = inp["op"], inp["support"], inp.get("params", {})
    form = inp.get("form")
    if form is not None and form.get("call", {}).get("extra") is not None:
        form["call"]["extra"] = tuple(form["call"]["extra"])
    if inp["kind"] == "foreign":
        bad, outcome = run_foreign(nap, inp)
        print("op", op, inp["class"], inp["ts"], "support", [s, e], "params", p, "->", outcome)
        for b in bad:
            print("VIOLATED:", b["what"], b["key"])
        return 1 if bad else 0
    if "numpy_seed" in inp:
        dr = Draws("real", seed=inp["numpy_seed"])
    else:
        flat = []
        members = [inp["ts"]] if inp["kind"] == "Ts" else inp["tss"]
        for i, d in enumerate(inp["draws"]):
            if op != "shuffle_ts_intervals":
                flat.extend(d)
            elif i >= len(members) or members[i]:      # no permutation is drawn for an empty member
                flat.append(d)
        if form is not None and form.get("twice"):        # the recorded draws are those of the second (judged) call: both calls replay them
            flat = flat + flat
        dr = Draws("script", script=flat)
        if form is not None and form.get("call", {}).get("num") in UNSIGNED:     # the library asks for an inverted range: scripted draws would be 'outside'
            dr = Draws("lattice", rng=random.Random(0))
    if inp["kind"] == "Ts":
        r = run_ts(nap, op, inp["ts"], s, e, p, dr, form=form)
        bad = flag_unsigned(judge_ts(op, inp["ts"], s, e, p, r), op, form)
        print("op", op, "Ts", inp["ts"], "support", [s, e], "params", p, "draws", dr.flat(), "form", form)
    else:
        r = run_group(nap, op, inp["keys"], inp["tss"], s, e, p, dr, form=form)
        bad = flag_unsigned(judge_group(op, inp["keys"], inp["tss"], s, e, p, r, align_draws(op, inp["tss"], judged_draws(dr))), op, form)
        print("op", op, "TsGroup", dict(zip(inp["keys"], inp["tss"])), "support", [s, e], "params", p, "draws", dr.flat(), "form", form)
    _cleanup_tmp()
    print("impl", r[1:4] if r[0] == "ok" else r)
    for b in bad:
        print("VIOLATED:", b["what"], b["key"])
    if not bad:
        print("statement satisfied on this input")
    return 1 if bad else 0
