"""C20 surrogate generators conserve what they promise to conserve."""
import itertools
import random
import warnings

import numpy as np

import common as C
import gen as G

LEVEL = "proof"
DRIVERS = ["driver_c20"]
TRUSTED = ["model: coq/Model/Randomize.v (shift/jitter/resample/shuffle for Ts and TsGroup, with the Ts and TsGroup constructors they end in) over Model/Restrict.v and "
           "Model/Iset.v; theorems: Proofs/RandomizeProofs.v",
           "the random draws are explicit arguments of the model; the harness replaces np.random.uniform / np.random.permutation inside its own process (no change to /repo), "
           "records every draw and feeds the same numbers (as ticks) to the model; NumPy's contract low <= uniform(low, high) <= high and 'permutation returns a "
           "rearrangement of its argument' is NumPy's",
           "np.sort is modelled as a sorted permutation (Coq's mergesort); float % on the dyadic lattice is exact and agrees with Z.modulo for a positive divisor"]
ASSUMPTIONS = ["inputs: Ts / TsGroup on a single-interval support [s, e], s < e, every timestamp inside it. pynapple gives every EMPTY series an empty support (base-class "
               "invariant), so an empty Ts is never 'on a single-interval support'; it is nevertheless required to go through all four generators as every empty TsGroup member "
               "does: no exception, nothing out, (empty) support kept - part (G), key empty_input=True. For the same reason an empty member's own support is not compared with the group's",
               "draws forced onto the dyadic lattice 2^-9 s for the model comparison (every float operation exact); runs with NumPy's real generator (seeded) are judged by the "
               "statement-level oracle, and jitter keep_tsupport=True also against the recorded draws (result = the t_k + d_k inside the support, to 1 ns; a mismatch is a disagreement)",
               "jitter keep_tsupport=True (the count is not promised): read as 'the result is the jittered series restricted to the kept support' - every returned stamp is a distinct input "
               "stamp moved by at most max_jitter, and an input stamp is missing only if a move of at most max_jitter can take it outside [s, e]",
               "TsGroup results whose support is RECOMPUTED (jitter keep_tsupport=False, shuffle): member counts are conserved only for members with >= 2 distinct result "
               "timestamps (C20_group_recomputed_support_single_refuted / _raises_refuted; reported as findings). A pair of members whose recomputed supports touch is no "
               "longer an exception (6917604: _union_intervals unites two supports like three or more); such pairs are generated (counter "
               "recomputed_pair_with_touching_supports) and must keep every stamp",
               "the statement does not promise the class or the order of the result: any object with .t and .time_support is accepted and its stamps are compared as a multiset "
               "(the model comparison still pins the sorted order)"]

U = 1953125                                   # 2^-9 s in ticks
ORIGINS = (0, 100 * 10 ** 9, -50 * 10 ** 9)   # 0 s, 100 s, -50 s: all whole multiples of U
OPS = ("shift_timestamps", "jitter_timestamps", "resample_timestamps", "shuffle_ts_intervals")


def _nap():
    import pynapple as nap
    return nap


# --------------------------------------------------------------------------------------
# the draws: np.random.uniform / np.random.permutation replaced inside this process
class Draws:
    """mode 'script': the queued tick values / permutations are returned in order;
       mode 'lattice': values on the dyadic lattice inside [low, high] from a seeded PRNG (ends included);
       mode 'real': NumPy's own generator after np.random.seed(seed), recorded."""

    def __init__(self, mode, rng=None, script=None, seed=0, step=U):
        self.mode, self.rng, self.script, self.seed, self.step = mode, rng, list(script or []), seed, step
        self.log = []        # ("u", lo, hi, [ticks]) | ("p", [perm])
        self.bad = None

    def __enter__(self):
        self._u, self._p, self._state = np.random.uniform, np.random.permutation, np.random.get_state()
        if self.mode == "real":
            np.random.seed(self.seed)
        np.random.uniform, np.random.permutation = self.uniform, self.permutation
        return self

    def __exit__(self, *a):
        np.random.uniform, np.random.permutation = self._u, self._p
        np.random.set_state(self._state)
        return False

    def uniform(self, low=0.0, high=1.0, size=None):
        n = 1 if size is None else int(size)
        if self.mode == "real":
            v = self._u(low, high, size)
            self.log.append(("u", C.to_ns(low), C.to_ns(high), [C.to_ns(x) for x in np.atleast_1d(v)]))
            return v
        lo, hi = C.to_ns(low), C.to_ns(high)
        vals = []
        for _ in range(n):
            if self.mode == "script":
                v = self.script.pop(0)
            else:
                k = (hi - lo) // self.step
                r = self.rng.random()
                v = lo if r < 0.1 else (hi if r < 0.2 else lo + self.rng.randint(0, max(k, 0)) * self.step)
            if not lo <= v <= hi:
                self.bad = "scripted draw %d outside [%d, %d]" % (v, lo, hi)
            vals.append(v)
        self.log.append(("u", lo, hi, vals))
        return vals[0] / 1e9 if size is None else G.arr(vals)

    def permutation(self, x):
        x = np.asarray(x)
        n = len(x)
        if self.mode == "script":
            perm = list(self.script.pop(0))
        elif self.mode == "lattice":
            perm = self.rng.sample(range(n), n)
        else:
            perm = [int(i) for i in self._p(n)]
        if sorted(perm) != list(range(n)):
            self.bad = "scripted permutation %r is not a permutation of range(%d)" % (perm, n)
        self.log.append(("p", perm))
        return x[np.asarray(perm, dtype=np.int64)]

    def flat(self):
        return [list(e[-1]) for e in self.log]


# --------------------------------------------------------------------------------------
# implementation leg
def canon_ts(r):
    return [C.to_ns(x) for x in r.t], [(C.to_ns(a), C.to_ns(b)) for a, b in r.time_support.values]


def call_op(nap, op, x, p):
    if op == "shift_timestamps":
        return nap.shift_timestamps(x, p["min"] / 1e9, None if p["max"] is None else p["max"] / 1e9)
    if op == "jitter_timestamps":
        return nap.jitter_timestamps(x, max_jitter=p["J"] / 1e9, keep_tsupport=p["keep"])
    if op == "resample_timestamps":
        return nap.resample_timestamps(x)
    return nap.shuffle_ts_intervals(x)


def mk_support(nap, s, e):
    return nap.IntervalSet(s / 1e9, e / 1e9)


def in_support_of(ts, s, e):
    """the time support of the INPUT Ts: [s, e], except that pynapple gives every empty series an empty support (base-class invariant)"""
    return [(s, e)] if len(ts) else []


def run_ts(nap, op, ts, s, e, p, dr):
    """-> ("ok", stamps, support) | ("exc", name)"""
    x = nap.Ts(G.arr(ts), time_support=mk_support(nap, s, e))
    if canon_ts(x) != (list(ts), in_support_of(ts, s, e)):
        raise RuntimeError("harness: could not build the input Ts %r on [%d, %d]" % (ts, s, e))
    try:
        with dr:
            r = call_op(nap, op, x, p)
    except Exception as ex:   # noqa: BLE001
        return ("exc", type(ex).__name__)
    if dr.bad:
        raise RuntimeError("harness: " + dr.bad)
    if not (hasattr(r, "t") and hasattr(r, "time_support")):     # the class of the result is not part of the statement
        return ("exc", "not a series of timestamps: " + type(r).__name__)
    return ("ok",) + canon_ts(r)


def run_group(nap, op, keys, tss, s, e, p, dr):
    """-> ("ok", keys, [stamps], support, [member supports]) | ("exc", name)"""
    g = nap.TsGroup({k: nap.Ts(G.arr(ts)) for k, ts in zip(keys, tss)}, time_support=mk_support(nap, s, e))
    if list(g.keys()) != list(keys) or [[C.to_ns(v) for v in g[k].t] for k in keys] != [list(t) for t in tss]:
        raise RuntimeError("harness: could not build the input TsGroup %r" % (tss,))
    try:
        with dr:
            r = call_op(nap, op, g, p)
    except Exception as ex:   # noqa: BLE001
        return ("exc", type(ex).__name__)
    if dr.bad:
        raise RuntimeError("harness: " + dr.bad)
    if not (hasattr(r, "keys") and hasattr(r, "time_support") and hasattr(r, "__getitem__")):
        return ("exc", "not a group of series: " + type(r).__name__)
    ks = [int(k) for k in r.keys()]
    gs = [(C.to_ns(a), C.to_ns(b)) for a, b in r.time_support.values]
    # ticks of support endpoints stored as NON-canonical floats (trimmed `end - 1e-6`, never re-rounded): DESIGN.md section 2
    nc = [C.to_ns(x) for x in r.time_support.values.ravel() if float(x) != C.to_ns(x) / 1e9]
    return ("ok", ks, [[C.to_ns(v) for v in r[k].t] for k in r.keys()], gs,
            [[(C.to_ns(a), C.to_ns(b)) for a, b in r[k].time_support.values] for k in r.keys()], nc)


# --------------------------------------------------------------------------------------
# the statement, by brute force on ticks (independent of the model)
def diffs(l):
    return [b - a for a, b in zip(l, l[1:])]


def matchable(out, cand, tol, droppable):
    """is sorted `out` obtained from sorted `cand` by moving each kept candidate by at most tol and dropping only droppable ones?
    (an order-preserving matching exists whenever any matching does: all windows have the same width)"""
    m, n = len(out), len(cand)
    f = [[False] * (n + 1) for _ in range(m + 1)]
    f[0][0] = True
    for j in range(1, n + 1):
        f[0][j] = f[0][j - 1] and droppable[j - 1]
    for i in range(1, m + 1):
        for j in range(1, n + 1):
            f[i][j] = (f[i][j - 1] and droppable[j - 1]) or (f[i - 1][j - 1] and abs(out[i - 1] - cand[j - 1]) <= tol)
    return f[m][n]


def oracle_member(op, ts, s, e, p, out, recomputed):
    """list of (part, what) the statement promises and `out` (result stamps) breaks; the order of `out` is not part of the statement"""
    bad = []
    out = sorted(out)
    if op in ("shift_timestamps", "resample_timestamps"):
        if len(out) != len(ts):
            bad.append(("count", "%d timestamps in, %d out" % (len(ts), len(out))))
        if any(not s <= x <= e for x in out):
            bad.append(("in_support", "a returned timestamp lies outside the original time support"))
    elif op == "shuffle_ts_intervals":
        if len(ts) and (not out or out[0] != ts[0]):
            bad.append(("first", "the first timestamp is not kept"))
        if not len(ts) and out:
            bad.append(("count", "0 timestamps in, %d out" % len(out)))
        if sorted(diffs(out)) != sorted(diffs(ts)):
            bad.append(("isi", "the multiset of inter-event intervals is not kept" if len(out) == len(ts) else
                        "%d timestamps in, %d out: the inter-event intervals are not kept" % (len(ts), len(out))))
    else:
        J = p["J"]
        if recomputed:
            if len(out) != len(ts):
                bad.append(("count", "support recomputed, yet %d timestamps in, %d out" % (len(ts), len(out))))
            elif any(abs(a - b) > J for a, b in zip(out, ts)):
                bad.append(("bound", "the k-th timestamp (sorted) moved by more than max_jitter"))
        else:
            # support kept: the result is the jittered series restricted to [s, e]: every returned stamp is an input stamp moved by at
            # most J (one input stamp each), and an input stamp may be MISSING only if a move of at most J can take it out of [s, e]
            if any(not s <= x <= e for x in out):
                bad.append(("in_support", "a returned timestamp lies outside the kept time support"))
            elif len(out) > len(ts):
                bad.append(("count", "support kept, yet %d timestamps in, %d out" % (len(ts), len(out))))
            elif not matchable(out, ts, J, [True] * len(ts)):
                bad.append(("bound", "the returned timestamps are not distinct input timestamps moved by at most max_jitter each"))
            elif not matchable(out, ts, J, [t - J < s or t + J > e for t in ts]):
                bad.append(("dropped_inside", "a timestamp that no move of at most max_jitter can take out of the kept support is missing from the result"))
    return bad


def align_draws(op, tss, draws):
    """one draw entry per member: shuffle consumes no draw for an empty member (it is returned unchanged)"""
    if op != "shuffle_ts_intervals":
        return draws
    it, out = iter(draws), []
    for ts in tss:
        if not ts:
            out.append([])
        else:
            d = next(it, None)
            if d is None:
                return draws
            out.append(d)
    return out if next(it, None) is None else draws


def support_kept(op, p):
    return op in ("shift_timestamps", "resample_timestamps") or (op == "jitter_timestamps" and p["keep"])


def expected_free(op, ts, dr_vals):
    """what the member looks like before any restriction, from the recorded draws (used only to CLASSIFY a loss)"""
    if op == "jitter_timestamps":
        return sorted(t + d for t, d in zip(ts, dr_vals))
    if not ts:
        return []
    d, out = diffs(ts), [ts[0]]
    for i in dr_vals:
        out.append(out[-1] + d[i])
    return out


def judge_ts(op, ts, s, e, p, r):
    """-> list of violation dicts (without input)"""
    empty = not len(ts)
    if r[0] == "exc":
        return [{"key": {"op": op, "kind": "Ts", "part": "exception", "exception": r[1], "empty_input": empty}, "what": "%s(Ts) raised %s" % (op, r[1])}]
    _, out, sup = r
    v = [{"key": {"op": op, "kind": "Ts", "part": part, "empty_input": empty}, "what": "%s(Ts): %s" % (op, what), "impl": out}
         for part, what in oracle_member(op, ts, s, e, p, out, recomputed=not support_kept(op, p))]
    if support_kept(op, p) and sup != in_support_of(ts, s, e):
        v.append({"key": {"op": op, "kind": "Ts", "part": "support", "empty_input": empty}, "what": "%s(Ts): the time support is not kept" % op, "impl": sup,
                  "expected": in_support_of(ts, s, e)})
    return v


def kept_by_draws(ts, s, e, out, dvals, tol):
    """jitter_timestamps(keep_tsupport=True) against the RECORDED draws: the result is the stamps t_k + d_k that fall inside [s, e]
    (C20_jitter_keep_support). tol = 1 tick when the draws are real floats (t + d is rounded to 1e-9 once, the recorded d separately)"""
    cand = sorted(t + d for t, d in zip(ts, dvals))
    return len(dvals) == len(ts) and matchable(sorted(out), cand, tol, [not (s + tol <= c <= e - tol) for c in cand])


def judge_group(op, keys, tss, s, e, p, r, draws, res=None):
    kind = "TsGroup"
    # the patterns of the known findings are computed from the RESULT the recorded draws imply; when the recorded draws do not line up
    # with the members (the call stopped half-way) no pattern is assigned
    aligned = len(draws) == len(tss) and all(len(d) == (len(ts) if op == "jitter_timestamps" else max(len(ts) - 1, 0)) for ts, d in zip(tss, draws))
    free = [expected_free(op, ts, d) for ts, d in zip(tss, draws)] if (not support_kept(op, p)) and aligned else [list(t) for t in tss]
    degenerate = [aligned and len(set(f)) <= 1 for f in free]
    if res is not None and aligned and not support_kept(op, p) and len(tss) == 2 and not any(degenerate) and \
            (free[0][-1] == free[1][0] or free[1][-1] == free[0][0]):
        res.count("recomputed_pair_with_touching_supports")      # an exception until 6917604; now the two supports must merge
    if r[0] == "exc":
        key = {"op": op, "kind": kind, "part": "exception", "exception": r[1]}
        if r[1] == "IndexError" and op == "shuffle_ts_intervals" and any(len(t) == 0 for t in tss):
            key["pattern"] = "empty_member"
        elif r[1] == "RuntimeError" and not support_kept(op, p) and all(degenerate):
            key["pattern"] = "all_members_single_distinct_timestamp"
        return [{"key": key, "what": "%s(TsGroup) raised %s" % (op, r[1])}]
    _, ks, outs, gs, msups = r[:5]
    v = []
    if ks != list(keys):
        v.append({"key": {"op": op, "kind": kind, "part": "keys"}, "what": "%s(TsGroup): keys not preserved" % op, "impl": ks, "expected": list(keys)})
        return v
    kept = support_kept(op, p)
    for i, (ts, out) in enumerate(zip(tss, outs)):
        for part, what in oracle_member(op, ts, s, e, p, out, recomputed=not kept):
            key = {"op": op, "kind": kind, "part": part}
            if not kept and aligned and len(out) < len(ts):
                lost = list(free[i])
                for x in out:
                    if x in lost:
                        lost.remove(x)
                other = free[1 - i] if len(tss) == 2 else []
                if degenerate[i]:
                    key["pattern"] = "member_single_distinct_timestamp"
                elif lost and len(set(other)) > 1 and free[i][-1] == other[0] and all(other[0] - 1000 <= x < other[0] for x in lost):
                    key["pattern"] = "two_members_touching_supports"      # the defect repaired by 6917604 (no known entry any more): names it if it comes back
            v.append({"key": key, "what": "%s(TsGroup) member %d: %s" % (op, keys[i], what), "impl": outs})
    if kept:
        if gs != [(s, e)]:
            v.append({"key": {"op": op, "kind": kind, "part": "support"}, "what": "%s(TsGroup): the time support is not kept" % op, "impl": gs, "expected": [(s, e)]})
        elif any(ms != gs for ms, out in zip(msups, outs) if out):
            v.append({"key": {"op": op, "kind": kind, "part": "member_support"}, "what": "%s(TsGroup): a member's time support differs from the group's" % op, "impl": msups})
    return v


# --------------------------------------------------------------------------------------
# model lines
def line_ts(op, ts, s, e, p, draws):
    if op == "shift_timestamps":
        return "shift\t%d %d %d\t%s" % (s, e, draws[0][0], C.fmt_ints(ts))
    if op == "jitter_timestamps":
        return "jitter\t%d %d %d\t%s\t%s" % (1 if p["keep"] else 0, s, e, C.fmt_ints(ts), C.fmt_ints(draws[0]))
    if op == "resample_timestamps":
        return "resample\t%d %d\t%s" % (s, e, C.fmt_ints(draws[0]))
    return "shuffle\t%s\t%s" % (C.fmt_ints(ts), C.fmt_ints(draws[0] if draws else []))


def line_group(op, keys, tss, s, e, p, draws):
    if op == "shift_timestamps":
        return "shift_group\t%d %d\t%s\t%s\t%s" % (s, e, C.fmt_ints(keys), C.fmt_ints([d[0] for d in draws]), "\t".join(C.fmt_ints(t) for t in tss))
    pairs = "\t".join(C.fmt_ints(t) + "\t" + C.fmt_ints(d) for t, d in zip(tss, draws))
    if op == "jitter_timestamps":
        return "jitter_group\t%d %d %d\t%s\t%s" % (1 if p["keep"] else 0, s, e, C.fmt_ints(keys), pairs)
    if op == "resample_timestamps":
        return "resample_group\t%d %d\t%s\t%s" % (s, e, C.fmt_ints(keys), pairs)
    return "shuffle_group\t%s\t%s" % (C.fmt_ints(keys), pairs)


def parse_iset(f):
    v = [int(x) for x in f.split()]
    return [(v[2 * i], v[2 * i + 1]) for i in range(len(v) // 2)]


def parse_model_ts(out):
    if out == "none":
        return ("exc",)
    f = out.split("|")
    return ("ok", [int(x) for x in f[0].split()], parse_iset(f[1]))


def parse_model_group(out):
    if out == "none":
        return ("exc",)
    f = out.split("|")
    return ("ok", [int(x) for x in f[0].split()], [[int(x) for x in m.split()] for m in f[1:-1]], parse_iset(f[-1]))


# --------------------------------------------------------------------------------------
# case generators
SHIFT_PARAMS = ({"min": 0, "max": None}, {"min": 0, "max": 4 * U}, {"min": U, "max": 3 * U}, {"min": 2 * U, "max": 9 * U}, {"min": -3 * U, "max": 2 * U})


def lattice_range(lo, hi):
    return list(range(lo, hi + 1, U))


def ts_cases(tier, seed):
    """(op, ts, s, e, params, script) on a 5-point dyadic lattice; the support is [o, o + 4U] and stamps may sit on both ends"""
    rng = random.Random(seed * 7 + 3)
    out = []
    for o in ORIGINS:
        pts = G.lattice(5, step=U, origin=o)
        s, e = o, o + 4 * U
        ms3 = [m for m in G.sorted_multisets(pts, 3) if m]
        ms4 = [m for m in G.sorted_multisets(pts, 4) if m]
        for ts in ms3:
            for p in SHIFT_PARAMS:
                hi = p["max"] if p["max"] is not None else ts[-1] - ts[0]
                for sg in lattice_range(p["min"], hi):
                    out.append(("shift_timestamps", ts, s, e, p, [sg]))
            for J in (U, 2 * U):
                vecs = list(itertools.product(lattice_range(-J, J), repeat=len(ts)))
                if tier == "quick" and J == 2 * U and len(vecs) > 25:
                    vecs = rng.sample(vecs, 12)
                for keep in (False, True):
                    for ds in vecs:
                        out.append(("jitter_timestamps", ts, s, e, {"J": J, "keep": keep}, list(ds)))
            for us in itertools.product(lattice_range(ts[0], ts[-1]), repeat=len(ts)):
                out.append(("resample_timestamps", ts, s, e, {}, list(us)))
        for ts in ms4:
            for perm in itertools.permutations(range(len(ts) - 1)):
                out.append(("shuffle_ts_intervals", ts, s, e, {}, [list(perm)]))
    return out


def rand_ts(rng, o, L, nmax, dup=0.25):
    n = rng.randint(1, nmax)
    ts = []
    for _ in range(n):
        r = rng.random()
        if ts and r < dup:
            ts.append(rng.choice(ts))
        elif r < dup + 0.08:
            ts.append(o + rng.choice([0, L]) * U)
        else:
            ts.append(o + rng.randint(0, L) * U)
    return sorted(ts)


def rand_params(rng, op, L):
    if op == "shift_timestamps":
        r = rng.random()
        if r < 0.3:
            return {"min": 0, "max": None}
        a = rng.randint(-L, L) * U if r < 0.5 else rng.randint(0, L) * U
        return {"min": a, "max": a + rng.randint(0, 2 * L) * U}
    if op == "jitter_timestamps":
        return {"J": rng.choice([U, 2 * U, 5 * U, L * U]), "keep": rng.random() < 0.5}
    return {}


def group_cases(tier, seed):
    """(op, keys, tss, s, e, params) with lattice draws; members may be empty, single stamps, duplicates"""
    rng = random.Random(seed * 11 + 5)
    out = []
    n = 2500 if tier == "quick" else 40000
    for _ in range(n):
        o = rng.choice(ORIGINS)
        L = rng.choice([4, 4, 6, 12])
        s, e = o, o + L * U
        nm = rng.choice([1, 2, 2, 3, 3, 4])
        keys = sorted(rng.sample(range(0, 12), nm))
        tss = []
        for _k in keys:
            r = rng.random()
            if r < 0.06:
                tss.append([])
            elif r < 0.16:
                tss.append([o + rng.randint(0, L) * U])
            else:
                tss.append(rand_ts(rng, o, L, 4))
        op = rng.choice(OPS)
        out.append((op, keys, tss, s, e, rand_params(rng, op, L)))
    return out


# --------------------------------------------------------------------------------------
def record(res, viols, inp):
    for v in viols:
        v["input"] = inp
        res.violations.append(v)


def run(res, tier, seed):
    nap = _nap()
    warnings.simplefilter("ignore")
    res.rule = ("public shift_timestamps / jitter_timestamps / resample_timestamps / shuffle_ts_intervals on Ts and TsGroup, support origin in {0 s, 100 s, -50 s}. "
                "(A) Ts, COMPLETE: all sorted multisets of 1..3 stamps (1..4 for shuffle) on a 5-point dyadic lattice spanning the support (stamps on both support ends, duplicates, "
                "single stamps) x ALL draws: every shift in [min, max] for 5 (min, max) incl. default, negative and > support length; every jitter vector in {-J..J}^n, J in {1, 2} "
                "lattice steps, keep_tsupport both ways (J = 2: seeded subsample in quick); every resample vector in [first, last]^n; every permutation of the intervals. "
                "(B) TsGroup: seeded random groups of 1..4 members (empty / single-stamp / duplicate members) with lattice draws. (C) larger random Ts/TsGroup, n <= 40, lattice draws. "
                "(D) NumPy's real generator, seeded, 200 (quick) / 5000 (thorough) seeds x 4 generators x Ts/TsGroup, statement oracle only. (E) shuffle on ns-resolution stamps. "
                "(F) shift/jitter/resample with ns-resolution stamps and draws (a shift landing exactly on a multiple of the support length may come out as end instead of start: float_ambiguous). "
                "(G) the EMPTY Ts x 3 origins x 4 generators x every parameter set (5 shift ranges, jitter keep both ways): no exception, nothing out. "
                "Every (A)(B)(C)(E)(F)(G) case is also compared with the extracted Coq model fed the recorded draws. non-trivial = the draw changes the series (result != input)")
    res.exhaustive = True
    lines, pending = [], []

    # (A) Ts, complete small space with scripted draws
    for op, ts, s, e, p, script in ts_cases(tier, seed):
        dr = Draws("script", script=script)
        r = run_ts(nap, op, ts, s, e, p, dr)
        draws = dr.flat()
        inp = {"kind": "Ts", "op": op, "ts": ts, "support": [s, e], "params": p, "draws": draws}
        res.case(("A", op, tuple(ts), s, tuple(sorted(p.items(), key=str)), str(draws)), nontrivial=r[0] == "ok" and r[1] != list(ts))
        res.count("A:" + op)
        res.count("origin=%d" % (s // 10 ** 9))
        record(res, judge_ts(op, ts, s, e, p, r), inp)
        lines.append(line_ts(op, ts, s, e, p, draws))
        pending.append(("Ts", inp, r))
        if len(pending) % 9001 == 0:
            res.sample({"op": op, "ts": ts, "support": [s, e], "params": p, "draws": draws, "result": r[1:]})

    # (B) TsGroup, random small groups with lattice draws
    for n, (op, keys, tss, s, e, p) in enumerate(group_cases(tier, seed)):
        dr = Draws("lattice", rng=random.Random(seed * 13 + n))
        r = run_group(nap, op, keys, tss, s, e, p, dr)
        draws = align_draws(op, tss, dr.flat())
        inp = {"kind": "TsGroup", "op": op, "keys": keys, "tss": tss, "support": [s, e], "params": p, "draws": draws}
        res.case(("B", op, tuple(keys), str(tss), s, str(p), str(draws)), nontrivial=r[0] == "ok" and r[2] != tss)
        res.count("B:" + op)
        res.count("group_members=%d" % len(keys))
        if any(len(t) == 0 for t in tss):
            res.count("group_with_empty_member")
        if any(len(set(t)) == 1 for t in tss):
            res.count("group_with_single_distinct_member")
        record(res, judge_group(op, keys, tss, s, e, p, r, draws, res=res), inp)
        if len(draws) == len(tss):
            lines.append(line_group(op, keys, tss, s, e, p, draws))
            pending.append(("TsGroup", inp, r))
        elif r[0] != "exc":
            res.disagreements.append({"op": op, "input": inp, "what": "number of recorded draw calls differs from the number of members"})
        if n % 701 == 0:
            res.sample({"op": op, "keys": keys, "tss": tss, "support": [s, e], "params": p, "draws": draws, "result": r[1:4]})

    # (C) larger random cases, lattice draws
    rng = random.Random(seed * 17 + 9)
    for n in range(600 if tier == "quick" else 8000):
        o = rng.choice(ORIGINS)
        L = rng.choice([16, 64, 200])
        s, e = o, o + L * U
        op = rng.choice(OPS)
        p = rand_params(rng, op, L)
        dr = Draws("lattice", rng=random.Random(seed * 19 + n))
        if rng.random() < 0.6:
            ts = rand_ts(rng, o, L, 40)
            r = run_ts(nap, op, ts, s, e, p, dr)
            draws = dr.flat()
            inp = {"kind": "Ts", "op": op, "ts": ts, "support": [s, e], "params": p, "draws": draws}
            res.case(("C", n), nontrivial=r[0] == "ok" and r[1] != ts)
            record(res, judge_ts(op, ts, s, e, p, r), inp)
            lines.append(line_ts(op, ts, s, e, p, draws))
            pending.append(("Ts", inp, r))
        else:
            keys = sorted(rng.sample(range(0, 50), rng.randint(1, 5)))
            tss = [rand_ts(rng, o, L, 25) if rng.random() > 0.05 else [] for _ in keys]
            r = run_group(nap, op, keys, tss, s, e, p, dr)
            draws = align_draws(op, tss, dr.flat())
            inp = {"kind": "TsGroup", "op": op, "keys": keys, "tss": tss, "support": [s, e], "params": p, "draws": draws}
            res.case(("C", n), nontrivial=r[0] == "ok" and r[2] != tss)
            record(res, judge_group(op, keys, tss, s, e, p, r, draws, res=res), inp)
            if len(draws) == len(tss):
                lines.append(line_group(op, keys, tss, s, e, p, draws))
                pending.append(("TsGroup", inp, r))
        res.count("C:" + op)

    # (E) shuffle on ns-resolution stamps (no float draw is involved: any tick values are exact after re-rounding)
    rng = random.Random(seed * 23 + 1)
    for n in range(300 if tier == "quick" else 4000):
        o = rng.choice(ORIGINS)
        s, e = o, o + 10 ** 9
        gaps = (0, 1, 500, 999, 1000, 1001, 10 ** 6, 123456789)

        def mk():
            t = [o + rng.choice([0, 1, 1000, 10 ** 6, 5 * 10 ** 8])]
            for _ in range(rng.randint(0, 6)):
                t.append(t[-1] + rng.choice(gaps))
            return [x for x in t if x <= e]
        dr = Draws("lattice", rng=random.Random(seed * 29 + n))
        if rng.random() < 0.5:
            ts = mk()
            r = run_ts(nap, "shuffle_ts_intervals", ts, s, e, {}, dr)
            draws = dr.flat()
            inp = {"kind": "Ts", "op": "shuffle_ts_intervals", "ts": ts, "support": [s, e], "params": {}, "draws": draws}
            res.case(("E", n), nontrivial=r[0] == "ok" and r[1] != ts)
            record(res, judge_ts("shuffle_ts_intervals", ts, s, e, {}, r), inp)
            lines.append(line_ts("shuffle_ts_intervals", ts, s, e, {}, draws))
            pending.append(("Ts", inp, r))
        else:
            keys = sorted(rng.sample(range(0, 9), rng.choice([2, 2, 3])))
            tss = [mk() for _ in keys]
            if rng.random() < 0.3:      # make two members' recomputed supports touch
                tss[1] = [x for x in [tss[0][-1] + g for g in (0, 7, 2000)] if x <= e] or tss[1]
            r = run_group(nap, "shuffle_ts_intervals", keys, tss, s, e, {}, dr)
            draws = align_draws("shuffle_ts_intervals", tss, dr.flat())
            inp = {"kind": "TsGroup", "op": "shuffle_ts_intervals", "keys": keys, "tss": tss, "support": [s, e], "params": {}, "draws": draws}
            res.case(("E", n), nontrivial=r[0] == "ok" and r[2] != tss)
            record(res, judge_group("shuffle_ts_intervals", keys, tss, s, e, {}, r, draws, res=res), inp)
            if len(draws) == len(tss):
                lines.append(line_group("shuffle_ts_intervals", keys, tss, s, e, {}, draws))
                pending.append(("TsGroup", inp, r))
        res.count("E:shuffle_ns")

    # (F) shift / jitter / resample on ns-resolution stamps and draws (decimal, not dyadic): t + d, the sort, the rounding to
    #     1e-9 and the restriction are exact on ticks; only a shift landing exactly on a multiple of the support length may come
    #     out as `end` instead of `start` (float %), counted as float_ambiguous
    rng = random.Random(seed * 37 + 4)
    for n in range(600 if tier == "quick" else 8000):
        o = rng.choice(ORIGINS)
        span = rng.choice([2000, 10 ** 6, 10 ** 9])
        s, e = o, o + span

        def mkns(nmax):
            t = []
            for _ in range(rng.randint(1, nmax)):
                r = rng.random()
                t.append(rng.choice(t) if t and r < 0.2 else (o + rng.choice([0, span]) if r < 0.3 else o + rng.randint(0, span)))
            return sorted(t)
        op = rng.choice(OPS[:3])
        if op == "shift_timestamps":
            a = rng.choice([0, 0, rng.randint(-span, span)])
            p = rng.choice([{"min": 0, "max": None}, {"min": a, "max": a + rng.randint(0, 2 * span)}])
        elif op == "jitter_timestamps":
            p = {"J": rng.choice([1, 500, 1000, 1001, span // 3]), "keep": rng.random() < 0.5}
        else:
            p = {}
        dr = Draws("lattice", rng=random.Random(seed * 41 + n), step=1)
        if rng.random() < 0.6:
            ts = mkns(12)
            r = run_ts(nap, op, ts, s, e, p, dr)
            draws = dr.flat()
            inp = {"kind": "Ts", "op": op, "ts": ts, "support": [s, e], "params": p, "draws": draws, "resolution": "ns"}
            res.case(("F", n), nontrivial=r[0] == "ok" and r[1] != ts)
            record(res, judge_ts(op, ts, s, e, p, r), inp)
            lines.append(line_ts(op, ts, s, e, p, draws))
            pending.append(("Ts", inp, r))
        else:
            keys = sorted(rng.sample(range(0, 20), rng.randint(1, 4)))
            tss = [mkns(6) for _ in keys]
            r = run_group(nap, op, keys, tss, s, e, p, dr)
            draws = align_draws(op, tss, dr.flat())
            inp = {"kind": "TsGroup", "op": op, "keys": keys, "tss": tss, "support": [s, e], "params": p, "draws": draws, "resolution": "ns"}
            res.case(("F", n), nontrivial=r[0] == "ok" and r[2] != tss)
            record(res, judge_group(op, keys, tss, s, e, p, r, draws, res=res), inp)
            if len(draws) == len(tss):
                lines.append(line_group(op, keys, tss, s, e, p, draws))
                pending.append(("TsGroup", inp, r))
        res.count("F:" + op + "_ns")

    # (G) the empty Ts (its support is empty, see ASSUMPTIONS): nothing in, nothing out, no exception - for every generator and parameter
    for o in ORIGINS:
        s, e = o, o + 8 * U
        for op in OPS:
            plist = SHIFT_PARAMS if op == "shift_timestamps" else ([{"J": U, "keep": False}, {"J": U, "keep": True}] if op == "jitter_timestamps" else [{}])
            for p in plist:
                dr = Draws("lattice", rng=random.Random(seed + 5))
                r = run_ts(nap, op, [], s, e, p, dr)
                draws = dr.flat()
                inp = {"kind": "Ts", "op": op, "ts": [], "support": [s, e], "params": p, "draws": draws}
                res.case(("G", op, s, str(p)), nontrivial=False)
                res.count("G:empty_Ts")
                record(res, judge_ts(op, [], s, e, p, r), inp)
                if r[0] == "ok":       # the model never raises on an empty series; an exception is already reported above
                    mdraws = draws if draws else [[0] if op == "shift_timestamps" else []]
                    lines.append(line_ts(op, [], s, e, p, mdraws))
                    pending.append(("Ts", inp, r))

    # model comparison for (A)(B)(C)(E)(F)(G)
    outm = C.run_model(lines, driver="driver_c20")
    for (kind, inp, r), om in zip(pending, outm):
        if om.startswith("ERR"):
            res.disagreements.append({"op": inp["op"], "input": inp, "model": om})
            continue
        if kind == "Ts":
            m = parse_model_ts(om)
            same = (r[0] == "exc" and m[0] == "exc") or (r[0] == "ok" and m[0] == "ok" and list(r[1]) == m[1] and list(r[2]) == m[2])
        else:
            m = parse_model_group(om)
            same = (r[0] == "exc" and m[0] == "exc") or (r[0] == "ok" and m[0] == "ok" and r[1] == m[1] and r[2] == m[2] and r[3] == m[3])
        if not same and inp.get("resolution") == "ns" and inp["op"] == "shift_timestamps" and r[0] == "ok" and m[0] == "ok":
            s_, e_ = inp["support"]

            def fold(l):
                return sorted(s_ if x == e_ else x for x in l)
            L_ = e_ - s_
            members = [inp["ts"]] if kind == "Ts" else inp["tss"]
            coincide = any((t - s_ + d[0]) % L_ == 0 for tsm, d in zip(members, inp["draws"]) for t in tsm)
            if not coincide:
                res.disagreements.append({"op": inp["op"], "kind": kind, "input": inp, "impl": r[1:4], "model": m})
                continue
            if kind == "Ts" and fold(r[1]) == fold(m[1]) and list(r[2]) == m[2]:
                res.float_ambiguous += 1
                continue
            if kind == "TsGroup" and r[1] == m[1] and [fold(x) for x in r[2]] == [fold(x) for x in m[2]] and r[3] == m[3]:
                res.float_ambiguous += 1
                continue
        if not same:
            res.disagreements.append({"op": inp["op"], "kind": kind, "input": inp, "impl": r[1:4], "model": m})
    res.traces = len(pending)

    # (D) NumPy's real generator: the statement for every state of the generator we can afford
    rng = random.Random(seed * 31 + 2)
    for sd in range(200 if tier == "quick" else 5000):
        o = rng.choice(ORIGINS)
        L = rng.choice([8, 64, 512])
        s, e = o, o + L * U
        for op in OPS:
            p = rand_params(rng, op, L)
            ts = rand_ts(rng, o, L, 30)
            dr = Draws("real", seed=sd)
            r = run_ts(nap, op, ts, s, e, p, dr)
            inp = {"kind": "Ts", "op": op, "ts": ts, "support": [s, e], "params": p, "numpy_seed": sd}
            res.case(("D", "Ts", op, sd), nontrivial=r[0] == "ok" and r[1] != ts)
            record(res, judge_ts(op, ts, s, e, p, r), inp)
            if op == "jitter_timestamps" and p["keep"] and r[0] == "ok":
                res.count("D:jitter_keep_checked_against_recorded_draws")
                if len(r[1]) < len(ts):
                    res.count("D:jitter_keep_dropped_some")
                dv = dr.flat()
                if len(dv) != 1 or not kept_by_draws(ts, s, e, r[1], dv[0], 1):
                    res.disagreements.append({"op": op, "kind": "Ts", "input": dict(inp, draws=dv), "impl": r[1:3],
                                              "what": "keep_tsupport=True: the result is not the stamps t_k + d_k (recorded draws) that fall inside the support"})
            keys = sorted(rng.sample(range(0, 30), rng.randint(2, 4)))
            tss = [rand_ts(rng, o, L, 12) for _ in keys]
            if op in ("jitter_timestamps", "shuffle_ts_intervals"):
                tss = [t if len(set(t)) > 1 else [t[0], min(t[0] + U, e)] if t[0] < e else [t[0] - U, t[0]] for t in tss]
            dr = Draws("real", seed=sd)
            r = run_group(nap, op, keys, tss, s, e, p, dr)
            inp = {"kind": "TsGroup", "op": op, "keys": keys, "tss": tss, "support": [s, e], "params": p, "numpy_seed": sd}
            res.case(("D", "TsGroup", op, sd), nontrivial=r[0] == "ok" and r[2] != tss)
            record(res, judge_group(op, keys, tss, s, e, p, r, align_draws(op, tss, dr.flat()), res=res), inp)
            if op == "jitter_timestamps" and p["keep"] and r[0] == "ok" and r[1] == list(keys):
                dv = dr.flat()
                if len(dv) != len(tss) or not all(kept_by_draws(t, s, e, o, d, 1) for t, o, d in zip(tss, r[2], dv)):
                    res.disagreements.append({"op": op, "kind": "TsGroup", "input": dict(inp, draws=dv), "impl": r[1:4],
                                              "what": "keep_tsupport=True: a member is not its stamps t_k + d_k (recorded draws) that fall inside the support"})
            res.count("D:" + op, 2)


def search(res, seed):
    r2 = C.Result()
    run(r2, "thorough", seed)
    for v in r2.violations:
        if C.match_known("C20", v) is None:
            return v
    return None


def replay(payload):
    nap = _nap()
    warnings.simplefilter("ignore")
    v = payload.get("violation") or (payload.get("disagreements") or [{}])[0]
    inp = v.get("input", {})
    if not inp:
        print("nothing to replay")
        return 1
    op, (s, e), p = inp["op"], inp["support"], inp.get("params", {})
    if "numpy_seed" in inp:
        dr = Draws("real", seed=inp["numpy_seed"])
    else:
        flat = []
        members = [inp["ts"]] if inp["kind"] == "Ts" else inp["tss"]
        for i, d in enumerate(inp["draws"]):
            if op != "shuffle_ts_intervals":
                flat.extend(d)
            elif i >= len(members) or members[i]:      # no permutation is drawn for an empty member
                flat.append(d)
        dr = Draws("script", script=flat)
    if inp["kind"] == "Ts":
        r = run_ts(nap, op, inp["ts"], s, e, p, dr)
        bad = judge_ts(op, inp["ts"], s, e, p, r)
        print("op", op, "Ts", inp["ts"], "support", [s, e], "params", p, "draws", dr.flat())
    else:
        r = run_group(nap, op, inp["keys"], inp["tss"], s, e, p, dr)
        bad = judge_group(op, inp["keys"], inp["tss"], s, e, p, r, align_draws(op, inp["tss"], dr.flat()))
        print("op", op, "TsGroup", dict(zip(inp["keys"], inp["tss"])), "support", [s, e], "params", p, "draws", dr.flat())
    print("impl", r[1:4] if r[0] == "ok" else r)
    for b in bad:
        print("VIOLATED:", b["what"], b["key"])
    if not bad:
        print("statement satisfied on this input")
    return 1 if bad else 0
