"""C19 spectral estimates are the DFT of the epoch's samples and conserve power (partial: the FFT itself is an oracle)."""
import itertools
import random
import warnings
from fractions import Fraction

import numpy as np

import common as C
import gen as G

LEVEL = "proof"
DRIVERS = ["driver_c19"]
TRUSTED = ["model: coq/Model/Spectrum.v (fftfreq_idx, sort_k/fft_table, nonneg, doubled (k > 0)/double_rows, crop_pad, seg_go/overlap_split, seg_slices/min_len/mean_plan, "
           "compute_fft/psd/mean_psd over an abstract field) over Model/Restrict.v and Model/Slice.v; theorems: Proofs/SpectrumIndexProofs.v, SpectrumFieldProofs.v, SpectrumProofs.v, SpectrumExample.v (Qc instance)",
           "PARTIAL: np.fft.fft is a parameter `dft` of the model; its laws are hypotheses of the closed theorems (length_law; parseval_at x: sum|X_k|^2 = n sum x_j^2; "
           "hermitian_at x: |X_{n-k}|^2 = |X_k|^2), stated at the one signal they are used for; scipy.signal.windows.hamming is a parameter `window` (only its length is used)",
           "values live in an abstract field K (field_theory with Leibniz equality, characteristic 0): the hypotheses are visible in every closed statement; floats are idealised as that field",
           "harness: the DFT used by the oracle is a direct O(n^2) evaluation of sum x_j exp(-2 pi i jk/n) (not np.fft.fft); real-valued outputs are compared to a declared relative "
           "tolerance 1e-9; frequencies, ordering, doubling mask, scale, crop/pad and total power are compared as discrete quantities recovered from the output (integer k = f n/fs, "
           "psd_k fs n/|X_k|^2 snapped to {1,2}, inverse transform rounded to the integer samples, sum psd * fs rounded to the integer sum of squares)"]
ASSUMPTIONS = ["sampling rate fs > 0 (frequencies k*fs/n order like k). The one-sided doubling theorems are unconditional on the repaired tree (mask index > 0); the pre-repair guard "
               "fs/2 - 1e-6 is kept in the model only as history (mask_orig, C19_mask_orig_low_rate_refuted); the low-rate inputs (fs/(2n) <= 1e-6) stay in the generator as positive cases",
               "for even n the one-sided forms DROP the Nyquist bin (np.fft.fftfreq puts it at -fs/2; documented in the docstrings' Notes): one-sided total = full total - Nyquist term "
               "(theorem C19_onesided_sum_even), e.g. the one-sided PSD of [1,-1,1,-1] is identically 0. The property only states which bins are doubled, not which rows the one-sided form lists, "
               "so this is recorded (count even_n_onesided_drops_nyquist) and not reported; the oracle accepts BOTH conventions: rows k = 0..ceil(n/2)-1, optionally followed by the Nyquist row at +fs/2, "
               "which must then be present undoubled (count onesided_keeps_nyquist_row; the model comparison is skipped for such a result)",
               "_overlap_split is modelled on ticks with the step st = (1-overlap)*interval_size a whole number of ticks (a rational overlap a/b is the same model on times scaled by b); "
               "exhaustive cases live on the dyadic lattice 2^-9 s where the kernel's float accumulation is exact; on decimal lattices (kernel and public mean PSD) a segment end exactly equal to the epoch end is "
               "float_ambiguous: the result must then be the estimate with or without that last segment; everything else is judged exactly there too (get_slice rounds its bounds to the nanosecond)",
               "when no estimate exists (no segment fits strictly inside an epoch / a segment without samples) any exception is accepted; its type is recorded (mean:no_estimate_raised=...)",
               "segments with unequal sample counts (irregular sampling) are truncated to the first N = min count samples by the implementation; the statement speaks of equal-length "
               "segments, so such cases are checked as correspondence (model vs implementation) only",
               "widened forms: a NaN / +inf / -inf sample inside the epoch (inside a segment) makes exactly the bins of that column non-finite (the DFT sum holds the sample with a non-zero "
               "coefficient in every bin); outside the epoch it must not matter. Forms the documented signatures do not promise to accept (n as a numpy integer, overlap as int / np.float32, a 0-d array "
               "for fs / interval_size, time_unit in another letter case, an epoch without samples and n=None) are `lenient`: a clean Python exception or a result that satisfies the statement. "
               "The model (an exact field) is not compared where the implementation computes in single precision (float32 / float16 data, np.float32 fs or interval_size), where an integer-typed fs wraps "
               "in fs*n, or on non-finite samples: there only the statement oracle judges, and the key of a violation names the regime (data_single_precision, fs_single_precision, fs_times_n_overflows, "
               "interval_size_float32_rescaled_inexactly; within_single_precision = the same oracle passes at float32 tolerances)"]

U = 1953125          # 2^-9 s in ticks
RTOL = 1e-9


def _nap():
    import pynapple as nap
    from pynapple.process import spectrum as S
    return nap, S


# ------------------------------------------------------------------------------------------------
# statement-level oracles (independent of the model and of np.fft.fft)
def dft(y):
    y = np.asarray(y, dtype=float)
    n = len(y)
    k = np.arange(n)
    W = np.exp(-2j * np.pi * (np.outer(k, k) % n) / n)
    return W @ y


def idft(X):
    X = np.asarray(X, dtype=complex)
    n = len(X)
    k = np.arange(n)
    return (np.exp(2j * np.pi * (np.outer(k, k) % n) / n) @ X) / n


def hamming(N):
    if N == 1:
        return np.ones(1)
    return 0.54 - 0.46 * np.cos(2 * np.pi * np.arange(N) / (N - 1))


def sorted_ks(n):
    return list(range(-(n // 2), (n + 1) // 2))


def crop_pad(x, n):
    x = list(x)[:n]
    return x + [0] * (n - len(x))


def oracle_fft(ts, vs, s, e, n, fs, full, norm):
    """rows (k, freq, value): the DFT of exactly the samples inside [s,e], cropped/padded to n, by increasing frequency"""
    x = [v for t, v in zip(ts, vs) if s <= t <= e]
    n1 = len(x) if n is None else n
    y = crop_pad(x, n1)
    X = dft(y)
    ff = np.sort(np.fft.fftfreq(n1, 1 / fs))
    rows = []
    for r, k in enumerate(sorted_ks(n1)):
        if full or k >= 0:
            rows.append((k, ff[r], X[k % n1] / (n1 if norm else 1)))
    return rows, y, X


def oracle_psd(ts, vs, s, e, n, fs, full):
    rows, y, X = oracle_fft(ts, vs, s, e, n, fs, True, False)
    n1 = len(y)
    out = []
    for k, f, v in rows:
        if full or k >= 0:
            mult = 1 if full else (2 if (k > 0 and 2 * k != n1) else 1)     # strictly positive and not Nyquist
            out.append((k, f, mult, mult * abs(v) ** 2 / (fs * n1)))
    return out, y, X


def oracle_segments(ep, L, st, closed=()):
    """closed = indices of the epochs in which a segment ending exactly on the epoch end is kept (only used on decimal lattices, where
    `t + interval_size < end` is decided by float rounding when both sides are equal in exact arithmetic)"""
    segs = []
    for k, (s, e) in enumerate(ep):
        j = 0
        while s + j * st + L < e or (k in closed and s + j * st + L == e):
            segs.append((s + j * st, s + j * st + L))
            j += 1
    return segs


def oracle_mean_psd(ts, vs, ep, L, st, fs, full, closed=()):
    """None = no estimate exists (no segment fits strictly inside an epoch, or a segment without samples)"""
    segs = oracle_segments(ep, L, st, closed)
    if not segs:
        return None
    chunks = [[v for t, v in zip(ts, vs) if a <= t <= b] for a, b in segs]
    N = min(len(c) for c in chunks)
    if N == 0:
        return None
    w = hamming(N)
    acc = np.zeros(N)
    for c in chunks:
        acc += np.abs(dft(np.asarray(c[:N], float) * w)) ** 2 / (fs * N)
    acc /= len(chunks)
    ff = np.sort(np.fft.fftfreq(N, 1 / fs))
    rows = []
    for r, k in enumerate(sorted_ks(N)):
        if full or k >= 0:
            mult = 1 if full else (2 if (k > 0 and 2 * k != N) else 1)
            rows.append((k, ff[r], mult * acc[k % N]))
    return {"rows": rows, "N": N, "segs": segs, "nyquist": acc[N // 2], "uniform": len(set(len(c) for c in chunks)) == 1,
            "slices": [(sum(1 for t in ts if t < a), sum(1 for t in ts if t <= b)) for a, b in segs]}


TOL = {"r": RTOL, "k": 1e-7, "m": 1e-6}            # the declared tolerances of the oracle (values comparison, integer recovery of k, snapping of the multiplier)
TOL_SINGLE = {"r": 1e-5, "k": 1e-4, "m": 1e-3}     # NEVER used to judge: a second pass that labels a violation `within_single_precision` in its key


def close(a, b, scale):
    if not (np.isfinite(a) and np.isfinite(b)):
        # non-finite data (NaN / +inf / -inf samples inside the epoch): the DFT sum is non-finite in that bin, and only then
        return (not np.isfinite(a)) and (not np.isfinite(b))
    return abs(a - b) <= TOL["r"] * (1.0 + scale)


def cclose(v, w, scale):
    """complex values: both finite and close in both parts, or both non-finite"""
    v, w = complex(v), complex(w)
    fv, fw = np.isfinite(v.real) and np.isfinite(v.imag), np.isfinite(w.real) and np.isfinite(w.imag)
    if not (fv and fw):
        return (not fv) and (not fw)
    return close(v.real, w.real, scale) and close(v.imag, w.imag, scale)


def fin_max(a):
    a = np.asarray(a, float).ravel()
    a = a[np.isfinite(a)]
    return float(np.max(a)) if len(a) else 0.0


def rec_k(f, n, fs):
    q = f * n / fs
    if not np.isfinite(q):
        return None
    k = int(round(q))
    return k if abs(q - k) < TOL["k"] else None


def frac(fs):
    fr = Fraction(float(fs))
    return fr.numerator, fr.denominator


# ------------------------------------------------------------------------------------------------
# one single-epoch case: compute_fft and compute_power_spectral_density through the public API
def mk_sig(nap, ts, cols, support):
    t = G.arr(ts)
    kw = {}
    if support is not None:
        kw["time_support"] = nap.IntervalSet(G.arr([support[0]]), G.arr([support[1]]))
    if len(cols) == 1:
        return nap.Tsd(t, np.asarray(cols[0], float), **kw)
    return nap.TsdFrame(t, np.stack([np.asarray(c, float) for c in cols], axis=1), **kw)


def model_lines_single(c):
    ts, s, e, n, full = c["ts"], c["s"], c["e"], c["n"], c["full"]
    col0 = [v if np.isfinite(v) else 0 for v in c["cols"][0]]      # NaN / inf samples (widened forms) are not model inputs
    x = [v for t, v in zip(ts, col0) if s <= t <= e]
    n1 = len(x) if n is None else n
    return ["positions\t%d\t%d" % (int(full), n1),
            "signal\t%s\t%s\t%d\t%d\t%d" % (C.fmt_ints(ts), C.fmt_ints(col0), s, e, -1 if n is None else n)]


def check_single(nap, c, mout, res=None):
    """returns (violations, disagreements). c: dict ts, cols, support, ep, s, e, n, fs, full, norm"""
    V, D = [], []
    ts, cols, s, e, n, full, norm = c["ts"], c["cols"], c["s"], c["e"], c["n"], c["full"], c["norm"]
    F = c.get("form")                 # widened argument forms (None = the plain form: float64 ndarrays, keywords, Python floats)
    if F is None:
        sig = mk_sig(nap, ts, cols, c["support"])
        ep = nap.IntervalSet(G.arr([s]), G.arr([e])) if c["ep"] else None
    else:
        sig = mk_sig_form(nap, c)
        ep = mk_ep_form(nap, [(s, e)] if c["ep"] != "empty" else [], F.get("epform", "arrays"), F.get("g", 2 * U)) if c["ep"] else None
    fs_eff = float(c["fs"]) if c["fs"] is not None else float(sig.rate)
    inp = {k: c[k] for k in ("ts", "cols", "support", "ep", "s", "e", "n", "fs", "full", "norm")}
    kw = {}
    if c["fs"] is not None:
        kw["fs"] = float(c["fs"])
    if ep is not None:
        kw["ep"] = ep
    if n is not None:
        kw["n"] = n
    trig, lenient, skip_model = {}, None, False
    if F is not None:
        inp["form"] = F
        if c["fs"] is not None:
            kw["fs"] = mk_scalar(c["fs"], F.get("fsform", "float"))
        if n is not None:
            kw["n"] = mk_scalar(n, F.get("nform", "int"))
        lenient = F.get("lenient")       # a form the documented signature does not promise to accept: a clean exception or the statement
        n_eff = n if n is not None else sum(1 for t in ts if s <= t <= e)
        trig = triggers(sig, kw.get("fs"), n_eff)
        bad0 = any(not np.isfinite(v) for t, v in zip(ts, cols[0]) if s <= t <= e)
        skip_model = bool(trig) or bad0      # the model's field is exact: single-precision / wrapped-integer arithmetic and NaN are outside it
        if F.get("hist") == "twice":         # the same live objects used before: every operation once, results discarded
            for op_ in ("fft", "psd"):
                try:
                    call_single(nap, op_, sig, F, kw, full, norm)
                except Exception:
                    pass
    pos_k = [int(q) for q in mout[0].split("|")[0].split()]
    pos_p = [int(q) for q in mout[0].split("|")[1].split()]
    sg = mout[1].split("|")
    m_idx, m_cp, m_ss = [int(q) for q in sg[0].split()], [int(q) for q in sg[1].split()], int(sg[2])
    # correspondence: restrict of the public API selects the model's indices
    r_idx = [int(np.searchsorted(sig.t, q)) for q in sig.restrict(nap.IntervalSet(G.arr([s]), G.arr([e]))).t]
    if len(set(ts)) < len(ts):       # duplicate timestamps: searchsorted names the first of each run; compare the number of samples selected per instant
        r_idx, m_idx_c = sorted(r_idx), sorted(int(np.searchsorted(sig.t, ts[j] / 1e9)) for j in m_idx)
    else:
        m_idx_c = m_idx
    if r_idx != m_idx_c:
        D.append({"op": "restrict(epoch) vs model epoch_idx", "input": inp, "impl": r_idx, "model": m_idx})
    # ---------------- compute_fft
    try:
        out = nap.compute_fft(sig, full_range=full, norm=norm, **kw) if F is None else call_single(nap, "fft", sig, F, kw, full, norm)
    except Exception as ex:
        if lenient:
            if res is not None:
                res.count("wide:lenient:%s:compute_fft_rejected=%s" % (lenient, type(ex).__name__))
            return V, D
        V.append({"key": dict({"op": "compute_fft", "full_range": full, "norm": norm, "part": "raises"}, **trig), "what": "compute_fft raised on a valid single-epoch input",
                  "input": inp, "impl": repr(ex)[:300], "expected": "the DFT rows"})
        return V, D
    if lenient and res is not None:
        res.count("wide:lenient:%s:compute_fft_accepted(judged by the statement)" % lenient)
    for ci, col in enumerate(cols):
        rows, y, X = oracle_fft(ts, col, s, e, n, fs_eff, full, norm)
        n1 = len(y)
        key = dict({"op": "compute_fft", "full_range": full, "norm": norm}, **{k_: v_ for k_, v_ in trig.items() if k_ != "fs_times_n_overflows"})
        if ci == 0 and not skip_model and (y != m_cp or sum(v * v for v in y) != m_ss):
            D.append({"op": "crop_pad model vs statement", "input": inp, "model": m_cp, "expected": y})
        nyq = (not full) and n1 % 2 == 0 and len(out) == len(rows) + 1
        if nyq:
            # the statement does not say whether the one-sided form keeps the Nyquist bin of an even n (np.fft.fftfreq files it under -fs/2):
            # a result that lists it at +fs/2 is judged with that row included
            rows = rows + [(n1 // 2, fs_eff / 2, X[n1 // 2] / (n1 if norm else 1))]
            if res is not None:
                res.count("onesided_keeps_nyquist_row")
        if len(out) != len(rows):
            V.append({"key": dict(key, part="rows"), "what": "compute_fft returns %d rows, the DFT of the epoch's samples has %d in this range" % (len(out), len(rows)),
                      "input": inp, "impl": len(out), "expected": len(rows)})
            continue
        fi = np.asarray(out.index, float)
        ks = [rec_k(f, n1, fs_eff) for f in fi]
        if ks != [r[0] for r in rows] or not all(close(f, r[1], abs(r[1])) for f, r in zip(fi, rows)):
            V.append({"key": dict(key, part="index"), "what": "frequencies are not the sorted np.fft.fftfreq(n, 1/fs)", "input": inp,
                      "impl": fi.tolist(), "expected": [r[1] for r in rows]})
            continue
        if ks != pos_k and not nyq and not skip_model:
            D.append({"op": "compute_fft keys vs model fft_positions", "input": inp, "impl": ks, "model": pos_k})
        vals = np.asarray(out.values[:, ci], complex)
        sc = fin_max(np.abs(X)) / (n1 if norm else 1)
        if not all(cclose(v, r[2], sc) for v, r in zip(vals, rows)):
            V.append({"key": dict(key, part="values"), "what": "values are not the DFT of the samples inside the epoch (cropped/padded to n%s)" % (", divided by n" if norm else ""),
                      "input": inp, "impl": [complex(v) for v in vals], "expected": [complex(r[2]) for r in rows]})
            continue
        if len(pos_p) == len(vals) and not skip_model:
            mv = [X[p] / (n1 if norm else 1) for p in pos_p]
            if not all(cclose(v, w, sc) for v, w in zip(vals, mv)):
                D.append({"op": "compute_fft rows vs model positions", "input": inp, "model_positions": pos_p})
            if full and ci == 0:
                # discrete recovery: undo the model's permutation, invert, round -> the integer n-point signal
                Xu = np.zeros(n1, complex)
                for v, p in zip(vals, pos_p):
                    Xu[p] = v * (n1 if norm else 1)
                back = np.real(idft(Xu))
                rb = [int(round(q)) for q in back]
                if rb != m_cp or np.max(np.abs(back - np.asarray(rb))) > 1e-6:
                    D.append({"op": "inverse transform of compute_fft vs model crop_pad", "input": inp, "impl": rb, "model": m_cp})
    # ---------------- compute_power_spectral_density (norm does not apply)
    if not norm:
        try:
            out = nap.compute_power_spectral_density(sig, full_range=full, **kw) if F is None else call_single(nap, "psd", sig, F, kw, full, norm)
        except Exception as ex:
            if lenient:
                if res is not None:
                    res.count("wide:lenient:%s:psd_rejected=%s" % (lenient, type(ex).__name__))
                return V, D
            V.append({"key": dict({"op": "compute_power_spectral_density", "full_range": full, "part": "raises"}, **trig), "what": "PSD raised on a valid single-epoch input",
                      "input": inp, "impl": repr(ex)[:300], "expected": "the PSD rows"})
            return V, D
        mm = mout[2].split("|") if len(mout) > 2 else None
        for ci, col in enumerate(cols):
            rows, y, X = oracle_psd(ts, col, s, e, n, fs_eff, full)
            n1 = len(y)
            key = dict({"op": "compute_power_spectral_density", "full_range": full, "regime": "fs/(2n)<=1e-6" if fs_eff / (2 * n1) <= 1.0000001e-6 else "fs/(2n)>1e-6"}, **trig)
            nyq = (not full) and n1 % 2 == 0 and len(out) == len(rows) + 1
            if nyq:     # one-sided form that keeps the Nyquist bin (at +fs/2): it must NOT be doubled
                rows = rows + [(n1 // 2, fs_eff / 2, 1, abs(X[n1 // 2]) ** 2 / (fs_eff * n1))]
            if len(out) != len(rows):
                V.append({"key": dict(key, part="rows"), "what": "PSD returns %d rows, expected %d" % (len(out), len(rows)), "input": inp, "impl": len(out), "expected": len(rows)})
                continue
            fi = np.asarray(out.index, float)
            ks = [rec_k(f, n1, fs_eff) for f in fi]
            if ks != [r[0] for r in rows]:
                V.append({"key": dict(key, part="index"), "what": "PSD frequencies are not the sorted np.fft.fftfreq(n, 1/fs)", "input": inp, "impl": fi.tolist(),
                          "expected": [r[1] for r in rows]})
                continue
            vals = np.asarray(out.values[:, ci], float)
            P = np.abs(X) ** 2
            pmax = fin_max(P)
            mults = []
            for v, k in zip(vals, ks):
                p = P[k % n1]
                if p > 1e-6 * pmax and pmax > 0 and np.isfinite(p):
                    q = v * fs_eff * n1 / p
                    mults.append(1 if abs(q - 1) < TOL["m"] else 2 if abs(q - 2) < TOL["m"] else round(float(q), 6))
                else:
                    mults.append(None)
                    if res is not None:
                        res.count("psd_bin_without_power(mask not observable)")
            exp_m = [r[2] for r in rows]
            if any(m is not None and m != x_ for m, x_ in zip(mults, exp_m)):
                V.append({"key": dict(key, part="scale/doubling"), "what": "psd_k*fs*n/|X_k|^2 is not 1 (2 exactly on the strictly positive non-Nyquist frequencies of the one-sided form)",
                          "input": inp, "impl": mults, "expected": exp_m})
                continue
            if mm is not None and not nyq and not skip_model:
                m_k, m_m = [int(q) for q in mm[0].split()], [int(q) for q in mm[1].split()]
                if m_k != ks or any(m is not None and m != x_ for m, x_ in zip(mults, m_m)):
                    D.append({"op": "PSD multipliers vs model psd_mults", "input": inp, "impl": mults, "model": list(zip(m_k, m_m))})
            sc = pmax / (fs_eff * n1)
            if not all(close(v, r[3], sc) for v, r in zip(vals, rows)):
                V.append({"key": dict(key, part="values"), "what": "PSD values differ from |DFT|^2/(fs n)", "input": inp, "impl": vals.tolist(), "expected": [r[3] for r in rows]})
                continue
            ms = sum(v * v for v in y) / n1
            tot = float(np.sum(vals)) * fs_eff / n1
            if full:
                if not close(tot, ms, ms):
                    V.append({"key": dict(key, part="parseval"), "what": "sum(psd)*fs/n differs from the mean square of the n-point signal", "input": inp, "impl": tot, "expected": ms})
                elif ci == 0 and not skip_model:
                    q = float(np.sum(vals)) * fs_eff
                    if abs(q - m_ss) > 1e-6 * (1 + m_ss):
                        D.append({"op": "total power vs model sum of squares", "input": inp, "impl": q, "model": m_ss})
            else:
                # theorem C19_onesided_sum_odd / _even (recorded behaviour, checked as correspondence)
                want = ms - ((P[n1 // 2] / (fs_eff * n1)) * fs_eff / n1 if (n1 % 2 == 0 and not nyq) else 0.0)
                if skip_model:
                    pass
                elif not close(tot, want, ms):
                    D.append({"op": "one-sided total vs theorem onesided_sum", "input": inp, "impl": tot, "model": want})
                elif res is not None and n1 % 2 == 0 and not nyq and P[n1 // 2] > 1e-9:
                    res.count("even_n_onesided_drops_nyquist(recorded): one-sided total power = mean square - Nyquist term")
    return V, D


def single_cases(tier, seed):
    rng = random.Random(seed * 19 + 3)
    out = []
    for m in range(1, 8 if tier == "quick" else 9):
        ts = [2 * U * i for i in range(m)]
        lat = list(range(-1, 2 * m))
        eps = [(None, None)] if m >= 2 else []
        for a in lat:
            for b in lat:
                if a < b and any(a * U <= t <= b * U for t in ts):
                    eps.append((a * U, b * U))
        for (s, e) in eps:
            inside = [t for t in ts if (s is None or s <= t <= e)]
            ln = len(inside)
            for n in [None] + sorted(set([1, max(1, ln - 1), ln, ln + 1, ln + 3])):
                for fs in (None, 256.0, 1000.0, 7.5):
                    for full in (False, True):
                        for norm in (False, True):
                            out.append((m, s, e, n, fs, full, norm))
    if tier == "quick":
        edge = [c for c in out if c[0] <= 3 and c[6] is False]
        out = rng.sample(out, 5500) + rng.sample(edge, 500)
    cases = []
    for i, (m, s, e, n, fs, full, norm) in enumerate(out):
        r2 = random.Random(seed * 7 + i)
        ts = [2 * U * j for j in range(m)]
        ncol = 1 if i % 3 else 2
        cols = []
        for _ in range(ncol):
            col = [r2.randint(-9, 9) for _ in range(m)]
            if not any(col):
                col[0] = 3
            cols.append(col)
        if s is None:
            support = None if i % 2 else (ts[0] - U, ts[-1] + U)
            s1, e1 = (ts[0], ts[-1]) if support is None else support
            cases.append({"ts": ts, "cols": cols, "support": support, "ep": False, "s": s1, "e": e1, "n": n, "fs": fs, "full": full, "norm": norm})
        else:
            support = (min(ts[0], s) - U, max(ts[-1], e) + U) if (m == 1 or i % 2 == 0) else None
            cases.append({"ts": ts, "cols": cols, "support": support, "ep": True, "s": s, "e": e, "n": n, "fs": fs, "full": full, "norm": norm})
    return cases


def low_rate_cases():
    """sampling rates with fs/(2n) <= 1e-6 (one sample every 2^20 s): the regime where the pre-repair absolute 1e-6 guard of the one-sided mask failed
    (fixed finding; these inputs are now positive cases).
    Dyadic spacing and a support of length m*2^20 s so that the inferred rate is exactly 2^-20 Hz."""
    SP = (2 ** 20) * 10 ** 9
    out = []
    for m, col in ((3, [1, 2, 4]), (4, [3, 1, 4, 1]), (5, [2, 7, 1, 8, 2]), (8, [3, 1, 4, 1, 5, 9, 2, 6])):
        ts = [SP * j for j in range(m)]
        for fs in (2.0 ** -20, None):
            for full in (False, True):
                out.append({"ts": ts, "cols": [col], "support": (0, m * SP), "ep": False, "s": 0, "e": m * SP, "n": None, "fs": fs, "full": full, "norm": False})
    return out


def run_single(nap, res, cases, tag="single"):
    lines, offs = [], []
    for c in cases:
        l = model_lines_single(c)
        if not c["norm"]:
            x = [t for t in c["ts"] if c["s"] <= t <= c["e"]]
            n1 = len(x) if c["n"] is None else c["n"]
            l.append("mults\t%d\t%d" % (int(c["full"]), n1))
        offs.append((len(lines), len(l)))
        lines.extend(l)
    mo = C.run_model(lines, driver="driver_c19")
    for i, c in enumerate(cases):
        o, k = offs[i]
        x = [t for t in c["ts"] if c["s"] <= t <= c["e"]]
        n1 = len(x) if c["n"] is None else c["n"]
        rel = "n<len" if n1 < len(x) else "n==len" if n1 == len(x) else "n>len"
        res.case((tuple(c["ts"]), tuple(map(tuple, c["cols"])), c["support"], c["ep"], c["s"], c["e"], c["n"], c["fs"], c["full"], c["norm"]),
                 nontrivial=n1 >= 2)
        res.count(tag + ":" + rel)
        res.count(tag + ":parity=" + ("even" if n1 % 2 == 0 else "odd"))
        res.count(tag + ":fs=" + ("inferred" if c["fs"] is None else "given"))
        res.count(tag + ":" + ("TsdFrame" if len(c["cols"]) > 1 else "Tsd"))
        res.count(tag + ":" + ("epoch_cuts_signal" if len(x) < len(c["ts"]) else "whole_signal"))
        V, D = check_single(nap, c, mo[o:o + k], res)
        res.violations.extend(V)
        res.disagreements.extend(D)
        if i % 997 == 0:
            res.sample({k_: c[k_] for k_ in ("ts", "cols", "s", "e", "n", "fs", "full", "norm")})


# ------------------------------------------------------------------------------------------------
# _overlap_split and compute_mean_power_spectral_density
def check_split(S, ep, L, st, ov, mline, decimal=False):
    """kernel vs model vs statement; returns (violations, disagreements, ambiguous)"""
    V, D = [], []
    segs = oracle_segments(ep, L, st)
    f = mline.split("|")
    mz = [int(q) for q in f[0].split()]
    mseg = list(zip(mz[0::2], mz[1::2]))
    alloc = int(f[1])
    inp = {"ep": ep, "L": L, "st": st, "overlap": ov}
    if mseg != segs:
        D.append({"op": "overlap_split model vs statement", "input": inp, "model": mseg, "expected": segs})
    if len(segs) >= alloc:
        D.append({"op": "overlap_split exceeds alloc_rows (theorem overlap_split_bound)", "input": inp, "model": alloc, "expected": len(segs)})
    amb = decimal and any((e - s - L) % st == 0 and e - s - L >= 0 for s, e in ep)
    if len(segs) < alloc:     # the kernel writes without bounds checks: only call it when the rows fit
        got = S._overlap_split(G.arr([s for s, _ in ep]), G.arr([e for _, e in ep]), L / 1e9, float(ov))
        impl = [(C.to_ns(a), C.to_ns(b)) for a, b in got]
        if impl != segs:
            if amb:
                return V, D, True
            V.append({"key": {"op": "_overlap_split"}, "what": "segments are not the equal-length windows [s+j(1-ov)L, s+j(1-ov)L+L] strictly inside the epochs", "input": inp,
                      "impl": impl, "expected": segs})
    return V, D, False


def check_mean(nap, c, mline, res=None, closed=()):
    V, D, B = [], [], []      # violations, model disagreements, statement mismatches on non-uniform segments (correspondence only)
    ts, cols, ep, L, st, ov, full, unit = c["ts"], c["cols"], c["ep"], c["L"], c["st"], c["ov"], c["full"], c["unit"]
    inp = {k: c[k] for k in ("ts", "cols", "ep", "L", "st", "ov", "fs", "full", "unit", "support")}
    F = c.get("form")                 # widened argument forms (None = the plain form)
    sig = mk_sig(nap, ts, cols, c["support"]) if F is None else mk_sig_form(nap, c)
    fs_eff = float(c["fs"]) if c["fs"] is not None else float(sig.rate)
    kw = {}
    if c["fs"] is not None:
        kw["fs"] = float(c["fs"]) if F is None else mk_scalar(c["fs"], F.get("fsform", "float"))
    if c["ep_given"]:
        kw["ep"] = nap.IntervalSet(G.arr([s for s, _ in ep]), G.arr([e for _, e in ep])) if F is None else mk_ep_form(nap, ep, F.get("epform", "arrays"), F.get("g", 2 * U))
    isz = {"s": L / 1e9, "ms": L / 1e6, "us": L / 1e3}[unit]
    trig, lenient = {}, None
    if F is not None:
        inp["form"], inp["ep_given"] = F, c["ep_given"]
        trig = {k_: v_ for k_, v_ in triggers(sig, kw.get("fs"), 0).items() if k_ != "data_single_precision"}    # the windowed product is float64 for every data dtype
        if F.get("isform") == "np.float32" and unit != "s":
            q_ = np.float32(1e3 if unit == "ms" else 1e6)
            if float(np.float32(isz) / q_) != L / 1e9:
                trig["interval_size_float32_rescaled_inexactly"] = True      # the float32 scalar is divided by 1e3 / 1e6 in single precision
        lenient = F.get("lenient")
    try:
        if F is None:
            out = nap.compute_mean_power_spectral_density(sig, isz, overlap=float(ov), full_range=full, time_unit=unit, **kw)
        else:
            if F.get("hist") == "twice" and not closed:
                try:
                    call_mean(nap, sig, F, isz, ov, unit, full, kw)
                except Exception:
                    pass
            out = call_mean(nap, sig, F, isz, ov, unit, full, kw)
    except Exception as ex:
        out = None
        if res is not None and not closed:
            res.count(("mean:no_estimate_raised=" if F is None else "wide:mean:raised=") + type(ex).__name__)
        if lenient:
            if res is not None and not closed:
                res.count("wide:lenient:%s:mean_rejected=%s" % (lenient, type(ex).__name__))
            return V, D, B
    plan = None if mline == "none" else mline.split("|")
    for ci, col in enumerate(cols):
        exp = oracle_mean_psd(ts, col, ep, L, st, fs_eff, full, closed)
        key = dict({"op": "compute_mean_power_spectral_density", "full_range": full, "lattice": c.get("lattice", "dyadic")}, **trig)
        if ci == 0 and not closed:
            if (exp is None) != (plan is None):
                D.append({"op": "mean_plan model vs statement (existence)", "input": inp, "model": mline, "expected": None if exp is None else exp["N"]})
            elif exp is not None:
                mN = int(plan[0])
                q = [int(x_) for x_ in plan[1].split()]
                msl = list(zip(q[0::2], q[1::2]))
                if mN != exp["N"] or msl != exp["slices"]:
                    D.append({"op": "mean_plan model vs statement", "input": inp, "model": [mN, msl], "expected": [exp["N"], exp["slices"]]})
                # correspondence with the public slicing primitive the implementation uses
                isl = []
                for a, b in exp["segs"]:
                    sl = sig.get_slice(a / 1e9, b / 1e9)
                    isl.append((int(sl.start), int(sl.stop)))
                if isl != msl:
                    D.append({"op": "get_slice per segment vs model seg_slices", "input": inp, "impl": isl, "model": msl})
        if exp is None or out is None:
            if (exp is None) != (out is None):
                rec = {"key": dict(key, part="existence"), "what": "estimate %s although %s" % ("raised" if out is None else "returned", "segments with samples exist" if exp else "no segment fits / a segment is empty"),
                       "input": inp, "impl": None if out is None else len(out), "expected": None if exp is None else exp["N"]}
                (V if (exp is None or exp["uniform"]) else B).append(rec)
            continue
        bucket = V if exp["uniform"] else B
        rows = exp["rows"]
        if (not full) and exp["N"] % 2 == 0 and len(out) == len(rows) + 1:      # one-sided form keeping the Nyquist bin at +fs/2, not doubled
            rows = rows + [(exp["N"] // 2, fs_eff / 2, exp["nyquist"])]
        key = dict(key, regime="fs/(2n)<=1e-6" if fs_eff / (2 * exp["N"]) <= 1.0000001e-6 else "fs/(2n)>1e-6")
        if len(out) != len(rows):
            bucket.append({"key": dict(key, part="rows"), "op": "mean_psd", "what": "mean PSD has %d rows, expected %d (N=%d)" % (len(out), len(rows), exp["N"]), "input": inp,
                           "impl": len(out), "expected": len(rows)})
            continue
        fi = np.asarray(out.index, float)
        ks = [rec_k(f, exp["N"], fs_eff) for f in fi]
        if ks != [r[0] for r in rows]:
            bucket.append({"key": dict(key, part="index"), "op": "mean_psd", "what": "frequencies are not the sorted fftfreq(N, 1/fs)", "input": inp, "impl": fi.tolist(),
                           "expected": [r[1] for r in rows]})
            continue
        vals = np.asarray(out.values[:, ci], float)
        sc = fin_max([abs(r[2]) for r in rows])
        if not all(close(v, r[2], sc) for v, r in zip(vals, rows)):
            bucket.append({"key": dict(key, part="values"), "op": "mean_psd", "what": "values are not the average of the Hamming-windowed periodograms of the segments%s"
                           % ("" if full else " (one-sided: doubled on 0 < f < Nyquist)"), "input": inp, "impl": vals.tolist(), "expected": [r[2] for r in rows]})
    if trig:
        B = []          # correspondence-only comparison (unequal segments) is not made in an arithmetic regime outside the model (the statement oracle V stays)
    return V, D, B


def mean_cases(tier, seed):
    rng = random.Random(seed * 23 + 5)
    out = []
    W = 4 * U
    npts = 14 if tier == "quick" else 18
    pts = [i * U for i in range(0, 4 * npts + 1, 2)]          # epoch endpoints on the 2U lattice
    for L in (W, 2 * W, 3 * W):
        for ov in (0.0, 0.25, 0.5, 0.75):
            st = int(round((1 - ov) * L))
            assert st * 4 == int((1 - ov) * 4) * L
            eps = []
            for a in range(0, len(pts), 2):
                for b in range(a + 1, len(pts)):
                    eps.append([(pts[a], pts[b])])
            for _ in range(60 if tier == "quick" else 400):
                q = sorted(rng.sample(pts, 4))
                eps.append([(q[0], q[1]), (q[2], q[3])])
            for ep in eps:
                out.append((ep, L, st, ov))
    if tier == "quick":
        out = rng.sample(out, 3000)
    cases = []
    for i, (ep, L, st, ov) in enumerate(out):
        r2 = random.Random(seed * 11 + i)
        hi = max(e for _, e in ep)
        lo = min(s for s, _ in ep)
        step = r2.choice([U, U, 2 * U])
        ts = list(range(lo - (lo % step), hi + step, step))
        irregular = r2.random() < 0.25
        if irregular:
            ts = [t for t in ts if r2.random() < 0.8] or ts[:2]
        if len(ts) < 2:
            ts = [lo, hi]
        ncol = 1 if i % 4 else 2
        cols = [[r2.randint(-9, 9) for _ in ts] for _ in range(ncol)]
        support = (min(ts[0], lo) - U, max(ts[-1], hi) + U)
        fs = r2.choice([None, 512.0, 1000.0, 37.5])
        cases.append({"ts": ts, "cols": cols, "ep": ep, "L": L, "st": st, "ov": ov, "fs": fs, "full": bool(i % 2), "unit": ("s", "ms", "us")[i % 3],
                      "support": support, "ep_given": True, "irregular": irregular})
    # time support used as the epochs (ep=None)
    for i in range(0, len(cases), 7):
        c = dict(cases[i])
        if len(c["ep"]) == 1:
            c["ep_given"] = False
            c["support"] = c["ep"][0]
            c["ts"] = [t for t in c["ts"] if c["support"][0] <= t <= c["support"][1]]
            c["cols"] = [col[:len(c["ts"])] for col in c["cols"]]
            if len(c["ts"]) >= 2:
                cases.append(c)
    return cases


def low_rate_mean_cases():
    SP = (2 ** 20) * 10 ** 9
    ts = [SP * j for j in range(12)]
    col = [3, 1, 4, 1, 5, 9, 2, 6, 5, 3, 5, 8]
    return [{"ts": ts, "cols": [col], "ep": [(0, 12 * SP)], "L": 3 * SP + SP // 2, "st": 3 * SP + SP // 2, "ov": 0.0, "fs": 2.0 ** -20, "full": full, "unit": "s",
             "support": (0, 12 * SP), "ep_given": True, "irregular": False} for full in (False, True)]


def mean_cases_decimal(tier, seed):
    """the PUBLIC mean PSD on decimal sampling (0.1 s, 1 ms, 4 ms, 1/30000 s rounded to ns) with overlaps that are not dyadic fractions and interval
    sizes that are not multiples of the sampling step; epochs start on or between samples. Exact on ticks (the step (1-overlap)*L is a
    whole number of ns); only a segment ending exactly on the epoch end is decided by float rounding (float_ambiguous)."""
    rng = random.Random(seed * 31 + 11)
    cases = []
    want = 450 if tier == "quick" else 4500
    while len(cases) < want:
        dt = rng.choice([10 ** 8, 10 ** 6, 4 * 10 ** 6, 33333])
        n = rng.randint(12, 90)
        t0 = rng.choice([0, 0, 5 * dt, 1234 * dt])
        ts = [t0 + k * dt for k in range(n)]
        a, b = rng.choice([(0, 1), (1, 10), (3, 10), (7, 10), (9, 10), (1, 5), (2, 5), (1, 4), (1, 2), (3, 4), (1, 3), (2, 3), (19, 20)])
        L = rng.choice([3, 4, 5, 8, 10, 15]) * dt + rng.choice([0, 0, dt // 2, dt // 4, 1])
        if (L * (b - a)) % b:
            L -= L % b
        st = L * (b - a) // b
        if st <= 0 or L <= 0:
            continue
        m = rng.randint(1, 2)
        cuts = sorted(rng.sample(range(0, 2 * n + 2), 2 * m))
        half = rng.choice([0, dt // 2, dt // 2, 1])
        ep = [(t0 + cuts[2 * i] * dt // 2 - half, t0 + cuts[2 * i + 1] * dt // 2 + rng.choice([0, half, dt // 3])) for i in range(m)]
        if rng.random() < 0.25:     # an epoch whose length is exactly L + j*st: the last segment ends on the epoch end
            s0 = ep[0][0]
            ep = [(s0, s0 + L + rng.randint(0, 3) * st)] + [iv for iv in ep[1:] if iv[0] > s0 + L + 3 * st + dt]
        if not G.canonical(ep):
            continue
        irregular = rng.random() < 0.15
        if irregular:
            ts = [t for t in ts if rng.random() < 0.85] or ts[:2]
        i = len(cases)
        ncol = 1 if i % 4 else 2
        cols = [[rng.randint(-9, 9) for _ in ts] for _ in range(ncol)]
        lo, hi = min(ts[0], ep[0][0]), max(ts[-1], ep[-1][1])
        ep_given = rng.random() < 0.8
        if not ep_given:
            ep = ep[:1]
            ts2 = [t for t in ts if ep[0][0] <= t <= ep[0][1]]
            if len(ts2) < 2:
                continue
            cols = [[v for t, v in zip(ts, col) if ep[0][0] <= t <= ep[0][1]] for col in cols]
            ts = ts2
        cases.append({"ts": ts, "cols": cols, "ep": ep, "L": L, "st": st, "ov": a / b, "fs": rng.choice([None, 1e9 / dt, 1000.0]), "full": bool(i % 2), "unit": ("s", "ms", "us")[i % 3],
                      "support": ep[0] if not ep_given else (lo - dt, hi + dt), "ep_given": ep_given, "irregular": irregular, "lattice": "decimal"})
    return cases


def run_defaults_explicit(nap, res):
    """fs=None, ep=None, n=None are the documented defaults: passing them explicitly must give the result of the plain call"""
    ts = [2 * U * j for j in range(8)]
    sig = mk_sig(nap, ts, [[3, 1, 4, 1, 5, 9, 2, 6]], None)
    calls = [("compute_fft", lambda **kw: nap.compute_fft(sig, full_range=True, **kw), ("fs", "ep", "n")),
             ("compute_power_spectral_density", lambda **kw: nap.compute_power_spectral_density(sig, full_range=True, **kw), ("fs", "ep", "n")),
             ("compute_mean_power_spectral_density", lambda **kw: nap.compute_mean_power_spectral_density(sig, 8 * U / 1e9, full_range=True, **kw), ("fs", "ep"))]
    for op, f, params in calls:
        ref = f()
        for prm in params:
            res.evaluations += 1
            res.count("probe:explicit_default_none")
            inp = {"probe": "explicit_none", "op": op, "param": prm, "ts": ts}
            try:
                got = f(**{prm: None})
            except Exception as ex:
                res.violations.append({"key": {"op": op, "part": "raises", "explicit_none": prm, "exception": type(ex).__name__},
                                       "what": "%s(..., %s=None) raised %s: %s although None is the documented default of `%s`" % (op, prm, type(ex).__name__, str(ex)[:90], prm),
                                       "input": inp, "impl": repr(ex)[:200], "expected": "the result of the plain call"})
                continue
            if not (np.array_equal(got.index.values, ref.index.values) and np.array_equal(got.values, ref.values)):
                res.violations.append({"key": {"op": op, "part": "values", "explicit_none": prm}, "what": "result differs from the plain call", "input": inp,
                                       "impl": got.values.tolist(), "expected": ref.values.tolist()})


def run_many_epochs_single(nap, res):
    """compute_fft / compute_power_spectral_density are defined on ONE epoch (the statement: 'the samples inside the epoch'); what they do
    with several is recorded in the evidence (today: ValueError), not judged"""
    ts = [2 * U * j for j in range(8)]
    sig = mk_sig(nap, ts, [[3, 1, 4, 1, 5, 9, 2, 6]], None)
    ep = nap.IntervalSet(G.arr([0, 10 * U]), G.arr([5 * U, 14 * U]))
    for op, f in (("compute_fft", nap.compute_fft), ("compute_power_spectral_density", nap.compute_power_spectral_density)):
        res.evaluations += 1
        try:
            out = f(sig, ep=ep, full_range=True)
        except Exception as ex:
            res.count("single:many_epochs_rejected=" + type(ex).__name__)
            continue
        res.count("single:many_epochs_accepted(%d rows; recorded, the statement speaks of one epoch)" % len(out))


def run_mean(nap, S, res, tier, seed):
    cases = mean_cases(tier, seed) + low_rate_mean_cases() + mean_cases_decimal(tier, seed)
    lines = []
    for c in cases:
        lines.append("split\t%s\t%d\t%d" % (C.fmt_iset(c["ep"]), c["L"], c["st"]))
        lines.append("plan\t%s\t%s\t%d\t%d" % (C.fmt_ints(c["ts"]), C.fmt_iset(c["ep"]), c["L"], c["st"]))
    mo = C.run_model(lines, driver="driver_c19")
    seen = set()
    for i, c in enumerate(cases):
        segs = oracle_segments(c["ep"], c["L"], c["st"])
        res.case((tuple(c["ts"]), tuple(map(tuple, c["cols"])), tuple(c["ep"]), c["L"], c["st"], c["fs"], c["full"], c["unit"], c["ep_given"]), nontrivial=len(segs) >= 2)
        res.count("mean:segments=%s" % (len(segs) if len(segs) < 3 else "3+"))
        res.count("mean:overlap=%s" % c["ov"])
        res.count("mean:" + ("irregular_sampling" if c["irregular"] else "regular_sampling"))
        res.count("mean:epochs=%d" % len(c["ep"]))
        if any((e - s - c["L"]) % c["st"] == 0 and e - s - c["L"] >= 0 for s, e in c["ep"]):
            res.count("mean:segment_end_on_epoch_end")
        dec = c.get("lattice") == "decimal"
        on_end = any((e - s - c["L"]) % c["st"] == 0 and e - s - c["L"] >= 0 for s, e in c["ep"])
        if dec:
            res.count("mean:decimal_lattice(public API)")
            res.count("mean:decimal:overlap=%.4g" % c["ov"])
            if c["L"] % (c["ts"][1] - c["ts"][0]):
                res.count("mean:decimal:interval_size_not_multiple_of_step")
        sk = (tuple(c["ep"]), c["L"], c["st"])
        if sk not in seen:
            seen.add(sk)
            V, D, amb = check_split(S, c["ep"], c["L"], c["st"], c["ov"], mo[2 * i], decimal=dec)
            res.evaluations += 1
            res.violations.extend(V)
            res.disagreements.extend(D)
        V, D, B = check_mean(nap, c, mo[2 * i + 1], res)
        if (V or B) and dec and on_end:
            # decimal lattice and a segment ending exactly on an epoch end: `t + interval_size < end` is decided by rounding, epoch by epoch;
            # the result must then be the estimate WITH that segment in some of those epochs
            hit = [k for k, (s_, e_) in enumerate(c["ep"]) if (e_ - s_ - c["L"]) % c["st"] == 0 and e_ - s_ - c["L"] >= 0]
            for r_ in range(1, len(hit) + 1):
                for sub in itertools.combinations(hit, r_):
                    V2, _, B2 = check_mean(nap, c, mo[2 * i + 1], res, closed=sub)
                    if not V2 and not B2:
                        V, B = [], []
                        break
                if not V and not B:
                    res.float_ambiguous += 1
                    res.count("float_ambiguous:decimal segment end exactly on the epoch end")
                    break
        res.violations.extend(V)
        res.disagreements.extend(D + B)
        if i % 499 == 0:
            res.sample({k_: c[k_] for k_ in ("ep", "L", "st", "ov", "fs", "full", "unit")} | {"n_samples": len(c["ts"]), "segments": len(segs)})


def run_split_decimal(S, res, tier, seed):
    """_overlap_split on decimal lattices with non-dyadic overlaps: float accumulation; only a segment end equal to the epoch end may differ"""
    rng = random.Random(seed * 29 + 7)
    cs = []
    for _ in range(400 if tier == "quick" else 4000):
        ep = G.rand_canonical_iset(rng, 3, gaps=(10**6, 2 * 10**6, 5 * 10**6, 10**7, 3 * 10**7, 10**8))
        if not ep:
            continue
        L = rng.choice([10**6, 2 * 10**6, 5 * 10**6, 10**7])
        a, b = rng.choice([(0, 1), (1, 10), (1, 4), (1, 2), (3, 10), (9, 10), (1, 5), (3, 4)])
        if (L * (b - a)) % b:
            continue
        cs.append((ep, L, L * (b - a) // b, a / b))
    mo = C.run_model(["split\t%s\t%d\t%d" % (C.fmt_iset(ep), L, st) for ep, L, st, ov in cs], driver="driver_c19")
    for (ep, L, st, ov), ml in zip(cs, mo):
        res.case(("dec", tuple(ep), L, st), nontrivial=len(oracle_segments(ep, L, st)) >= 2)
        res.count("split:decimal")
        V, D, amb = check_split(S, ep, L, st, ov, ml, decimal=True)
        if amb:
            res.float_ambiguous += 1
        res.violations.extend(V)
        res.disagreements.extend(D)


# ================================================================================================
# WIDENED ARGUMENT FORMS (round 4): the same statement oracles, inputs given in every form the public signatures accept.
# A case is a plain case dict plus "form" = a JSON-friendly dict of strings / ints:
#   g        sampling step of the case in ticks (2U dyadic, 10^9 whole seconds, or the decimal step)
#   dtype    dtype of the data array                  tform / tunit   form and unit of the `t` argument of the constructor
#   cls      "Tsd" | "TsdFrame" (a 1-column TsdFrame when there is one column)      labels / meta   TsdFrame column labels, metadata
#   hist     how the object was obtained (None = constructor)                       call   how the public function is called
#   fsform / nform / isform / ovform   type of the scalar arguments                 epform form of the IntervalSet
#   unitpass "kw" | "default"   unitcase: the time_unit string in another letter case (lenient)
#   lenient  name of a form the documented signature does not promise to accept: a clean exception or the statement
SIGNED = ("int64", "int32", "int16", "int8")
UNSIGNED = ("uint8", "uint16", "uint32", "uint64")
LOWP = ("float32", "float16")
INT_T = ("int64", "int32", "int16", "uint64", "uint32", "uint16", "uint8")
_TMP = []


def _tmpdir():
    if not _TMP:
        import tempfile
        _TMP.append(tempfile.mkdtemp(prefix="c19_"))
    return _TMP[0]


def mk_scalar(v, form):
    if form in ("float", None):
        return float(v)
    if form == "int":
        return int(v)
    if form == "0d":
        return np.array(float(v))          # a 0-d array (lenient: not a numbers.Number)
    return getattr(np, form[3:])(v)       # "np.float32", "np.int64", ...


def scalar_forms(v, small_ints=True):
    """forms in which the number v can be written exactly"""
    out = ["float", "np.float64"]
    if float(np.float32(v)) == float(v):
        out.append("np.float32")
    if float(v) == int(v):
        out += ["int", "np.int64"]
        for nm in ("int32", "int16", "int8", "uint8", "uint16") if small_ints else ():
            ii = np.iinfo(nm)
            if ii.min <= int(v) <= ii.max:
                out.append("np." + nm)
    return out


def triggers(sig, fsv, n_eff):
    """the arithmetic regime of the call, named in the key of every violation of a widened case (one boolean per trigger)"""
    tr = {}
    if np.asarray(sig.values).dtype in (np.dtype("float32"), np.dtype("float16")):
        tr["data_single_precision"] = True           # NumPy >= 2 transforms float32 / float16 input in single precision
    if isinstance(fsv, (np.float32, np.float16)):
        tr["fs_single_precision"] = True             # a float32 scalar is not weak: 1/fs and fs*n are rounded to single precision
    if isinstance(fsv, np.integer) and n_eff and int(fsv) * int(n_eff) > np.iinfo(type(fsv)).max:
        tr["fs_times_n_overflows"] = True            # fs * n evaluated in the (small) integer dtype of fs
    return tr


def time_arg(nap, ticks, tform, unit):
    q = {"s": 10 ** 9, "ms": 10 ** 6, "us": 10 ** 3}[unit]
    if tform in INT_T:
        assert all(t % q == 0 for t in ticks), "integer time form on a non-integral lattice"
        return np.asarray([t // q for t in ticks], dtype=tform)
    a = np.asarray(ticks, dtype=np.float64) / float(q) if len(ticks) else np.array([], dtype=np.float64)
    if tform == "list":
        return a.tolist()
    if tform == "tuple":
        return tuple(a.tolist())
    if tform == "pd.Index":
        import pandas as pd
        return pd.Index(a)
    if tform == "float32":
        return a.astype(np.float32)
    if tform == "TsIndex":
        return nap.Ts(a, time_units=unit).index       # another object's TsIndex (seconds)
    if tform == "other.t":
        return nap.Ts(a, time_units=unit).t
    return a                                            # "ndarray", "series"


def time_forms(ticks, unit):
    """the forms of `t` in which these ticks can be written exactly"""
    q = {"s": 10 ** 9, "ms": 10 ** 6, "us": 10 ** 3}[unit]
    out = ["ndarray", "list", "tuple", "pd.Index", "series", "TsIndex", "other.t"]
    if len(ticks):
        a = np.asarray(ticks, dtype=np.float64) / float(q)
        if np.array_equal(a.astype(np.float32).astype(np.float64), a):
            out.append("float32")
        if all(t % q == 0 for t in ticks):
            v = [t // q for t in ticks]
            for nm in INT_T:
                ii = np.iinfo(nm)
                if ii.min <= min(v) and max(v) <= ii.max:
                    out.append(nm)
    return out


def mk_sig_form(nap, c):
    import pandas as pd
    F = c["form"]
    ts = list(c["ts"])
    cols = [list(col) for col in c["cols"]]
    support = tuple(c["support"]) if c.get("support") is not None else None
    g, hist, dtype = F.get("g", 2 * U), F.get("hist"), F.get("dtype", "float64")
    tform, unit = F.get("tform", "ndarray"), F.get("tunit", "s")
    frame = len(cols) > 1 or F.get("cls") == "TsdFrame"
    bts, bcols, bsupport, shift = ts, cols, support, 0
    if hist in ("restrict", "slice", "get"):
        # the object is cut out of a longer one: two more samples far before and after (never inside a window of the case)
        bts = [ts[0] - 65 * g, ts[0] - 64 * g] + ts + [ts[-1] + 64 * g, ts[-1] + 65 * g]
        bcols = [[1, 0] + col + [1, 1] for col in cols]
        bsupport = (ts[0] - 66 * g, ts[-1] + 66 * g)
        shift = 2
    if hist == "colview":
        # the object is one / every second column of a wider TsdFrame
        wide = []
        for col in bcols:
            wide += [col, [1] * len(col)]
        if len(cols) == 1:
            wide = [[0] * len(bts)] + wide
        bcols, frame0 = wide, True
    else:
        frame0 = frame
    add = 0
    if hist == "arith":
        lo = 0 if (dtype in UNSIGNED or dtype == "bool") else -120
        if all(np.isfinite(v) for col in bcols for v in col) and min(v for col in bcols for v in col) - 1 >= lo and dtype != "bool":
            add = 1
        bcols = [[v - add for v in col] for col in bcols]
    d = np.asarray(bcols, dtype=np.float64).T if bcols and len(bcols[0]) else np.zeros((0, len(bcols)))
    d = np.ascontiguousarray(d).astype(dtype)
    if not frame0:
        d = d[:, 0].copy()
    t = time_arg(nap, bts, tform, unit)
    if hist == "shared" and isinstance(t, np.ndarray) and t.dtype == np.float64 and d.dtype == np.float64:
        buf = np.zeros((len(bts), 1 + (d.shape[1] if d.ndim == 2 else 1)))
        buf[:, 0] = t
        buf[:, 1:] = d.reshape(len(bts), -1)
        t = buf[:, 0]                                  # time and data are views of ONE buffer (strided, sharing memory)
        d = buf[:, 1:] if d.ndim == 2 else buf[:, 1]
    if hist == "readonly":
        d.setflags(write=False)
        if isinstance(t, np.ndarray):
            t.setflags(write=False)
    kw = {}
    if unit != "s" and tform not in ("TsIndex", "other.t"):
        kw["time_units"] = unit
    if bsupport is not None:
        kw["time_support"] = nap.IntervalSet(G.arr([bsupport[0]]), G.arr([bsupport[1]]))
    if frame0:
        ncol = d.shape[1]
        lab = F.get("labels")
        labels = None if (lab is None or hist == "colview") else ([7, 3, 9, 1, 5][:ncol] if lab == "int" else ["b", "a", "d", "c", "e"][:ncol])
        if F.get("meta") and hist != "colview":
            kw["metadata"] = {"grp": list(range(ncol))}
        if tform == "series":
            df = pd.DataFrame(d, index=t, columns=labels)
            base = nap.TsdFrame(df, **kw)
        elif labels is not None:
            base = nap.TsdFrame(t, d, columns=labels, **kw)
        else:
            base = nap.TsdFrame(t, d, **kw)
    elif tform == "series":
        base = nap.Tsd(pd.Series(d, index=t), **kw)
    else:
        base = nap.Tsd(t, d, **kw)
    sig = base
    if hist == "restrict":
        lo_, hi_ = support if support is not None else (ts[0], ts[-1])
        sig = base.restrict(nap.IntervalSet(lo_ / 1e9, hi_ / 1e9))
    elif hist == "slice":
        sig = base[shift:shift + len(ts)]
    elif hist == "get":
        sig = base.get(ts[0] / 1e9, ts[-1] / 1e9)
    elif hist == "arith":
        sig = base + add
    elif hist == "numpy":
        sig = np.copy(base)
    elif hist == "ufunc":
        sig = np.multiply(base, 1)
    elif hist == "saveload":
        import os
        path = os.path.join(_tmpdir(), "sig.npz")
        base.save(path)
        sig = nap.load_file(path)
    elif hist == "colview":
        sig = base[:, 1] if len(cols) == 1 and not frame else (base[:, 1:2] if len(cols) == 1 else base[:, 0:2 * len(cols):2])
    assert len(sig) == len(ts) and isinstance(sig, (nap.Tsd, nap.TsdFrame)), "harness: the history did not produce the intended object"
    return sig


def mk_ep_form(nap, ep, form, g):
    import pandas as pd
    st, en = [s for s, _ in ep], [e for _, e in ep]
    fs_, fe_ = [s / 1e9 for s in st], [e / 1e9 for e in en]
    if form == "lists":
        return nap.IntervalSet(fs_, fe_)
    if form == "tuples":
        return nap.IntervalSet(tuple(fs_), tuple(fe_))
    if form == "scalars" and len(ep) == 1:
        return nap.IntervalSet(fs_[0], fe_[0])
    if form == "npscalars" and len(ep) == 1:
        return nap.IntervalSet(np.float64(fs_[0]), np.float64(fe_[0]))
    if form == "pairs" and ep:
        return nap.IntervalSet(np.array([[a, b] for a, b in zip(fs_, fe_)]))
    if form == "df":
        return nap.IntervalSet(pd.DataFrame({"start": fs_, "end": fe_}, dtype=float))
    if form == "series":
        return nap.IntervalSet(pd.Series(fs_, dtype=float), pd.Series(fe_, dtype=float))
    if form == "meta":
        return nap.IntervalSet(G.arr(st), G.arr(en), metadata={"lab": ["e%d" % i for i in range(len(ep))]})
    if form in ("ms", "us"):
        q = 1e6 if form == "ms" else 1e3
        return nap.IntervalSet(np.asarray(st, dtype=np.float64) / q, np.asarray(en, dtype=np.float64) / q, time_units=form)
    if form in ("int", "uint") and ep and all(v % 10 ** 9 == 0 for v in st + en) and (form == "int" or st[0] >= 0):
        dt_ = np.int64 if form == "int" else np.uint64
        return nap.IntervalSet(np.asarray([v // 10 ** 9 for v in st], dtype=dt_), np.asarray([v // 10 ** 9 for v in en], dtype=dt_))
    if form == "intms" and ep and all(v % 10 ** 6 == 0 for v in st + en):
        return nap.IntervalSet(np.asarray([v // 10 ** 6 for v in st], dtype=np.int64), np.asarray([v // 10 ** 6 for v in en], dtype=np.int64), time_units="ms")
    if form == "indexed" and ep:
        # the epochs are a selection out of a larger IntervalSet (one more interval far before)
        big = nap.IntervalSet(G.arr([st[0] - 200 * g] + st), G.arr([st[0] - 190 * g] + en))
        return big[1] if len(ep) == 1 else big[list(range(1, len(ep) + 1))]
    if form == "sliced" and ep:
        big = nap.IntervalSet(G.arr([st[0] - 200 * g] + st), G.arr([st[0] - 190 * g] + en))
        return big[1:]
    if form == "intersect" and ep:
        return nap.IntervalSet(G.arr(st), G.arr(en)).intersect(nap.IntervalSet(G.arr([st[0] - 100 * g]), G.arr([en[-1] + 100 * g])))
    if form == "union" and ep:
        out = nap.IntervalSet(G.arr(st[:1]), G.arr(en[:1]))
        for a, b in zip(st[1:], en[1:]):
            out = out.union(nap.IntervalSet(a / 1e9, b / 1e9))
        return out
    return nap.IntervalSet(G.arr(st), G.arr(en))       # "arrays"


def ep_forms(ep, one):
    out = ["arrays", "lists", "tuples", "pairs", "df", "series", "meta", "ms", "us", "indexed", "sliced", "intersect", "union"]
    if one:
        out += ["scalars", "npscalars"]
    vals = [v for iv in ep for v in iv]
    if vals and all(v % 10 ** 9 == 0 for v in vals):
        out += ["int"] + (["uint"] if min(vals) >= 0 else [])
    if vals and all(v % 10 ** 6 == 0 for v in vals):
        out += ["intms"]
    return out


def call_single(nap, op, sig, F, kw, full, norm):
    f = nap.compute_fft if op == "fft" else nap.compute_power_spectral_density
    names = ["fs", "ep", "full_range"] + (["norm"] if op == "fft" else []) + ["n"]
    vals = {"fs": kw.get("fs"), "ep": kw.get("ep"), "full_range": full, "norm": norm, "n": kw.get("n")}
    style = F.get("call", "kw")
    if style == "pos":                                   # every parameter by position (None where the plain call omits it)
        return f(sig, *[vals[k] for k in names])
    if style == "pos2":                                  # the first two by position, the rest by keyword
        return f(sig, vals["fs"], **{k: vals[k] for k in names[1:] if vals[k] is not None})
    k2 = {k: vals[k] for k in names if vals[k] is not None}
    if style == "allkw":                                 # every parameter by keyword, `sig` too, in reverse order
        k2 = dict(reversed(list(k2.items())))
        k2["sig"] = sig
        return f(**k2)
    if style == "defaults":                              # every optional parameter that is at its default is left out
        if full is False:
            k2.pop("full_range")
        if norm is False:
            k2.pop("norm", None)
        return f(sig, **k2)
    if style == "none":                                  # None (the documented default) written out
        for k in ("fs", "ep", "n"):
            k2.setdefault(k, None)
        return f(sig, **k2)
    return f(sig, **k2)


def call_mean(nap, sig, F, isz, ov, unit, full, kw):
    f = nap.compute_mean_power_spectral_density
    isz = mk_scalar(isz, F.get("isform", "float"))
    ovf = F.get("ovform", "float")
    ovv = int(ov) if ovf == "int" else mk_scalar(ov, ovf)
    ustr = F.get("unitcase") or unit
    style = F.get("call", "kw")
    vals = {"fs": kw.get("fs"), "overlap": ovv, "ep": kw.get("ep"), "full_range": full, "time_unit": ustr}
    names = ["fs", "overlap", "ep", "full_range", "time_unit"]
    if style == "pos":
        return f(sig, isz, *[vals[k] for k in names])
    if style == "pos2":
        return f(sig, isz, vals["fs"], vals["overlap"], **{k: vals[k] for k in names[2:] if vals[k] is not None})
    k2 = {k: vals[k] for k in names if vals[k] is not None}
    if style == "allkw":
        k2 = dict(reversed(list(k2.items())))
        k2["interval_size"] = isz
        k2["sig"] = sig
        return f(**k2)
    if style == "defaults":
        if ov == 0.25 and ovf == "float":
            k2.pop("overlap")
        if full is False:
            k2.pop("full_range")
        if ustr == "s":
            k2.pop("time_unit")
        return f(sig, isz, **k2)
    if style == "none":
        for k in ("fs", "ep"):
            k2.setdefault(k, None)
        return f(sig, isz, **k2)
    return f(sig, isz, **k2)


def rand_col(r, m, dtype, kind):
    lo, hi = (0, 1) if dtype == "bool" else (0, 18) if dtype in UNSIGNED else (-9, 9)
    if kind == "zeros":
        return [0] * m
    if kind == "constant":
        v = r.randint(max(lo, 1), hi)
        return [v] * m
    col = [r.randint(lo, hi) for _ in range(m)]
    if not any(col) and m:
        col[0] = 1
    return col


WIDE_RULE = ("WIDENED ARGUMENT FORMS (seeded random product, same oracles; counters wide:*): "
             "[data dtype] float64/float32/float16, int8..int64, uint8..uint64, bool; all-zero and constant columns; NaN, +inf, -inf samples (and +inf/-inf in one row of a TsdFrame) outside the "
             "epoch (must not matter) and inside it (exactly the bins of that column are non-finite). "
             "[time / scalar forms] `t` as ndarray, list, tuple, pandas Index, pandas Series/DataFrame index, another object's TsIndex, its .t, float32, signed/unsigned integer arrays (whole-second lattice); "
             "fs as Python float/int, np.float64/float32, np.int64/int32/int16/int8/uint8/uint16; interval_size as float/int/np.float32/np.int64; overlap as float/np.float64; "
             "IntervalSet from arrays, lists, tuples, scalars, numpy scalars, array of pairs, DataFrame, Series, integer/unsigned arrays, with metadata, time_units ms/us, or obtained by indexing/slicing/intersect/union. "
             "[call] every parameter by keyword, by position (None where omitted), mixed, all keywords incl. sig in reverse order, defaults left out (full_range, norm, overlap=0.25, time_unit), None written out; flags combined at random. "
             "[units] the signal built with time_units s/ms/us, the IntervalSet too, interval_size in s/ms/us: the same instants. "
             "[placement] signals starting at 0, straddling 0, entirely negative, at +1e5 s (dyadic lattice); decimal lattices from negative origins. "
             "[degenerate] duplicate timestamps, all timestamps equal (explicit support), one sample, an epoch without samples (n given: the zero signal; n None: lenient), an empty series (ep and n given), "
             "an empty IntervalSet, 1-3 epochs; classes other than Tsd/TsdFrame are recorded. "
             "[classes] Tsd, TsdFrame with 1/2/3 columns, string / unsorted integer column labels, metadata. "
             "[histories] the signal obtained by restrict, slice, get, arithmetic, np.copy, a ufunc, save+load, a column (view) of a wider frame, time and data sharing one buffer, read-only arrays, "
             "the same live objects used by all operations before the judged call. "
             "lenient (a clean exception or the statement): n as a numpy integer, overlap as Python int / np.float32, time_unit in another letter case, an epoch without samples with n=None. "
             "Model comparison is skipped (statement oracle kept) for single-precision data / fs, wrapped integer fs*n and non-finite samples inside the epoch")


DTYPES = ["float64"] * 4 + ["float32", "float32", "float16", "int64", "int64", "int32", "int16", "int8", "uint8", "uint16", "uint32", "uint64", "bool"]
HISTS = [None] * 6 + ["restrict", "slice", "get", "arith", "numpy", "ufunc", "saveload", "twice", "shared", "readonly", "colview"]
CALLS = ["kw", "kw", "pos", "pos2", "allkw", "defaults", "none"]


def pick_form(r, ticks, g, ncol, allow_cut=True):
    """random argument forms for a signal on `ticks` (all choices derive from r)"""
    F = {"g": g}
    F["dtype"] = r.choice(DTYPES)
    unit = r.choice(["s", "s", "s", "ms", "us"])
    forms = time_forms(ticks, unit)
    tform = r.choice(forms) if r.random() < 0.6 else "ndarray"
    ints = [x for x in forms if x in INT_T]
    if ints and r.random() < 0.5:
        tform = r.choice(ints)
    if tform in ("TsIndex", "other.t"):
        pass                        # the unit is consumed by the object the index is taken from
    F["tform"], F["tunit"] = tform, unit
    hist = r.choice(HISTS)
    if hist in ("restrict", "slice", "get") and (not allow_cut or not ticks or len(set(ticks)) < len(ticks)):
        hist = "numpy"
    if hist in ("restrict", "slice", "get"):
        # the longer object must be expressible in the same time form
        big = [ticks[0] - 65 * g, ticks[0] - 64 * g] + list(ticks) + [ticks[-1] + 64 * g, ticks[-1] + 65 * g]
        if tform not in time_forms(big, unit):
            F["tform"] = "ndarray"
    if hist == "saveload" and F["dtype"] == "float16":
        hist = "numpy"
    F["hist"] = hist
    if ncol > 1 or r.random() < 0.25:
        F["cls"] = "TsdFrame"
        F["labels"] = r.choice([None, None, "str", "int"])
        F["meta"] = r.random() < 0.3
    else:
        F["cls"] = "Tsd"
    F["call"] = r.choice(CALLS)
    return F


def count_form(res, tag, F, c):
    for k in ("dtype", "tform", "tunit", "hist", "cls", "call", "fsform", "nform", "epform", "isform", "ovform", "labels", "lenient", "unitcase"):
        if k in F and not (k == "labels" and F.get("cls") != "TsdFrame"):
            res.count("%s:%s=%s" % (tag, k, F[k]))
    if F.get("meta"):
        res.count(tag + ":TsdFrame_with_metadata")
    t0 = c["ts"][0] if c["ts"] else 0
    t1 = c["ts"][-1] if c["ts"] else 0
    res.count(tag + ":placement=" + ("offset_1e5s" if t0 >= 10 ** 13 else "all_negative" if t1 < 0 else "straddles_0" if t0 < 0 else "from_0"))
    kinds = set()
    for col in c["cols"]:
        if any(not np.isfinite(v) for v in col):
            kinds.add("nonfinite")
        elif col and not any(col):
            kinds.add("zeros")
        elif col and len(set(col)) == 1:
            kinds.add("constant")
    for k in kinds:
        res.count(tag + ":data=" + k)


def wide_single_cases(tier, seed):
    rng = random.Random(seed * 41 + 13)
    want = 2000 if tier == "quick" else 20000
    cases = []
    while len(cases) < want:
        i = len(cases)
        r = random.Random(seed * 43 + 17 * i + rng.randrange(10 ** 9))
        g = r.choice([2 * U, 2 * U, 2 * U, 10 ** 9])
        h = g // 2
        m = r.randint(1, 9)
        shape = r.random()
        if shape < 0.10 and m >= 2:          # duplicate timestamps
            idx = sorted(r.randrange(max(1, m - 1)) for _ in range(m))
            if len(set(idx)) < 2:
                idx[-1] = idx[0] + 1
        elif shape < 0.13:                   # every timestamp equal (explicit support below)
            idx = [0] * m
        else:
            idx = list(range(m))
        off = r.choice([0, 0, 0, -3, -1000, 10 ** 14 // g])
        ts = [g * (j + off) for j in idx]
        lo_l, hi_l = 2 * (idx[0] + off) - 1, 2 * (idx[-1] + off) + 2
        ncol = r.choice([1, 1, 2, 3])
        epk = r.random()
        lenient = None
        if epk < 0.25:
            s = e = None
        else:
            for _ in range(50):
                a, b = sorted((r.randint(lo_l, hi_l), r.randint(lo_l, hi_l)))
                if a < b and (any(a * h <= t <= b * h for t in ts)):
                    break
            else:
                a, b = lo_l, hi_l
            s, e = a * h, b * h
        zero_inside = False
        if epk >= 0.25 and r.random() < 0.04:       # an epoch that holds no sample (beyond the last one)
            s, e = ts[-1] + 3 * h, ts[-1] + 7 * h
            zero_inside = True
        inside = [t for t in ts if (s is None or s <= t <= e)]
        ln = len(inside)
        n = r.choice([None, None, 1, max(1, ln - 1), max(1, ln), ln + 1, ln + 3])
        if zero_inside and n is None:
            lenient = "epoch_without_samples_and_n_None"
        fs = r.choice([None, 256.0, 1000.0, 7.5, 100.0, 30000.0])
        full, norm = r.random() < 0.5, r.random() < 0.4
        F = pick_form(r, ts, g, ncol)
        distinct = len(set(ts))
        need_support = distinct < 2
        if s is None:
            support = (ts[0] - h, ts[-1] + h) if (need_support or r.random() < 0.5) else None
        else:
            support = (min(ts[0], s) - h, max(ts[-1], e) + h) if (need_support or r.random() < 0.5) else None
        if F["hist"] in ("slice", "get"):
            support = (ts[0] - 66 * g, ts[-1] + 66 * g)       # a slice keeps the time support of the longer object
        if F["hist"] == "restrict" and support is not None:
            support = (max(support[0], ts[0] - 60 * g), min(support[1], ts[-1] + 60 * g))
        if s is None:
            s1, e1 = (ts[0], ts[-1]) if support is None else support
            ep = False
        else:
            s1, e1, ep = s, e, True
            F["epform"] = r.choice(ep_forms([(s, e)], True))
        kind = [r.choice(["random"] * 8 + ["zeros", "constant"]) for _ in range(ncol)]
        cols = [rand_col(r, len(ts), F["dtype"], k) for k in kind]
        # NaN / +inf / -inf samples (float data): outside the epoch they must not matter, inside every bin of that column is non-finite
        if F["dtype"] in ("float64", "float32") and r.random() < 0.12:
            rows = [j for j, t in enumerate(ts) if not (s1 <= t <= e1)] if r.random() < 0.6 else list(range(len(ts)))
            if rows:
                j = r.choice(rows)
                what = r.choice(["nan", "inf", "-inf", "inf-inf"])
                if what == "inf-inf" and ncol >= 2:      # +inf and -inf in one row (the row sum is NaN)
                    cols[0][j], cols[1][j] = float("inf"), float("-inf")
                else:
                    cols[r.randrange(ncol)][j] = float({"inf-inf": "inf"}.get(what, what))
                if F["hist"] == "arith":
                    F["hist"] = "ufunc"
        if fs is not None:
            F["fsform"] = r.choice(scalar_forms(fs))
        if n is not None and r.random() < 0.04:
            F["nform"] = r.choice(["np.int64", "np.int32"])
            lenient = "n_numpy_integer"
        elif fs is not None and lenient is None and r.random() < 0.02:
            F["fsform"], lenient = "0d", "fs_0d_array"
        if lenient:
            F["lenient"] = lenient
        cases.append({"ts": ts, "cols": cols, "support": support, "ep": ep, "s": s1, "e": e1, "n": n, "fs": fs, "full": full, "norm": norm, "form": F})
    return cases


def classify_single_precision(V, rerun):
    """a violation of a case computed in single precision is labelled (not excused): within_single_precision = the whole case passes the
    same oracle at the float32 tolerances (per operation)"""
    if not V or not any(v["key"].get("data_single_precision") or v["key"].get("fs_single_precision") for v in V):
        return
    saved = dict(TOL)
    TOL.update(TOL_SINGLE)
    try:
        V2 = rerun()
    finally:
        TOL.update(saved)
    bad_ops = {v2["key"].get("op") for v2 in V2}
    for v in V:
        if v["key"].get("data_single_precision") or v["key"].get("fs_single_precision"):
            v["key"]["within_single_precision"] = v["key"].get("op") not in bad_ops


def run_single_wide(nap, res, cases, tag="wide:single"):
    lines, offs = [], []
    for c in cases:
        l = model_lines_single(c)
        if not c["norm"]:
            x = [t for t in c["ts"] if c["s"] <= t <= c["e"]]
            n1 = len(x) if c["n"] is None else c["n"]
            l.append("mults\t%d\t%d" % (int(c["full"]), n1))
        offs.append((len(lines), len(l)))
        lines.extend(l)
    mo = C.run_model(lines, driver="driver_c19")
    for i, c in enumerate(cases):
        o, k = offs[i]
        F = c["form"]
        x = [t for t in c["ts"] if c["s"] <= t <= c["e"]]
        n1 = len(x) if c["n"] is None else c["n"]
        res.case((tuple(c["ts"]), repr(c["cols"]), c["support"], c["ep"], c["s"], c["e"], c["n"], c["fs"], c["full"], c["norm"], repr(sorted(F.items()))), nontrivial=n1 >= 2)
        rel = "n<len" if n1 < len(x) else "n==len" if n1 == len(x) else "n>len"
        res.count(tag + ":" + rel)
        res.count(tag + ":ep=" + ("given" if c["ep"] else "None(time support)"))
        res.count(tag + ":fs=" + ("inferred" if c["fs"] is None else "given"))
        res.count(tag + ":columns=%d" % len(c["cols"]))
        if len(set(c["ts"])) < len(c["ts"]):
            res.count(tag + ":timestamps=" + ("all_equal" if len(set(c["ts"])) == 1 else "duplicates"))
        if not x:
            res.count(tag + ":epoch_without_samples")
        if F["g"] == 10 ** 9:
            res.count(tag + ":whole_second_lattice")
        count_form(res, tag, F, c)
        V, D = check_single(nap, c, mo[o:o + k], res)
        classify_single_precision(V, lambda: check_single(nap, c, mo[o:o + k], None)[0])
        res.violations.extend(V)
        res.disagreements.extend(D)
        if i % 577 == 0:
            res.sample({k_: c[k_] for k_ in ("ts", "cols", "s", "e", "n", "fs", "full", "norm", "form")}, limit=9)


def _wide_dyadic_mean(r, i):
    W = 4 * U
    L = r.choice([W, 2 * W, 3 * W])
    ov = r.choice([0.0, 0.25, 0.25, 0.25, 0.5, 0.75])
    if ov in (0.0, 0.5) and r.random() < 0.2:
        L = 2 * U                       # segments of one to three samples
    st = int(round((1 - ov) * L))
    assert st * 4 == int((1 - ov) * 4) * L
    pts = [j * U for j in range(0, 57, 2)]
    k = r.choice([1, 1, 1, 2, 2, 3])
    q = sorted(r.sample(pts, 2 * k))
    off = r.choice([0, 0, -20 * U, -2000 * U, 10 ** 14])
    ep = [(q[2 * j] + off, q[2 * j + 1] + off) for j in range(k)]
    lo, hi = ep[0][0], ep[-1][1]
    step = r.choice([U, U, 2 * U])
    ts = list(range(lo - (lo % step), hi + step, step))
    irregular = r.random() < 0.15
    if irregular:
        ts = [t for t in ts if r.random() < 0.8] or ts[:2]
    if len(ts) < 2:
        ts = [lo, hi]
    return {"ts": ts, "ep": ep, "L": L, "st": st, "ov": ov, "irregular": irregular, "g": step, "dt": step}


def _wide_decimal_mean(r, i):
    while True:
        dt = r.choice([10 ** 8, 10 ** 6, 4 * 10 ** 6, 33333])
        n = r.randint(12, 70)
        t0 = r.choice([0, 5 * dt, -7 * dt, -40 * dt, -1234 * dt, 1234 * dt])
        ts = [t0 + k * dt for k in range(n)]
        a, b = r.choice([(0, 1), (1, 10), (3, 10), (9, 10), (1, 5), (1, 4), (1, 4), (1, 4), (1, 2), (3, 4), (1, 3), (2, 3), (19, 20)])
        L = r.choice([3, 4, 5, 8, 10, 15]) * dt + r.choice([0, 0, dt // 2, dt // 4, 1])
        if (L * (b - a)) % b:
            L -= L % b
        st = L * (b - a) // b
        if st <= 0 or L <= 0:
            continue
        m = r.randint(1, 3)
        cuts = sorted(r.sample(range(0, 2 * n + 2), 2 * m))
        half = r.choice([0, dt // 2, dt // 2, 1])
        ep = [(t0 + cuts[2 * j] * dt // 2 - half, t0 + cuts[2 * j + 1] * dt // 2 + r.choice([0, half, dt // 3])) for j in range(m)]
        if not G.canonical(ep):
            continue
        irregular = r.random() < 0.1
        if irregular:
            ts = [t for t in ts if r.random() < 0.85] or ts[:2]
        return {"ts": ts, "ep": ep, "L": L, "st": st, "ov": a / b, "irregular": irregular, "g": dt, "dt": dt, "lattice": "decimal"}


def wide_mean_cases(tier, seed):
    rng = random.Random(seed * 47 + 19)
    want = 1000 if tier == "quick" else 10000
    cases = []
    while len(cases) < want:
        i = len(cases)
        r = random.Random(seed * 53 + 29 * i + rng.randrange(10 ** 9))
        c = _wide_dyadic_mean(r, i) if r.random() < 0.6 else _wide_decimal_mean(r, i)
        ts, ep, g = c["ts"], c["ep"], c.pop("g")
        ncol = r.choice([1, 1, 2, 3])
        ep_given = r.random() < 0.8
        F = pick_form(r, ts, g, ncol, allow_cut=ep_given)
        if not ep_given:
            ep = ep[:1]
            ts = [t for t in ts if ep[0][0] <= t <= ep[0][1]]
            if len(set(ts)) < 2:
                continue
            if F["tform"] not in time_forms(ts, F["tunit"]):
                F["tform"] = "ndarray"
            c["ts"], c["ep"] = ts, ep
            support = ep[0]
        else:
            lo, hi = min(ts[0], ep[0][0]), max(ts[-1], ep[-1][1])
            support = (lo - c["dt"], hi + c["dt"])
            if F["hist"] in ("slice", "get"):
                support = (ts[0] - 66 * g, ts[-1] + 66 * g)
            elif F["hist"] == "restrict":
                support = (max(support[0], ts[0] - 60 * g), min(support[1], ts[-1] + 60 * g))
            if r.random() < 0.02:
                c["ep"] = ep = []          # an empty IntervalSet: no segment, no estimate
            F["epform"] = r.choice(ep_forms(ep, False)) if ep else "arrays"
        kind = [r.choice(["random"] * 8 + ["zeros", "constant"]) for _ in range(ncol)]
        cols = [rand_col(r, len(ts), F["dtype"], k) for k in kind]
        if F["dtype"] in ("float64", "float32") and r.random() < 0.10:
            j = r.randrange(len(ts))
            what = r.choice(["nan", "inf", "-inf", "inf-inf"])
            if what == "inf-inf" and ncol >= 2:
                cols[0][j], cols[1][j] = float("inf"), float("-inf")
            else:
                cols[r.randrange(ncol)][j] = float({"inf-inf": "inf"}.get(what, what))
            if F["hist"] == "arith":
                F["hist"] = "ufunc"
        dt = c["dt"]
        fs = r.choice([None, 1e9 / dt if (10 ** 9) % dt == 0 else 512.0, 1000.0, 37.5, 100.0])
        if fs is not None:
            F["fsform"] = r.choice(scalar_forms(fs))
        unit = r.choice(["s", "s", "ms", "us"])
        isz = {"s": c["L"] / 1e9, "ms": c["L"] / 1e6, "us": c["L"] / 1e3}[unit]
        F["isform"] = r.choice(scalar_forms(isz, small_ints=False))
        if float(mk_scalar(isz, F["isform"])) != isz:
            F["isform"] = "float"
        F["ovform"] = r.choice(["float", "float", "np.float64"])
        lenient = None
        z = r.random()
        if z < 0.02 and c["ov"] == 0.0:
            F["ovform"], lenient = "int", "overlap_python_int"
        elif z < 0.04:
            F["ovform"], lenient = "np.float32", "overlap_np_float32"
        elif z < 0.06:
            F["unitcase"], lenient = r.choice([unit.upper(), unit.capitalize()]), "time_unit_letter_case"
            if F["unitcase"] == unit:
                lenient = None
                F.pop("unitcase")
        elif z < 0.075:
            F["isform"], lenient = "0d", "interval_size_0d_array"
        elif z < 0.09 and fs is not None:
            F["fsform"], lenient = "0d", "fs_0d_array"
        if lenient:
            F["lenient"] = lenient
        c.update({"cols": cols, "fs": fs, "full": r.random() < 0.5, "unit": unit, "support": support, "ep_given": ep_given, "form": F})
        cases.append(c)
    return cases


def run_mean_wide(nap, S, res, tier, seed, tag="wide:mean"):
    cases = wide_mean_cases(tier, seed)
    lines = []
    for c in cases:
        lines.append("split\t%s\t%d\t%d" % (C.fmt_iset(c["ep"]), c["L"], c["st"]) if c["ep"] else "fftfreq\t1")
        lines.append("plan\t%s\t%s\t%d\t%d" % (C.fmt_ints(c["ts"]), C.fmt_iset(c["ep"]), c["L"], c["st"]))
    mo = C.run_model(lines, driver="driver_c19")
    for i, c in enumerate(cases):
        F = c["form"]
        segs = oracle_segments(c["ep"], c["L"], c["st"])
        res.case((tuple(c["ts"]), repr(c["cols"]), tuple(c["ep"]), c["L"], c["st"], c["fs"], c["full"], c["unit"], c["ep_given"], repr(sorted(F.items()))), nontrivial=len(segs) >= 2)
        res.count(tag + ":segments=%s" % (len(segs) if len(segs) < 3 else "3+"))
        res.count(tag + ":epochs=%s" % (len(c["ep"]) if c["ep_given"] else "None(time support)"))
        res.count(tag + ":lattice=" + c.get("lattice", "dyadic"))
        res.count(tag + ":overlap=%.4g" % c["ov"])
        res.count(tag + ":unit=" + c["unit"])
        res.count(tag + ":fs=" + ("inferred" if c["fs"] is None else "given"))
        res.count(tag + ":columns=%d" % len(c["cols"]))
        count_form(res, tag, F, c)
        dec = c.get("lattice") == "decimal"
        on_end = any((e - s - c["L"]) % c["st"] == 0 and e - s - c["L"] >= 0 for s, e in c["ep"])
        if c["ep"]:
            V, D, amb = check_split(S, c["ep"], c["L"], c["st"], c["ov"], mo[2 * i], decimal=dec)
            res.evaluations += 1
            res.violations.extend(V)
            res.disagreements.extend(D)
        V, D, B = check_mean(nap, c, mo[2 * i + 1], res)
        if (V or B) and dec and on_end:
            hit = [k for k, (s_, e_) in enumerate(c["ep"]) if (e_ - s_ - c["L"]) % c["st"] == 0 and e_ - s_ - c["L"] >= 0]
            for r_ in range(1, len(hit) + 1):
                for sub in itertools.combinations(hit, r_):
                    V2, _, B2 = check_mean(nap, c, mo[2 * i + 1], res, closed=sub)
                    if not V2 and not B2:
                        V, B = [], []
                        break
                if not V and not B:
                    res.float_ambiguous += 1
                    res.count("float_ambiguous:decimal segment end exactly on the epoch end")
                    break
        classify_single_precision(V, lambda: check_mean(nap, c, mo[2 * i + 1], None)[0])
        res.violations.extend(V)
        res.disagreements.extend(D + B)
        if i % 433 == 0:
            res.sample({k_: c[k_] for k_ in ("ep", "L", "st", "ov", "fs", "full", "unit", "form")} | {"n_samples": len(c["ts"]), "segments": len(segs)}, limit=12)


def run_degenerate_wide(nap, res):
    """receivers and arguments at the edge of the signatures. Determined by the statement: an EMPTY series with an epoch and n given is the n-point zero
    signal (judged). Not determined (recorded, a clean exception or nothing is required): an empty IntervalSet / an empty series without n for the
    single-epoch functions, classes other than Tsd / TsdFrame"""
    tag = "wide:degenerate"
    for cls in ("Tsd", "TsdFrame"):
        for n in (1, 2, 3, 4):
            for full in (False, True):
                for fsform in ("float", "int", "np.int64"):
                    for tunit in ("s", "ms", "us"):
                        c = {"ts": [], "cols": [[]] if cls == "Tsd" else [[], []], "support": None, "ep": True, "s": 0, "e": 8 * U, "n": n, "fs": 256.0, "full": full,
                             "norm": n % 2 == 0, "form": {"g": 2 * U, "cls": cls, "tunit": tunit, "fsform": fsform, "call": ("kw", "pos", "allkw")[n % 3], "epform": ("arrays", "scalars", "ms")[n % 3]}}
                        mo = C.run_model(model_lines_single(c) + (["mults\t%d\t%d" % (int(full), n)] if not c["norm"] else []), driver="driver_c19")
                        res.case(("empty", cls, n, full, fsform, tunit), nontrivial=False)
                        res.count(tag + ":empty_series(ep and n given: the n-point zero signal)")
                        V, D = check_single(nap, c, mo, res)
                        res.violations.extend(V)
                        res.disagreements.extend(D)
    import pandas as pd
    t = G.arr([2 * U * j for j in range(8)])
    d = np.array([3, 1, 4, 1, 5, 9, 2, 6.0])
    sig = nap.Tsd(t, d)
    empty = nap.IntervalSet([], [])
    others = [("Ts", nap.Ts(t)), ("TsdTensor", nap.TsdTensor(t, np.zeros((8, 2, 2)))), ("TsGroup", nap.TsGroup({0: nap.Ts(t)})), ("ndarray", d),
              ("pandas.Series", pd.Series(d, index=t)), ("IntervalSet", nap.IntervalSet(0, 1))]
    for op, f, extra in (("compute_fft", nap.compute_fft, ()), ("compute_power_spectral_density", nap.compute_power_spectral_density, ()),
                         ("compute_mean_power_spectral_density", nap.compute_mean_power_spectral_density, (8 * U / 1e9,))):
        for name, o in others:
            res.evaluations += 1
            try:
                f(o, *extra)
                res.count("%s:class_%s_accepted(recorded: the statement speaks of Tsd / TsdFrame)" % (tag, name))
            except Exception as ex:
                res.count("%s:class_%s_rejected=%s" % (tag, name, type(ex).__name__))
        res.evaluations += 1
        try:
            f(sig, *extra, ep=empty)
            res.count("%s:empty_IntervalSet_accepted(recorded)" % tag)
        except Exception as ex:
            res.count("%s:empty_IntervalSet_rejected=%s" % (tag, type(ex).__name__))


def run(res, tier, seed):
    nap, S = _nap()
    warnings.simplefilter("ignore")
    res.rule = ("PUBLIC compute_fft / compute_power_spectral_density: signals of 1..7(8) integer-valued samples on the dyadic lattice 2^-8 s, Tsd and 2-column TsdFrame, default and explicit "
                "time support, ep = None or EVERY window with endpoints on/between samples that keeps >= 1 sample, n in {None, 1, len-1, len, len+1, len+3} (even and odd), "
                "fs in {inferred, 256, 1000, 7.5}, full/one-sided, norm on/off [complete product in thorough, seeded subsample in quick]; oracle = direct O(n^2) DFT of the samples inside the epoch, "
                "sorted fftfreq, Parseval, doubling rule. PUBLIC compute_mean_power_spectral_density + kernel _overlap_split: every single epoch and random epoch pairs on a dyadic lattice x "
                "interval_size in {1,2,3}*2^-7 s x overlap in {0,.25,.5,.75} x sampling step x regular/irregular sampling x 3 time units x fs given/inferred x full/one-sided; "
                "+ PUBLIC compute_mean_power_spectral_density on DECIMAL sampling (0.1 s, 1 ms, 4 ms, 33333 ns) with overlaps {0,.1,.2,.25,.3,1/3,.4,.5,2/3,.7,.75,.9,.95}, interval sizes that are not multiples of "
                "the sampling step, 1-2 epochs starting on/between samples, ep given or the time support, forced segment ends on the epoch end; oracle = independent "
                "recomputation (segments strictly inside, Hamming formula, direct DFT, average). + probes: fs=None / ep=None / n=None (the documented defaults) passed explicitly to the three functions. "
                "non-trivial = n >= 2 points / >= 2 segments; distinct = distinct full inputs. "
                + WIDE_RULE)
    # thorough enumerates the complete structural product (lengths, windows, n, fs, flags; epochs, L, overlap); the integer data values and the
    # irregular-sampling patterns are seeded random, so the space is not declared exhaustive
    res.exhaustive = False
    res.extra["structure_enumerated_completely"] = tier == "thorough"
    run_single(nap, res, single_cases(tier, seed))
    run_single(nap, res, low_rate_cases(), tag="low_rate")
    run_mean(nap, S, res, tier, seed)
    run_split_decimal(S, res, tier, seed)
    run_defaults_explicit(nap, res)
    run_many_epochs_single(nap, res)
    # widened argument forms (same oracles)
    run_single_wide(nap, res, wide_single_cases(tier, seed))
    run_mean_wide(nap, S, res, tier, seed)
    run_degenerate_wide(nap, res)
    # float32 / float16 SAMPLES: NumPy >= 2 transforms them in single precision, so the estimate equals the DFT of the samples to the precision of
    # the samples; a case whose only deviation lies within float32 tolerances of the exact DFT is counted, not reported (the statement does not
    # promise a double-precision transform of single-precision data). fs / interval_size given as narrow NumPy scalars with float64 samples are NOT
    # covered by this rule (those were genuine defects, repaired in d2890ba).
    keep = []
    for v in res.violations:
        k = v.get("key", {})
        if k.get("data_single_precision") and k.get("within_single_precision"):
            res.count("single_precision_samples:deviation_within_float32_tolerance")
        else:
            keep.append(v)
    res.violations[:] = keep


def search(res, seed):
    r2 = C.Result()
    run(r2, "thorough", seed)
    return r2.violations[0] if r2.violations else None


def replay(payload):
    nap, S = _nap()
    warnings.simplefilter("ignore")
    v = payload.get("violation") or (payload.get("disagreements") or [{}])[0]
    inp = v.get("input", {})
    print("input", inp)
    if inp.get("probe") == "explicit_none":
        r2 = C.Result()
        run_defaults_explicit(nap, r2)
        V = [x for x in r2.violations if x["key"]["op"] == inp["op"] and x["key"]["explicit_none"] == inp["param"]]
        D = []
    elif "norm" in inp:
        c = dict(inp)
        c["support"] = tuple(c["support"]) if c.get("support") else None
        lines = model_lines_single(c)
        if "form" in c and not c["norm"]:
            lines.append("mults\t%d\t%d" % (int(c["full"]), c["n"] if c["n"] is not None else sum(1 for t in c["ts"] if c["s"] <= t <= c["e"])))
        mo = C.run_model(lines, driver="driver_c19")
        V, D = check_single(nap, c, mo)
        classify_single_precision(V, lambda: check_single(nap, c, mo)[0])
    elif "ts" in inp:
        c = dict(inp)
        c["ep"] = [tuple(x) for x in c["ep"]]
        c["support"] = tuple(c["support"]) if c.get("support") else None
        c["ep_given"] = inp["ep_given"] if "ep_given" in inp else (c["support"] is None or tuple(c["support"]) != tuple(c["ep"][0]) or len(c["ep"]) > 1)
        mo = C.run_model(["plan\t%s\t%s\t%d\t%d" % (C.fmt_ints(c["ts"]), C.fmt_iset(c["ep"]), c["L"], c["st"])], driver="driver_c19")
        V, D, B = check_mean(nap, c, mo[0])
        classify_single_precision(V, lambda: check_mean(nap, c, mo[0])[0])
        D = D + B
    else:
        ep = [tuple(x) for x in inp.get("ep", [])]
        mo = C.run_model(["split\t%s\t%d\t%d" % (C.fmt_iset(ep), inp["L"], inp["st"])], driver="driver_c19")
        V, D, _ = check_split(S, ep, inp["L"], inp["st"], inp["overlap"], mo[0])
    for x in V:
        print("VIOLATION", x["key"], x["what"], "\n  impl    ", x.get("impl"), "\n  expected", x.get("expected"))
    for x in D:
        print("DISAGREEMENT", x.get("op"), x.get("impl"), x.get("model"))
    if not V and not D:
        print("property holds on this input")
    return 1 if (V or D) else 0
