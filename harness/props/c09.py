"""C09 seconds, milliseconds and microseconds denote the same instants everywhere."""
import os
import random
import re
import subprocess
import warnings

import numpy as np
import pandas as pd

import common as C
import gen as G

LEVEL = "proof"
DRIVERS = []
TRUSTED = ["translator tools/gen_sites.py -> coq/Gen/Sites.v (unit call-site table, config-flag table), regenerated from /repo on every run; checks in coq/Proofs/SitesChecks.v",
           "bit-level PrimFloat model coq/Model/FloatTime.v of format_timestamps/return_timestamps, compared bit-exactly with the implementation on every run",
           "Coq's primitive-float specification (FloatAxioms) and Flocq for the lattice theorem (Proofs/FloatTimeProofs.v) when present"]
ASSUMPTIONS = ["instants on the microsecond lattice within +/-1e5 s, given in each unit as the nearest double",
               "output conversions are compared with stored seconds x factor to within 1 ns (the resolution of stored times; sums of durations carry float error of ~1e-11 s): a wrong factor is off by 1e3",
               "the call-site table is syntactic (which arguments meet the unit variable); behaviour is decided by the equivariance sweep of every entry point"]

UNITS = [("s", 1e6), ("ms", 1e3), ("us", 1.0)]


def _nap():
    import pynapple as nap
    return nap


def canon(o):
    """canonical, exactly comparable form of a result"""
    nap = _nap()
    if isinstance(o, nap.IntervalSet):
        return ("IntervalSet", np.asarray(o.values).tobytes())
    if isinstance(o, nap.TsGroup):
        return ("TsGroup", tuple((int(k), canon(o[k])) for k in o.keys()), canon(o.time_support))
    if isinstance(o, (nap.Ts, nap.Tsd, nap.TsdFrame, nap.TsdTensor)):
        v = np.asarray(o.values).tobytes() if hasattr(o, "values") else b""
        cols = tuple(map(str, o.columns)) if hasattr(o, "columns") else ()
        return (type(o).__name__, np.asarray(o.t).tobytes(), v, cols, canon(o.time_support))
    if isinstance(o, pd.DataFrame):
        return ("DataFrame", np.asarray(o.values, dtype=float).tobytes(), np.asarray(o.index, dtype=float).tobytes(), tuple(map(str, o.columns)))
    if isinstance(o, np.ndarray):
        return ("ndarray", o.shape, np.asarray(o, dtype=float).tobytes())
    if isinstance(o, (tuple, list)):
        return tuple(canon(x) for x in o)
    if isinstance(o, slice):
        return ("slice", o.start, o.stop, o.step)
    if isinstance(o, (float, np.floating)):
        return ("float", np.float64(o).tobytes())
    return ("other", repr(o))


def entry_points(nap):
    """name -> f(cv, u, data): cv converts an integer number of MICROSECONDS into the unit u"""
    E = {}
    E["Ts"] = lambda cv, u, d: nap.Ts(cv(d["t"]), time_units=u)
    E["Ts_unsorted"] = lambda cv, u, d: nap.Ts(cv(d["t"][::-1]), time_units=u)
    E["Tsd"] = lambda cv, u, d: nap.Tsd(cv(d["t"]), d["v"], time_units=u)
    E["TsdFrame"] = lambda cv, u, d: nap.TsdFrame(cv(d["t"]), d["v2"], time_units=u)
    E["TsdTensor"] = lambda cv, u, d: nap.TsdTensor(cv(d["t"]), d["v3"], time_units=u)
    E["Ts_support"] = lambda cv, u, d: nap.Ts(cv(d["t"]), time_units=u, time_support=d["ep"])
    E["Tsd_support"] = lambda cv, u, d: nap.Tsd(cv(d["t"]), d["v"], time_units=u, time_support=d["ep"])
    E["TsdFrame_support"] = lambda cv, u, d: nap.TsdFrame(cv(d["t"]), d["v2"], time_units=u, time_support=d["ep"])
    E["TsdTensor_support"] = lambda cv, u, d: nap.TsdTensor(cv(d["t"]), d["v3"], time_units=u, time_support=d["ep"])
    E["IntervalSet"] = lambda cv, u, d: nap.IntervalSet(cv(d["s"]), cv(d["e"]), time_units=u)
    E["IntervalSet_pairs"] = lambda cv, u, d: nap.IntervalSet(np.stack([cv(d["s"]), cv(d["e"])], 1), time_units=u)
    E["TsGroup"] = lambda cv, u, d: nap.TsGroup({0: cv(d["t"]), 3: cv(d["t"][::2])}, time_units=u, time_support=d["wide"])
    E["count"] = lambda cv, u, d: d["ts"].count(float(cv([d["b"]])[0]), d["ep"], time_units=u)
    E["bin_average"] = lambda cv, u, d: d["tsd"].bin_average(float(cv([d["b"]])[0]), d["ep"], time_units=u)
    E["get"] = lambda cv, u, d: d["tsd"].get(float(cv([d["a0"]])[0]), float(cv([d["a1"]])[0]), time_units=u)
    E["get_closest"] = lambda cv, u, d: d["tsd"].get(float(cv([d["a0"]])[0]), time_units=u)
    E["get_slice"] = lambda cv, u, d: d["tsd"].get_slice(float(cv([d["a0"]])[0]), float(cv([d["a1"]])[0]), time_unit=u)
    E["find_support"] = lambda cv, u, d: d["ts"].find_support(float(cv([d["gap"]])[0]), time_units=u)
    E["smooth"] = lambda cv, u, d: d["reg"].smooth(float(cv([d["std"]])[0]), time_units=u)
    E["smooth_w"] = lambda cv, u, d: d["reg"].smooth(float(cv([d["std"]])[0]), windowsize=float(cv([d["std"] * 6])[0]), time_units=u)
    E["drop_short"] = lambda cv, u, d: d["ep"].drop_short_intervals(float(cv([d["thr"]])[0]), time_units=u)
    E["drop_long"] = lambda cv, u, d: d["ep"].drop_long_intervals(float(cv([d["thr"]])[0]), time_units=u)
    E["merge_close"] = lambda cv, u, d: d["ep"].merge_close_intervals(float(cv([d["gap"]])[0]), time_units=u)
    E["split"] = lambda cv, u, d: d["ep"].split(float(cv([d["b"]])[0]), time_units=u)
    E["trial_count"] = lambda cv, u, d: d["ts"].trial_count(d["ep"], float(cv([d["b"]])[0]), time_unit=u)
    E["TsGroup.count"] = lambda cv, u, d: d["grp"].count(float(cv([d["b"]])[0]), d["ep"], time_units=u)
    E["TsGroup.get"] = lambda cv, u, d: d["grp"].get(float(cv([d["a0"]])[0]), float(cv([d["a1"]])[0]), time_units=u)
    E["TsGroup.trial_count"] = lambda cv, u, d: d["grp"].trial_count(d["ep"], float(cv([d["b"]])[0]), time_unit=u)
    E["build_tensor"] = lambda cv, u, d: nap.build_tensor(d["grp"], d["ep"], bin_size=float(cv([d["b"]])[0]), time_unit=u)
    E["autocorr"] = lambda cv, u, d: nap.compute_autocorrelogram(d["grp"], float(cv([d["cb"]])[0]), float(cv([d["cw"]])[0]), time_units=u)
    E["crosscorr"] = lambda cv, u, d: nap.compute_crosscorrelogram(d["grp"], float(cv([d["cb"]])[0]), float(cv([d["cw"]])[0]), time_units=u)
    E["eventcorr"] = lambda cv, u, d: nap.compute_eventcorrelogram(d["grp"], d["ts"], float(cv([d["cb"]])[0]), float(cv([d["cw"]])[0]), time_units=u)
    E["perievent"] = lambda cv, u, d: nap.compute_perievent(d["ts"], d["ref"], minmax=(float(cv([-d["cw"]])[0]), float(cv([d["cw"]])[0])), time_unit=u)
    E["perievent_cont"] = lambda cv, u, d: nap.compute_perievent_continuous(d["reg"], d["ref"], minmax=(float(cv([-d["pw"]])[0]), float(cv([d["pw"]])[0])), time_unit=u)
    E["eta"] = lambda cv, u, d: nap.compute_event_trigger_average(d["grp"], d["reg"], float(cv([d["pb"]])[0]), (float(cv([d["pw"]])[0]), float(cv([d["pw"]])[0])), time_unit=u)
    E["decode_1d"] = lambda cv, u, d: nap.decode_1d(d["tc"], d["grp"], d["ep"], float(cv([d["db"]])[0]), time_units=u)
    E["mean_psd"] = lambda cv, u, d: nap.compute_mean_power_spectral_density(d["reg"], float(cv([d["seg"]])[0]), time_unit=u)
    return E


def out_points(nap):
    O = {}
    O["times"] = lambda d, u: d["tsd"].times(u)
    O["as_units"] = lambda d, u: d["tsd"].as_units(u).index.values
    O["start_time"] = lambda d, u: np.array([d["tsd"].start_time(u)])
    O["end_time"] = lambda d, u: np.array([d["tsd"].end_time(u)])
    O["tot_length"] = lambda d, u: np.array([d["ep"].tot_length(u)])
    O["ep.as_units"] = lambda d, u: d["ep"].as_units(u).values
    O["in_units"] = lambda d, u: d["tsd"].index.in_units(u)
    return O


def make_data(nap, rng):
    n = rng.randint(6, 25)
    origin = rng.choice([0, 10**6 * 1000, -50 * 10**6, 99_000 * 10**6])      # microseconds
    t = sorted(origin + x for x in rng.sample(range(0, 4_000_000, rng.choice([1, 7, 1000])), n))
    pts = sorted(origin + x for x in rng.sample(range(-100_000, 4_100_000, 500), 6))
    s, e = pts[0::2], pts[1::2]
    to_s = lambda us: np.asarray(us, dtype=np.float64) / 1e6
    d = {"t": t, "s": s, "e": e, "v": np.arange(n) + 1.0, "v2": np.arange(2 * n).reshape(n, 2) + 1.0, "v3": np.arange(4 * n).reshape(n, 2, 2) + 1.0}
    d["ep"] = nap.IntervalSet(to_s(s), to_s(e))
    d["wide"] = nap.IntervalSet(to_s([origin - 10**6]), to_s([origin + 6 * 10**6]))
    d["ts"] = nap.Ts(to_s(t), time_support=d["wide"])
    d["tsd"] = nap.Tsd(to_s(t), d["v"], time_support=d["wide"])
    d["ref"] = nap.Ts(to_s(t[1::3]), time_support=d["wide"])
    reg_t = [origin + 5000 * k for k in range(0, 400)]
    d["reg"] = nap.Tsd(to_s(reg_t), np.sin(np.arange(400) / 7.0), time_support=d["wide"])
    d["grp"] = nap.TsGroup({1: nap.Ts(to_s(t)), 4: nap.Ts(to_s(t[::2]))}, time_support=d["wide"])
    d["b"] = rng.choice([100_000, 250_000, 333_333, 1_000_000])
    d["a0"], d["a1"] = sorted(origin + rng.randrange(-10**5, 41 * 10**5) for _ in range(2))
    if rng.random() < 0.4:
        d["a0"] = rng.choice(t)
    if rng.random() < 0.4:
        d["a1"] = max(d["a0"], rng.choice(t))
    d["gap"] = rng.choice([200_000, 500_000, 1_000_000])
    d["thr"] = rng.choice([e_ - s_ for s_, e_ in zip(s, e)] + [500_000])
    d["std"] = rng.choice([10_000, 25_000])
    d["cb"], d["cw"] = rng.choice([(50_000, 500_000), (100_000, 1_000_000)])
    d["pw"] = rng.choice([20_000, 50_000])
    d["pb"] = 5000
    d["db"] = rng.choice([200_000, 500_000])
    d["seg"] = rng.choice([300_000, 500_000])
    d["tc"] = pd.DataFrame(np.array([[1.0, 3.0], [5.0, 2.0], [2.0, 7.0]]), index=np.array([0.5, 1.5, 2.5]), columns=[1, 4])
    return d


def float_layer(res, tier, seed):
    """bit-exact comparison of the PrimFloat model with TsIndex.format_timestamps / return_timestamps"""
    from pynapple.core.time_index import TsIndex
    rng = random.Random(seed * 3 + 11)
    n = 600 if tier == "quick" else 6000
    xs = []
    for _ in range(n):
        k = rng.randrange(-10**11, 10**11)
        r = rng.random()
        if r < 0.5:
            x = float(k) / rng.choice([1.0, 1e3, 1e6])
        elif r < 0.8:
            x = rng.uniform(-1e5, 1e5)
        else:
            x = rng.choice([0.0, 5e-10, 1.5e-9, 2.5e-9, -2.5e-9, 0.1, 1e-6, 123456.789])
        xs.append(x)
    lines = ["From Coq Require Import PrimFloat List. Import ListNotations.", "From Verif Require Import Model.FloatTime.", "Open Scope float_scope."]
    hexs = "; ".join(x.hex() for x in xs)
    for u in (0, 1, 2):
        lines.append("Eval vm_compute in map (fmt %d) [%s]." % (u, hexs))
        lines.append("Eval vm_compute in map (ret %d) [%s]." % (u, hexs))
    os.makedirs(os.path.join(C.COQ, "Cases"), exist_ok=True)
    path = os.path.join(C.COQ, "Cases", "c09_float.v")
    open(path, "w").write("\n".join(lines) + "\n")
    rc, out = C.sh("timeout 600 coqc -w -all -Q . Verif Cases/c09_float.v", cwd=C.COQ, timeout=700)
    if rc != 0:
        res.disagreements.append({"op": "float-layer", "what": "coqc failed on the generated cases", "log": out[-500:]})
        return
    blocks = re.findall(r"=\s*\[(.*?)\]\s*:\s*list float", out, re.S)
    if len(blocks) != 6:
        res.disagreements.append({"op": "float-layer", "what": "could not parse coqc output", "n_blocks": len(blocks)})
        return
    k = 0
    for u, uname in enumerate(["s", "ms", "us"]):
        for fn, impl in (("fmt", TsIndex.format_timestamps), ("ret", TsIndex.return_timestamps)):
            vals = [v.strip() for v in blocks[k].replace("\n", " ").split(";")]
            k += 1
            got = impl(np.asarray(xs, dtype=np.float64), uname)
            for x, mv, iv in zip(xs, vals, got):
                m = float(mv.replace("infinity", "inf"))
                res.evaluations += 1
                if not (m == iv and (np.signbit(m) == np.signbit(iv) or m != 0)) and not (np.isnan(m) and np.isnan(iv)):
                    res.disagreements.append({"op": "%s[%s]" % (fn, uname), "input": x.hex(), "impl": float(iv).hex(), "model": m.hex()})
    res.count("float_layer_values", n * 6)


def run(res, tier, seed):
    nap = _nap()
    warnings.simplefilter("ignore")
    from pynapple.core.time_index import TsIndex
    res.rule = ("equivariance: every unit-accepting entry point (35) on seeded random microsecond-lattice inputs (origins 0, 1e3 s, -50 s, 9.9e4 s) called with its time "
                "arguments in s, ms and us must give bit-identical results; output conversions = stored seconds x factor rounded to 9 decimals; under all 4 settings of the two "
                "suppress_* flags; float layer: PrimFloat model vs implementation bit-exact on random/lattice doubles. non-trivial = an entry point evaluated on one data set "
                "in all three units; distinct = (entry point, data set)")
    E = entry_points(nap)
    O = out_points(nap)
    rng = random.Random(seed * 101 + 9)
    nsets = 12 if tier == "quick" else 120
    flags = [(False, False), (True, False), (False, True), (True, True)]
    for ds in range(nsets):
        d = make_data(nap, rng)
        base = {}
        for fi, (f1, f2) in enumerate(flags if ds % 4 == 0 else flags[:1]):
            nap.nap_config.suppress_conversion_warnings = f1
            nap.nap_config.suppress_time_index_sorting_warnings = f2
            try:
                for name, f in E.items():
                    outs = []
                    for u, per in UNITS:
                        cv = (lambda per: (lambda us: np.asarray(us, dtype=np.float64) / per))(per)
                        try:
                            outs.append(canon(f(cv, u, d)))
                        except Exception as ex:
                            outs.append(("EXC", type(ex).__name__))
                    res.case((name, ds, fi), nontrivial=True)
                    res.count("entry=" + name)
                    if not (outs[0] == outs[1] == outs[2]):
                        bad = [UNITS[i][0] for i in (1, 2) if outs[i] != outs[0]]
                        res.violations.append({"key": {"op": name, "part": "equivariance"}, "what": "result depends on the time unit used for the arguments",
                                               "input": {"entry": name, "dataset_seed": [seed, ds], "units_differing_from_s": bad,
                                                         "data": {k: (v if isinstance(v, (int, list)) else None) for k, v in d.items() if isinstance(v, (int, list))}}})
                    if fi == 0:
                        base[name] = outs[0]
                    elif outs[0] != base[name]:
                        res.violations.append({"key": {"op": name, "part": "config"}, "what": "result depends on a warning-suppression flag",
                                               "input": {"entry": name, "flags": [f1, f2], "dataset_seed": [seed, ds]}})
            finally:
                nap.nap_config.suppress_conversion_warnings = False
                nap.nap_config.suppress_time_index_sorting_warnings = False
        # outputs in units: stored seconds x factor (rounded to 9 decimals as return_timestamps does)
        for name, f in O.items():
            sec = np.asarray(f(d, "s"), dtype=np.float64)
            for u, fac in (("ms", 1e3), ("us", 1e6)):
                got = np.asarray(f(d, u), dtype=np.float64)
                want = np.around(sec * fac, 9)
                res.case((name, ds, u), nontrivial=True)
                # the conversion multiplies the UNROUNDED stored value and re-rounds to 9 decimals of the unit: compare up to that rounding
                if got.shape != want.shape or not np.allclose(got, want, rtol=0, atol=1e-9 * fac):
                    res.violations.append({"key": {"op": name, "part": "output_units"}, "what": "value returned in %s is not the stored seconds x %g" % (u, fac),
                                           "input": {"entry": name, "dataset_seed": [seed, ds]}, "impl": got.ravel()[:5].tolist(), "expected": want.ravel()[:5].tolist()})
        # stored = seconds rounded to 1 ns; unsorted Ts input is stored sorted
        ts_u = nap.Ts(np.asarray(d["t"][::-1], dtype=np.float64) / 1e6)
        if [C.to_ns(x) for x in ts_u.t] != [1000 * k for k in d["t"]] or not np.array_equal(ts_u.t, np.around(ts_u.t, 9)):
            res.violations.append({"key": {"op": "Ts", "part": "sorted_rounded"}, "what": "Ts does not store sorted seconds rounded to 1 ns", "input": {"t_us": d["t"]}})
        if ds == 0:
            res.sample({"t_us": d["t"][:6], "ep_us": list(zip(d["s"], d["e"])), "bin_us": d["b"], "entry_points": sorted(E)})
    # lattice claim on the implementation: the three unit forms of a microsecond-lattice instant store the same double
    ks = [rng.randrange(-10**11, 10**11) for _ in range(3000 if tier == "quick" else 60000)] + [0, 1, -1, 10**11, -10**11, 999999, 123456789]
    ka = np.asarray(ks, dtype=np.float64)
    a = TsIndex.format_timestamps(ka / 1e6, "s")
    b = TsIndex.format_timestamps(ka / 1e3, "ms")
    c = TsIndex.format_timestamps(ka, "us")
    want = (ka * 1000) / 1e9
    res.evaluations += len(ks)
    res.count("lattice_instants", len(ks))
    for k, x, y, z, w in zip(ks, a, b, c, want):
        if not (x == y == z == w):
            res.violations.append({"key": {"op": "format_timestamps", "part": "lattice"}, "what": "the same microsecond-lattice instant is stored differently depending on its unit",
                                   "input": {"k_us": k}, "impl": [float(x).hex(), float(y).hex(), float(z).hex()], "expected": float(w).hex()})
            break
    float_layer(res, tier, seed)


def search(res, seed):
    r2 = C.Result()
    run(r2, "thorough", seed)
    return r2.violations[0] if r2.violations else None


def replay(payload):
    nap = _nap()
    warnings.simplefilter("ignore")
    v = payload.get("violation") or {}
    inp = v.get("input", {})
    if "dataset_seed" in inp:
        seed, ds = inp["dataset_seed"]
        rng = random.Random(seed * 101 + 9)
        d = None
        for _ in range(ds + 1):
            d = make_data(nap, rng)
        E = entry_points(nap)
        O = out_points(nap)
        name = inp["entry"]
        if name in E:
            outs = []
            for u, per in UNITS:
                cv = (lambda per: (lambda us: np.asarray(us, dtype=np.float64) / per))(per)
                try:
                    outs.append(canon(E[name](cv, u, d)))
                except Exception as ex:
                    outs.append(("EXC", type(ex).__name__))
            same = outs[0] == outs[1] == outs[2]
            print("entry", name, "same result in s/ms/us:", same)
            return 0 if same else 1
    print("replay input", inp)
    return 1
