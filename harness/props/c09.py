"""C09 seconds, milliseconds and microseconds denote the same instants everywhere."""
import os
import random
import re
import subprocess
import warnings

import numpy as np
import pandas as pd

import common as C
import gen as G

LEVEL = "proof"
DRIVERS = []
TRUSTED = ["translator tools/gen_sites.py -> coq/Gen/Sites.v (unit call-site table, config-flag table), regenerated from /repo on every run; checks in coq/Proofs/SitesChecks.v; the table is "
           "SYNTACTIC (a time parameter occurs in some format_timestamps(..., unit) call or is passed on with the unit): it does not see a second conversion of the same value nor a raw use "
           "next to the converted one - those are decided by the equivariance sweep, which must cover every row of the table (enforced by this file)",
           "bit-level PrimFloat model coq/Model/FloatTime.v of format_timestamps/return_timestamps, compared bit-exactly with the implementation on every run",
           "Coq's primitive-float specification (FloatAxioms) and Flocq for the lattice theorem (Proofs/FloatTimeProofs.v) when present"]
ASSUMPTIONS = ["instants on the microsecond lattice within +/-1e5 s, given in each unit as the nearest double",
               "output conversions of a stored lattice instant k us are compared with the exact k/1e3 ms, k us to within 0.3 ns, the bound PROVED for the float model (C09_output_is_stored_times_factor); "
               "in seconds, and for the integer index of as_units('us'), exactly; tot_length (a float sum of up to 8 durations, each carrying <= 1.5e-11 s) to within 0.5 ns",
               "widened forms: a scalar / array form is generated in a unit only when it holds the instant k/per exactly (e.g. np.float32 for dyadic values, integer dtypes for whole numbers of the unit); forms outside the documented "
               "signature (numpy scalars other than np.float64, 0-d arrays) may be rejected with a clean Python exception, but never give another result; a TsIndex / IntervalSet argument holds seconds and is only given with unit 's'",
               "the call-site table is syntactic (which arguments meet the unit variable); behaviour is decided by the equivariance sweep of every entry point"]

UNITS = [("s", 1e6), ("ms", 1e3), ("us", 1.0)]


def _nap():
    import pynapple as nap
    return nap


def canon(o):
    """canonical, exactly comparable form of a result (times, values AND their dtype, columns, supports, group rates and metadata)"""
    nap = _nap()
    if isinstance(o, nap.IntervalSet):
        return ("IntervalSet", np.asarray(o.values).tobytes(), tuple(map(str, o.metadata_columns)), repr(o.metadata.values.tolist()) if len(o.metadata_columns) else "")
    if isinstance(o, nap.TsGroup):
        return ("TsGroup", tuple((int(k), canon(o[k])) for k in o.keys()), canon(o.time_support), np.asarray(o.rates.values, dtype=float).tobytes(),
                tuple(map(str, o.metadata_columns)), repr(o.metadata.values.tolist()))
    if isinstance(o, (nap.Ts, nap.Tsd, nap.TsdFrame, nap.TsdTensor)):
        v = np.asarray(o.values).tobytes() if hasattr(o, "values") else b""
        dt = (str(np.asarray(o.values).dtype), np.asarray(o.values).shape) if hasattr(o, "values") else ()
        cols = tuple(map(str, o.columns)) if hasattr(o, "columns") else ()
        return (type(o).__name__, np.asarray(o.t).tobytes(), v, dt, cols, canon(o.time_support))
    if isinstance(o, pd.DataFrame):
        return ("DataFrame", np.asarray(o.values, dtype=float).tobytes(), np.asarray(o.index, dtype=float).tobytes(), tuple(map(str, o.columns)), o.shape)
    if isinstance(o, pd.Series):
        return ("Series", np.asarray(o.values, dtype=float).tobytes(), np.asarray(o.index, dtype=float).tobytes())
    if isinstance(o, np.ndarray):
        return ("ndarray", o.shape, str(o.dtype), np.asarray(o, dtype=float).tobytes())
    if isinstance(o, dict):
        return ("dict",) + tuple((repr(k), canon(v)) for k, v in o.items())
    if isinstance(o, (tuple, list)):
        return tuple(canon(x) for x in o)
    if isinstance(o, slice):
        return ("slice", o.start, o.stop, o.step)
    if isinstance(o, (float, np.floating)):
        return ("float", np.float64(o).tobytes())
    return ("other", repr(o))


def entry_points(nap):
    """name -> f(cv, u, data): cv converts an integer number of MICROSECONDS into the unit u"""
    E = {}
    E["Ts"] = lambda cv, u, d: nap.Ts(cv(d["t"]), time_units=u)
    E["Ts_unsorted"] = lambda cv, u, d: nap.Ts(cv(d["t"][::-1]), time_units=u)
    E["Tsd"] = lambda cv, u, d: nap.Tsd(cv(d["t"]), d["v"], time_units=u)
    E["TsdFrame"] = lambda cv, u, d: nap.TsdFrame(cv(d["t"]), d["v2"], time_units=u)
    E["TsdTensor"] = lambda cv, u, d: nap.TsdTensor(cv(d["t"]), d["v3"], time_units=u)
    E["Ts_support"] = lambda cv, u, d: nap.Ts(cv(d["t"]), time_units=u, time_support=d["ep"])
    E["Tsd_support"] = lambda cv, u, d: nap.Tsd(cv(d["t"]), d["v"], time_units=u, time_support=d["ep"])
    E["TsdFrame_support"] = lambda cv, u, d: nap.TsdFrame(cv(d["t"]), d["v2"], time_units=u, time_support=d["ep"])
    E["TsdTensor_support"] = lambda cv, u, d: nap.TsdTensor(cv(d["t"]), d["v3"], time_units=u, time_support=d["ep"])
    E["IntervalSet"] = lambda cv, u, d: nap.IntervalSet(cv(d["s"]), cv(d["e"]), time_units=u)
    E["IntervalSet_pairs"] = lambda cv, u, d: nap.IntervalSet(np.stack([cv(d["s"]), cv(d["e"])], 1), time_units=u)
    E["TsGroup"] = lambda cv, u, d: nap.TsGroup({0: cv(d["t"]), 3: cv(d["t"][::2])}, time_units=u, time_support=d["wide"])
    # python lists / tuples instead of ndarrays: the only inputs for which suppress_conversion_warnings guards a reachable warning
    E["Ts_list"] = lambda cv, u, d: nap.Ts(cv(d["t"]).tolist(), time_units=u)
    E["Tsd_list"] = lambda cv, u, d: nap.Tsd(cv(d["t"]).tolist(), d["v"].tolist(), time_units=u)
    E["IntervalSet_list"] = lambda cv, u, d: nap.IntervalSet(cv(d["s"]).tolist(), tuple(cv(d["e"]).tolist()), time_units=u)
    E["TsGroup_list"] = lambda cv, u, d: nap.TsGroup({0: cv(d["t"]).tolist(), 3: cv(d["t"][::2])}, time_units=u, time_support=d["wide"])
    E["TsGroup_nosupport"] = lambda cv, u, d: nap.TsGroup({0: cv(d["t"]), 3: cv(d["t"][::2])}, time_units=u)
    E["count"] = lambda cv, u, d: d["ts"].count(float(cv([d["b"]])[0]), d["ep"], time_units=u)
    E["bin_average"] = lambda cv, u, d: d["tsd"].bin_average(float(cv([d["b"]])[0]), d["ep"], time_units=u)
    E["get"] = lambda cv, u, d: d["tsd"].get(float(cv([d["a0"]])[0]), float(cv([d["a1"]])[0]), time_units=u)
    E["get_closest"] = lambda cv, u, d: d["tsd"].get(float(cv([d["a0"]])[0]), time_units=u)
    E["get_slice"] = lambda cv, u, d: d["tsd"].get_slice(float(cv([d["a0"]])[0]), float(cv([d["a1"]])[0]), time_unit=u)
    E["find_support"] = lambda cv, u, d: d["ts"].find_support(float(cv([d["gap"]])[0]), time_units=u)
    E["smooth"] = lambda cv, u, d: d["reg"].smooth(float(cv([d["std"]])[0]), time_units=u)
    E["smooth_w"] = lambda cv, u, d: d["reg"].smooth(float(cv([d["std"]])[0]), windowsize=float(cv([d["std"] * 6])[0]), time_units=u)
    E["drop_short"] = lambda cv, u, d: d["ep"].drop_short_intervals(float(cv([d["thr"]])[0]), time_units=u)
    E["drop_long"] = lambda cv, u, d: d["ep"].drop_long_intervals(float(cv([d["thr"]])[0]), time_units=u)
    E["merge_close"] = lambda cv, u, d: d["ep"].merge_close_intervals(float(cv([d["gap"]])[0]), time_units=u)
    E["split"] = lambda cv, u, d: d["ep"].split(float(cv([d["b"]])[0]), time_units=u)
    E["trial_count"] = lambda cv, u, d: d["ts"].trial_count(d["ep"], float(cv([d["b"]])[0]), time_unit=u)
    E["TsGroup.count"] = lambda cv, u, d: d["grp"].count(float(cv([d["b"]])[0]), d["ep"], time_units=u)
    E["TsGroup.get"] = lambda cv, u, d: d["grp"].get(float(cv([d["a0"]])[0]), float(cv([d["a1"]])[0]), time_units=u)
    E["TsGroup.trial_count"] = lambda cv, u, d: d["grp"].trial_count(d["ep"], float(cv([d["b"]])[0]), time_unit=u)
    E["build_tensor"] = lambda cv, u, d: nap.build_tensor(d["grp"], d["ep"], bin_size=float(cv([d["b"]])[0]), time_unit=u)
    E["autocorr"] = lambda cv, u, d: nap.compute_autocorrelogram(d["grp"], float(cv([d["cb"]])[0]), float(cv([d["cw"]])[0]), time_units=u)
    E["crosscorr"] = lambda cv, u, d: nap.compute_crosscorrelogram(d["grp"], float(cv([d["cb"]])[0]), float(cv([d["cw"]])[0]), time_units=u)
    E["eventcorr"] = lambda cv, u, d: nap.compute_eventcorrelogram(d["grp"], d["ts"], float(cv([d["cb"]])[0]), float(cv([d["cw"]])[0]), time_units=u)
    E["perievent"] = lambda cv, u, d: nap.compute_perievent(d["ts"], d["ref"], minmax=(float(cv([-d["cw"]])[0]), float(cv([d["cw"]])[0])), time_unit=u)
    E["perievent_cont"] = lambda cv, u, d: nap.compute_perievent_continuous(d["reg"], d["ref"], minmax=(float(cv([-d["pw"]])[0]), float(cv([d["pw"]])[0])), time_unit=u)
    E["eta"] = lambda cv, u, d: nap.compute_event_trigger_average(d["grp"], d["reg"], float(cv([d["pb"]])[0]), (float(cv([d["pw"]])[0]), float(cv([d["pw"]])[0])), time_unit=u)
    E["decode_1d"] = lambda cv, u, d: nap.decode_1d(d["tc"], d["grp"], d["ep"], float(cv([d["db"]])[0]), time_units=u)
    E["eta_scalar_window"] = lambda cv, u, d: nap.compute_event_trigger_average(d["grp"], d["reg"], float(cv([d["pb"]])[0]), float(cv([d["pw"]])[0]), time_unit=u)
    E["eta_ep"] = lambda cv, u, d: nap.compute_event_trigger_average(d["grp"], d["reg"], float(cv([d["pb"]])[0]), (float(cv([d["pw"]])[0]), float(cv([2 * d["pw"]])[0])), d["ep"], time_unit=u)
    E["decode_1d_frame"] = lambda cv, u, d: nap.decode_1d(d["tc"], d["cnt"], d["ep"], float(cv([d["db"]])[0]), time_units=u)
    E["decode_1d_dict"] = lambda cv, u, d: nap.decode_1d(d["tc"], {1: d["grp"][1], 4: d["grp"][4]}, d["ep"], float(cv([d["db"]])[0]), time_units=u)
    E["decode_1d_feature"] = lambda cv, u, d: nap.decode_1d(d["tc"], d["grp"], d["ep"], float(cv([d["db"]])[0]), time_units=u, feature=d["tsd"])
    E["decode_2d"] = lambda cv, u, d: nap.decode_2d(d["tc2"], d["grp"], d["ep"], float(cv([d["db"]])[0]), d["xy"], time_units=u)
    E["decode_2d_frame"] = lambda cv, u, d: nap.decode_2d(d["tc2"], d["cnt"], d["ep"], float(cv([d["db"]])[0]), d["xy"], time_units=u)
    E["decode_2d_dict"] = lambda cv, u, d: nap.decode_2d(d["tc2"], {1: d["grp"][1], 4: d["grp"][4]}, d["ep"], float(cv([d["db"]])[0]), d["xy"], time_units=u)
    # the signal carries its OWN support: with d["wide"] some segment holds no sample and the function raises in every unit
    E["mean_psd"] = lambda cv, u, d: nap.compute_mean_power_spectral_density(d["reg_own"], float(cv([d["seg"]])[0]), time_unit=u)
    E["mean_psd_ep"] = lambda cv, u, d: nap.compute_mean_power_spectral_density(d["reg"], float(cv([d["seg"]])[0]), ep=d["reg_ep"], time_unit=u)
    E["Ts.count"] = lambda cv, u, d: d["ts"].count(float(cv([d["b"]])[0]), time_units=u)
    E["TsdFrame.bin_average"] = lambda cv, u, d: d["frame"].bin_average(float(cv([d["b"]])[0]), d["ep"], time_units=u)
    E["TsdFrame.get"] = lambda cv, u, d: d["frame"].get(float(cv([d["a0"]])[0]), float(cv([d["a1"]])[0]), time_units=u)
    E["TsdFrame.smooth"] = lambda cv, u, d: d["regf"].smooth(float(cv([d["std"]])[0]), time_units=u)
    E["Ts.get"] = lambda cv, u, d: d["ts"].get(float(cv([d["a0"]])[0]), float(cv([d["a1"]])[0]), time_units=u)
    E["Ts.get_slice"] = lambda cv, u, d: d["ts"].get_slice(float(cv([d["a0"]])[0]), float(cv([d["a1"]])[0]), time_unit=u)
    E["get_slice_open"] = lambda cv, u, d: d["tsd"].get_slice(float(cv([d["a0"]])[0]), time_unit=u)
    E["build_tensor_tsd"] = lambda cv, u, d: nap.build_tensor(d["ts"], d["ep"], bin_size=float(cv([d["b"]])[0]), time_unit=u)
    # degenerate receivers and the other accepted argument forms (third-round seeds: a unit converted on the populated path only, a scalar window not converted)
    E["TsGroup.count_empty_group"] = lambda cv, u, d: nap.TsGroup({}, time_support=d["wide"]).count(float(cv([d["b"]])[0]), d["ep"], time_units=u)
    E["TsGroup.count_noep"] = lambda cv, u, d: d["grp"].count(float(cv([d["b"]])[0]), time_units=u)
    E["TsGroup.count_empty_members"] = lambda cv, u, d: nap.TsGroup({2: nap.Ts(np.array([])), 5: nap.Ts(np.array([]))}, time_support=d["wide"]).count(float(cv([d["b"]])[0]), d["ep"], time_units=u)
    E["count_empty_ts"] = lambda cv, u, d: nap.Ts(np.array([]), time_support=d["wide"]).count(float(cv([d["b"]])[0]), d["ep"], time_units=u)
    E["bin_average_empty_tsd"] = lambda cv, u, d: nap.Tsd(np.array([]), np.array([]), time_support=d["wide"]).bin_average(float(cv([d["b"]])[0]), d["ep"], time_units=u)
    E["get_empty_tsd"] = lambda cv, u, d: nap.Tsd(np.array([]), np.array([]), time_support=d["wide"]).get(float(cv([d["a0"]])[0]), float(cv([d["a1"]])[0]), time_units=u)
    E["perievent_scalar_window"] = lambda cv, u, d: nap.compute_perievent(d["ts"], d["ref"], minmax=float(cv([d["cw"]])[0]), time_unit=u)
    E["perievent_group"] = lambda cv, u, d: nap.compute_perievent(d["grp"], d["ref"], minmax=(float(cv([-d["cw"]])[0]), float(cv([d["cw"]])[0])), time_unit=u)
    E["perievent_cont_scalar_window"] = lambda cv, u, d: nap.compute_perievent_continuous(d["reg"], d["ref"], minmax=float(cv([d["pw"]])[0]), time_unit=u)
    E["find_support_gap_equal"] = lambda cv, u, d: d["ts"].find_support(float(cv([d["t"][1] - d["t"][0]])[0]), time_units=u)
    E["Ts_default_support"] = lambda cv, u, d: nap.Ts(cv(d["t"]), time_units=u).time_support
    E["Tsd_default_support"] = lambda cv, u, d: nap.Tsd(cv(d["t"]), d["v"], time_units=u).time_support
    E["TsdFrame_default_support"] = lambda cv, u, d: nap.TsdFrame(cv(d["t"]), d["v2"], time_units=u).time_support
    return E


def out_points(nap):
    O = {}
    O["times"] = lambda d, u: d["tsd"].times(u)
    O["as_units"] = lambda d, u: d["tsd"].as_units(u).index.values
    O["start_time"] = lambda d, u: np.array([d["tsd"].start_time(u)])
    O["end_time"] = lambda d, u: np.array([d["tsd"].end_time(u)])
    O["tot_length"] = lambda d, u: np.array([d["ep"].tot_length(u)])
    O["ep.as_units"] = lambda d, u: d["ep"].as_units(u).values
    O["in_units"] = lambda d, u: d["tsd"].index.in_units(u)
    O["Ts.as_units"] = lambda d, u: d["ts"].as_units(u).index.values
    O["TsdFrame.as_units"] = lambda d, u: d["frame"].as_units(u).index.values
    O["Ts.times"] = lambda d, u: d["ts"].times(u)
    O["TsdFrame.times"] = lambda d, u: d["frame"].times(u)
    O["ep.start_time"] = lambda d, u: np.array([d["ep_ts"].start_time(u)])
    O["ep.end_time"] = lambda d, u: np.array([d["ep_ts"].end_time(u)])
    return O


def out_exact_us(d):
    """the exact instants (integer microseconds) behind every output point; tot_length: the exact total duration"""
    t = list(d["t"])
    flat = [x for se in zip(d["s"], d["e"]) for x in se]
    inside = [k for k in t if any(s_ <= k <= e_ for s_, e_ in zip(d["s"], d["e"]))]
    return {"times": t, "as_units": t, "start_time": [t[0]], "end_time": [t[-1]], "tot_length": [sum(e_ - s_ for s_, e_ in zip(d["s"], d["e"]))], "ep.as_units": flat, "in_units": t,
            "Ts.as_units": t, "TsdFrame.as_units": t, "Ts.times": t, "TsdFrame.times": t, "ep.start_time": inside[:1], "ep.end_time": inside[-1:]}


def make_data(nap, rng):
    n = rng.randint(6, 25)
    origin = rng.choice([0, 10**6 * 1000, -50 * 10**6, 99_000 * 10**6])      # microseconds
    t = sorted(origin + x for x in rng.sample(range(0, 4_000_000, rng.choice([1, 7, 1000])), n))
    pts = sorted(origin + x for x in rng.sample(range(-100_000, 4_100_000, 500), 6))
    s, e = pts[0::2], pts[1::2]
    to_s = lambda us: np.asarray(us, dtype=np.float64) / 1e6
    d = {"t": t, "s": s, "e": e, "v": np.arange(n) + 1.0, "v2": np.arange(2 * n).reshape(n, 2) + 1.0, "v3": np.arange(4 * n).reshape(n, 2, 2) + 1.0}
    d["ep"] = nap.IntervalSet(to_s(s), to_s(e))
    d["wide"] = nap.IntervalSet(to_s([origin - 10**6]), to_s([origin + 6 * 10**6]))
    d["ts"] = nap.Ts(to_s(t), time_support=d["wide"])
    d["tsd"] = nap.Tsd(to_s(t), d["v"], time_support=d["wide"])
    d["ref"] = nap.Ts(to_s(t[1::3]), time_support=d["wide"])
    reg_t = [origin + 5000 * k for k in range(0, 400)]
    d["reg"] = nap.Tsd(to_s(reg_t), np.sin(np.arange(400) / 7.0), time_support=d["wide"])
    d["reg_own"] = nap.Tsd(to_s(reg_t), np.sin(np.arange(400) / 7.0))
    d["reg_ep"] = nap.IntervalSet(to_s([reg_t[0]]), to_s([reg_t[-1]]))
    d["regf"] = nap.TsdFrame(to_s(reg_t), np.stack([np.sin(np.arange(400) / 7.0), np.cos(np.arange(400) / 5.0)], 1), time_support=d["wide"])
    d["frame"] = nap.TsdFrame(to_s(t), d["v2"], time_support=d["wide"])
    d["ep_ts"] = nap.Ts(to_s(t), time_support=d["ep"])
    d["grp"] = nap.TsGroup({1: nap.Ts(to_s(t)), 4: nap.Ts(to_s(t[::2]))}, time_support=d["wide"])
    d["cnt"] = d["grp"].count(0.05, d["wide"])
    d["tc2"] = {1: np.array([[1.0, 3.0], [5.0, 2.0]]), 4: np.array([[2.0, 7.0], [0.5, 4.0]])}
    d["xy"] = (np.array([0.5, 1.5]), np.array([0.25, 0.75]))
    d["b"] = rng.choice([100_000, 250_000, 333_333, 1_000_000])
    d["a0"], d["a1"] = sorted(origin + rng.randrange(-10**5, 41 * 10**5) for _ in range(2))
    if rng.random() < 0.4:
        d["a0"] = rng.choice(t)
    if rng.random() < 0.4:
        d["a1"] = max(d["a0"], rng.choice(t))
    d["gap"] = rng.choice([200_000, 500_000, 1_000_000])
    d["thr"] = rng.choice([e_ - s_ for s_, e_ in zip(s, e)] + [500_000])
    d["std"] = rng.choice([10_000, 25_000])
    d["cb"], d["cw"] = rng.choice([(50_000, 500_000), (100_000, 1_000_000)])
    d["pw"] = rng.choice([20_000, 50_000])
    d["pb"] = 5000
    d["db"] = rng.choice([200_000, 500_000])
    d["seg"] = rng.choice([300_000, 500_000])
    d["tc"] = pd.DataFrame(np.array([[1.0, 3.0], [5.0, 2.0], [2.0, 7.0]]), index=np.array([0.5, 1.5, 2.5]), columns=[1, 4])
    return d


def float_layer(res, tier, seed):
    """bit-exact comparison of the PrimFloat model with TsIndex.format_timestamps / return_timestamps"""
    from pynapple.core.time_index import TsIndex
    rng = random.Random(seed * 3 + 11)
    n = 600 if tier == "quick" else 6000
    xs = []
    for _ in range(n):
        k = rng.randrange(-10**11, 10**11)
        r = rng.random()
        if r < 0.5:
            x = float(k) / rng.choice([1.0, 1e3, 1e6])
        elif r < 0.8:
            x = rng.uniform(-1e5, 1e5)
        else:
            x = rng.choice([0.0, 5e-10, 1.5e-9, 2.5e-9, -2.5e-9, 0.1, 1e-6, 123456.789])
        xs.append(x)
    lines = ["From Coq Require Import PrimFloat List. Import ListNotations.", "From Verif Require Import Model.FloatTime.", "Open Scope float_scope."]
    hexs = "; ".join(x.hex() for x in xs)
    for u in (0, 1, 2):
        lines.append("Eval vm_compute in map (fmt %d) [%s]." % (u, hexs))
        lines.append("Eval vm_compute in map (ret %d) [%s]." % (u, hexs))
    os.makedirs(os.path.join(C.COQ, "Cases"), exist_ok=True)
    path = os.path.join(C.COQ, "Cases", "c09_float.v")
    open(path, "w").write("\n".join(lines) + "\n")
    rc, out = C.sh("timeout 600 coqc -w -all -Q . Verif Cases/c09_float.v", cwd=C.COQ, timeout=700)
    if rc != 0:
        res.disagreements.append({"op": "float-layer", "what": "coqc failed on the generated cases", "log": out[-500:]})
        return
    blocks = re.findall(r"=\s*\[(.*?)\]\s*:\s*list float", out, re.S)
    if len(blocks) != 6:
        res.disagreements.append({"op": "float-layer", "what": "could not parse coqc output", "n_blocks": len(blocks)})
        return
    k = 0
    for u, uname in enumerate(["s", "ms", "us"]):
        for fn, impl in (("fmt", TsIndex.format_timestamps), ("ret", TsIndex.return_timestamps)):
            vals = [v.strip() for v in blocks[k].replace("\n", " ").split(";")]
            k += 1
            got = impl(np.asarray(xs, dtype=np.float64), uname)
            for x, mv, iv in zip(xs, vals, got):
                m = float(mv.replace("infinity", "inf"))
                res.evaluations += 1
                if not (m == iv and (np.signbit(m) == np.signbit(iv) or m != 0)) and not (np.isnan(m) and np.isnan(iv)):
                    res.disagreements.append({"op": "%s[%s]" % (fn, uname), "input": x.hex(), "impl": float(iv).hex(), "model": m.hex()})
    res.count("float_layer_values", n * 6)


# every row of the GENERATED unit table (coq/Gen/Sites.v: the functions of /repo that take a time unit) -> the call forms / output points that sweep it.
# A function that appears in the table without an entry here fails the check: "every unit-accepting entry point" is enforced, not assumed.
ROWS = {
    "_Base.__init__": ["Ts", "Tsd"], "_Base._get_slice": ["get_slice", "get_slice_open", "Ts.get_slice"], "_Base.count": ["count", "Ts.count"], "_Base.end_time": ["end_time", "ep.end_time"],
    "_Base.find_support": ["find_support"], "_Base.get": ["get", "get_closest", "Ts.get", "TsdFrame.get"], "_Base.get_slice": ["get_slice", "get_slice_open", "Ts.get_slice"],
    "_Base.start_time": ["start_time", "ep.start_time"], "_Base.times": ["times", "Ts.times", "TsdFrame.times"], "IntervalSet.__init__": ["IntervalSet", "IntervalSet_pairs", "IntervalSet_list"],
    "IntervalSet.as_units": ["ep.as_units"], "IntervalSet.drop_long_intervals": ["drop_long"], "IntervalSet.drop_short_intervals": ["drop_short"],
    "IntervalSet.merge_close_intervals": ["merge_close"], "IntervalSet.split": ["split"], "IntervalSet.tot_length": ["tot_length"], "TsIndex.__new__": ["Ts", "Ts_unsorted"],
    "TsIndex.in_units": ["in_units"], "Ts.__init__": ["Ts", "Ts_unsorted", "Ts_list", "Ts_support"], "Ts.as_units": ["Ts.as_units"], "Ts.trial_count": ["trial_count"],
    "Tsd.__init__": ["Tsd", "Tsd_list", "Tsd_support"], "Tsd.as_units": ["as_units"], "TsdFrame.__init__": ["TsdFrame", "TsdFrame_support"], "TsdFrame.as_units": ["TsdFrame.as_units"],
    "TsdTensor.__init__": ["TsdTensor", "TsdTensor_support"], "_BaseTsd.__init__": ["Tsd", "TsdFrame", "TsdTensor"], "_BaseTsd.bin_average": ["bin_average", "TsdFrame.bin_average"],
    "_BaseTsd.smooth": ["smooth", "smooth_w", "TsdFrame.smooth"], "TsGroup.__init__": ["TsGroup", "TsGroup_list", "TsGroup_nosupport"], "TsGroup.count": ["TsGroup.count"], "TsGroup.get": ["TsGroup.get"],
    "TsGroup.trial_count": ["TsGroup.trial_count"], "compute_autocorrelogram": ["autocorr"], "compute_crosscorrelogram": ["crosscorr"], "compute_eventcorrelogram": ["eventcorr"],
    "decode_1d": ["decode_1d", "decode_1d_frame", "decode_1d_dict", "decode_1d_feature"], "decode_2d": ["decode_2d", "decode_2d_frame", "decode_2d_dict"],
    "compute_event_trigger_average": ["eta", "eta_scalar_window", "eta_ep"], "compute_perievent": ["perievent"], "compute_perievent_continuous": ["perievent_cont"],
    "compute_mean_power_spectral_density": ["mean_psd", "mean_psd_ep"], "build_tensor": ["build_tensor", "build_tensor_tsd"],
}


def table_coverage(res, E, O):
    try:
        src = open(os.path.join(C.COQ, "Gen", "Sites.v")).read()
        sec = src[src.index("Definition unit_table"):src.index("Definition config_table")]
        funcs = re.findall(r'\("pynapple/[^":]+:([^"]+)", \(\[', sec)
    except (OSError, ValueError):
        res.disagreements.append({"op": "unit_table", "what": "harness: cannot read the generated unit table coq/Gen/Sites.v"})
        return
    res.count("unit_table_rows", len(funcs))
    for fn in funcs:
        names = ROWS.get(fn)
        if not names:
            res.disagreements.append({"op": fn, "what": "the unit-accepting function %s of the generated table is not swept by any call form of this harness" % fn})
        elif [n for n in names if n not in E and n not in O]:
            res.disagreements.append({"op": fn, "what": "harness: call forms listed for %s do not exist: %s" % (fn, [n for n in names if n not in E and n not in O])})


def check_outputs(nap, res, O, d, seed, ds):
    """outputs in units: the stored instant (k us, exactly known) x factor.  In seconds: the canonical double of k us, exactly.  In ms / us: within 0.3 ns of the
    exact k/1e3, k (the bound proved for the float model, C09_output_is_stored_times_factor); the integer index of as_units('us'): exactly k.
    tot_length is a float sum of <= 3 durations (each difference of two stored doubles carries <= 1.5e-11 s): 0.5 ns."""
    out = []
    exact = out_exact_us(d)
    for name, f in O.items():
        ks = np.asarray(exact[name], dtype=np.float64)
        if not len(ks):
            continue
        tol_s = 0.5e-9 if name == "tot_length" else 0.3e-9
        for u, fac in (("s", 1.0), ("ms", 1e3), ("us", 1e6)):
            raw = np.asarray(f(d, u))
            got = raw.astype(np.float64).ravel()
            want = (ks * 1000) / 1e9 if u == "s" else ks / (1e6 / fac)
            res.case((name, ds, u), nontrivial=True)
            if u == "s" and name != "tot_length":
                ok = got.shape == want.shape and bool(np.all(got == want))
            elif u == "us" and name.endswith("as_units"):
                ok = got.shape == want.shape and raw.dtype.kind == "i" and bool(np.all(got == want))
            else:
                ok = got.shape == want.shape and bool(np.all(np.abs(got - want) <= tol_s * fac))
            if not ok:
                out.append({"key": {"op": name, "part": "output_units", "unit": u}, "what": "value returned in %s is not the stored instant x %g" % (u, fac),
                            "input": {"entry": name, "dataset_seed": [seed, ds]}, "impl": got[:5].tolist(), "expected": want[:5].tolist()})
    return out


STORED = ("Ts", "Ts_unsorted", "Ts_list", "Tsd", "Tsd_list", "TsdFrame", "TsdTensor", "TsGroup", "TsGroup_list", "TsGroup_nosupport", "IntervalSet", "IntervalSet_pairs", "IntervalSet_list")


def check_stored(nap, res, E, d, seed, ds):
    """stored = seconds rounded to 1 ns (on the lattice: the canonical double of k us), whatever the constructor and the unit; unsorted Ts input is stored sorted"""
    out = []
    cd = lambda ks: (np.asarray(sorted(ks), dtype=np.float64) * 1000) / 1e9
    canon_ep = (np.stack([np.asarray(d["s"], dtype=np.float64), np.asarray(d["e"], dtype=np.float64)], 1) * 1000) / 1e9
    for u, per in UNITS:
        cv = (lambda per: (lambda us: np.asarray(us, dtype=np.float64) / per))(per)
        for name in STORED:
            o = E[name](cv, u, d)
            res.case(("stored", name, ds, u), nontrivial=True)
            if isinstance(o, nap.IntervalSet):
                ok = np.array_equal(np.asarray(o.values), canon_ep)
            elif isinstance(o, nap.TsGroup):
                ok = np.array_equal(np.asarray(o[0].t), cd(d["t"])) and np.array_equal(np.asarray(o[3].t), cd(d["t"][::2]))
            else:
                ok = np.array_equal(np.asarray(o.t), cd(d["t"]))
            if not ok:
                out.append({"key": {"op": name, "part": "sorted_rounded", "unit": u}, "what": "%s(time_units=%s) does not store the sorted seconds rounded to 1 ns" % (name, u),
                            "input": {"entry": name, "dataset_seed": [seed, ds], "t_us": d["t"]}})
    return out


# ======================================================================================
# WIDENED ARGUMENT FORMS (fourth round): the same statement on the less common forms of the inputs.
# Everything below builds its inputs from integer MICROSECONDS; `PER[u]` turns them into the unit u as the nearest double (k / per), exactly as `cv` above.
PER = {"s": 1e6, "ms": 1e3, "us": 1.0}
IPER = {"s": 10**6, "ms": 10**3, "us": 1}
CLEAN = (TypeError, ValueError, OSError, RuntimeError, AssertionError)      # what "rejects the argument" means for a form outside the documented signature
REQ = "<required>"
_INTS = (("np.int64", np.int64), ("np.int32", np.int32), ("np.int16", np.int16), ("np.int8", np.int8),
         ("np.uint64", np.uint64), ("np.uint32", np.uint32), ("np.uint16", np.uint16), ("np.uint8", np.uint8))
SCALAR_FORMS = ("float", "int", "np.float64", "np.float32", "0d") + tuple(n for n, _ in _INTS)
DOCUMENTED_SCALARS = ("float", "int", "float64")            # type names: Python float / int (np.float64 IS a Python float); every signature documents these
STYLES = ("kw", "kw_all", "pos", "mixed", "twice")
WD_ORIGINS = (0, -2_000_000, -50_000_000, 1_000_000_000, 99_990_000_000)      # microseconds: 0, straddling 0, negative, 1e3 s, just below 1e5 s


def _cd(ks):
    """canonical doubles (seconds) of integer microseconds"""
    return (np.asarray(list(ks), dtype=np.float64) * 1000) / 1e9


def scalar_form(k, u, form):
    """the scalar denoting k microseconds in unit u in the given form, or None when that form cannot hold the double k/per exactly"""
    x = k / PER[u]
    if form == "float":
        return float(x)
    if form == "np.float64":
        return np.float64(x)
    if form == "0d":
        return np.array(x)
    if form == "np.float32":
        return np.float32(x) if float(np.float32(x)) == x else None
    if k % IPER[u]:
        return None
    n = k // IPER[u]
    if form == "int":
        return int(n)
    dt = dict(_INTS)[form]
    return dt(n) if np.iinfo(dt).min <= n <= np.iinfo(dt).max else None


ARRAY_FORMS = ("ndarray", "list", "tuple", "list_int", "list_np", "series", "index", "float32", "float16", "int64", "int32", "int16", "uint64", "uint32", "uint16", "uint8",
               "strided", "readonly", "fortran_col", "object", "tsindex", "t_attr")


def array_form(nap, ks, u, form):
    """the 1-d container denoting the instants ks (microseconds, in the given order) in unit u in the given form; None when the form cannot hold them exactly"""
    ks = list(ks)
    x = np.asarray(ks, dtype=np.float64) / PER[u]
    if form == "ndarray":
        return x
    if form == "list":
        return x.tolist()
    if form == "tuple":
        return tuple(x.tolist())
    if form == "list_np":
        return list(x)
    if form == "series":
        return pd.Series(x)
    if form == "index":
        return pd.Index(x)
    if form == "object":
        return x.astype(object)
    if form in ("float32", "float16"):
        y = x.astype(form)
        return y if np.array_equal(y.astype(np.float64), x) else None
    if form == "strided":
        big = np.full(2 * len(x) + 1, 12345.678)
        big[::2][:len(x)] = x
        return big[::2][:len(x)]
    if form == "fortran_col":
        big = np.asfortranarray(np.stack([x, x + 1.0, x - 7.0], 0))
        return big[0]
    if form == "readonly":
        y = x.copy()
        y.setflags(write=False)
        return y
    if form in ("tsindex", "t_attr"):
        # another object's index / .t: seconds by construction, sorted by construction
        if u != "s" or ks != sorted(ks) or not len(ks):
            return None
        o = nap.Ts(t=_cd(ks))
        return o.index if form == "tsindex" else o.t
    if any(k % IPER[u] for k in ks):
        return None
    ns = [k // IPER[u] for k in ks]
    if form == "list_int":
        return [int(n) for n in ns]
    dt = np.dtype(form)
    if len(ns) and not (np.iinfo(dt).min <= min(ns) and max(ns) <= np.iinfo(dt).max):
        return None
    return np.asarray(ns, dtype=dt)


_WD_FLAGS = [(False, False)]          # the (suppress_conversion_warnings, suppress_time_index_sorting_warnings) setting under which the calls under test run


def _outcome(f, flags=None):
    """canonical result or ("EXC", type name); runs under the data set's suppress_* setting unless `flags` is given (references: both flags off)"""
    cfg = _nap().nap_config
    f1, f2 = _WD_FLAGS[0] if flags is None else flags
    cfg.suppress_conversion_warnings, cfg.suppress_time_index_sorting_warnings = f1, f2
    try:
        return canon(f()), None
    except Exception as ex:           # noqa: BLE001
        return ("EXC", type(ex).__name__), ex
    finally:
        cfg.suppress_conversion_warnings, cfg.suppress_time_index_sorting_warnings = False, False


def _is_exc(o):
    return isinstance(o, tuple) and len(o) == 2 and o[0] == "EXC"


def _tname(v):
    return type(v).__name__ + ("0d" if isinstance(v, np.ndarray) else "")


def wd_invoke(fn, sig, given, style):
    """call fn with the `given` arguments (name -> value) in one of the call styles; `sig` = the DOCUMENTED ordered parameters [(name, default)]"""
    names = [n for n, _ in sig]
    if style in ("kw", "twice"):
        return fn(**given)
    if style == "kw_all":             # every parameter by keyword, the documented defaults (None included) spelled out, in reverse order
        full = {n: given.get(n, dflt) for n, dflt in sig if n in given or dflt is not REQ}
        return fn(**dict(reversed(list(full.items()))))
    last = max(names.index(n) for n in given)
    if style == "pos":                # positional up to the last given parameter, the documented defaults spelled out on the way
        return fn(*[given.get(n, dflt) for n, dflt in sig[:last + 1]])
    if style == "mixed":              # required parameters positional, the rest by keyword
        nreq = len([1 for _, dflt in sig if dflt is REQ])
        return fn(*[given[n] for n in names[:nreq]], **{n: v for n, v in given.items() if n not in names[:nreq]})
    raise ValueError(style)


# ---- receivers --------------------------------------------------------------------------
def wd_data(nap, rng, tmpdir):
    """one data set: instants (integer microseconds) and every receiver / argument object built from them in seconds"""
    origin = rng.choice(WD_ORIGINS)
    offs = set(rng.sample(range(0, 4_000_001, 250_000), 5)) | set(rng.sample(range(0, 4_000_001, 1_000_000), 2)) | set(rng.sample(range(1, 4_000_000), 5))
    t = sorted(origin + o for o in offs)
    n = len(t)
    D = {"origin": origin, "t": t}
    bounds = sorted(set(rng.sample(range(-500_000, 4_500_001, 250_000), 4)) | {t[2] - origin, t[-3] - origin})           # two bounds ON samples
    bounds = bounds[:len(bounds) - len(bounds) % 2]                                                                     # 2 or 3 intervals
    s, e = [origin + b for b in bounds[0::2]], [origin + b for b in bounds[1::2]]
    D["s"], D["e"] = s, e
    R = {}
    iset = lambda ss, ee, **kw: nap.IntervalSet(start=_cd(ss), end=_cd(ee), **kw)
    wide = iset([origin - 10**6], [origin + 6 * 10**6])
    D["wide_us"] = [(origin - 10**6, origin + 6 * 10**6)]
    R["ep"] = iset(s, e)
    R["ep_wide"] = wide
    R["ep_empty"] = iset([], [])
    R["ep_one"] = iset(s[:1], e[-1:])
    many = sorted(origin + o for o in rng.sample(range(-500_000, 4_500_000, 50_000), 16))
    R["ep_many"] = iset(many[0::2], many[1::2])
    R["ep_meta"] = iset(s, e, metadata={"lab": ["x", "y", "x"][:len(s)], "w": [3, 1, 2][:len(s)]})
    R["ep_sparse"] = iset([t[0] - 10, t[3] + 1, t[5]], [t[0] + 10, t[4] - 1, t[5] + 1])              # intervals holding one, zero, one sample
    R["ep_touch"] = iset([t[1], t[4]], [t[3], t[-1]])                                                 # every bound on a sample
    R["ep_sliced"] = R["ep"][[0, len(s) - 1]]
    R["ep_setop"] = R["ep"].union(R["ep_sparse"]).intersect(wide)
    p = os.path.join(tmpdir, "ep.npz")
    R["ep_meta"].save(p)
    R["ep_loaded"] = nap.load_file(p)
    EPS = ["ep", "ep_empty", "ep_one", "ep_many", "ep_meta", "ep_sparse", "ep_touch", "ep_sliced", "ep_setop", "ep_loaded", "ep_wide"]

    ts_ = lambda ks, **kw: nap.Ts(t=_cd(ks), **kw)
    v = np.asarray([rng.randrange(0, 100) for _ in range(n)], dtype=np.float64)
    R["ts"] = ts_(t, time_support=wide)
    R["ts_dup"] = ts_(sorted(t + [t[2], t[2], t[-1]]), time_support=wide)
    R["ts_one"] = ts_(t[3:4], time_support=wide)
    R["ts_same"] = ts_([t[3]] * 4, time_support=wide)
    R["ts_empty"] = ts_([], time_support=wide)
    R["ts_restricted"] = R["ts"].restrict(R["ep"])
    R["ts_default"] = ts_(t)
    R["ts_sliced"] = R["ts"][1:-1]
    R["ts_from_tsd"] = nap.Ts(t=nap.Tsd(t=_cd(t), d=v).index, time_support=wide)
    p = os.path.join(tmpdir, "ts.npz")
    R["ts"].save(p)
    R["ts_loaded"] = nap.load_file(p)
    TSS = ["ts", "ts_dup", "ts_one", "ts_same", "ts_empty", "ts_restricted", "ts_default", "ts_sliced", "ts_from_tsd", "ts_loaded"]

    tsd_ = lambda ks, d, **kw: nap.Tsd(t=_cd(ks), d=d, **kw)
    R["tsd"] = tsd_(t, v, time_support=wide)
    for dt in ("float32", "int64", "int16", "uint8", "bool"):            # (every further dtype costs one numba specialisation per kernel; the constructors below take all of them)
        R["tsd_" + dt] = tsd_(t, v.astype(dt), time_support=wide)
    sp = v.copy()
    sp[[1, 4, 6]] = [np.nan, np.inf, -np.inf]
    R["tsd_special"] = tsd_(t, sp, time_support=wide)
    R["tsd_const"] = tsd_(t, np.full(n, 7.0), time_support=wide)
    R["tsd_zero"] = tsd_(t, np.zeros(n), time_support=wide)
    R["tsd_empty"] = tsd_([], np.array([]), time_support=wide)
    R["tsd_one"] = tsd_(t[3:4], v[3:4], time_support=wide)
    R["tsd_same"] = tsd_([t[3]] * 3, v[:3], time_support=wide)
    R["tsd_dup"] = tsd_(sorted(t + [t[2], t[-1]]), np.arange(n + 2.0), time_support=wide)
    R["tsd_sliced"] = R["tsd"][2:-1]
    R["tsd_fancy"] = R["tsd"][[0, 2, 3, n - 1]]
    R["tsd_get"] = R["tsd"].get(float(_cd([t[1]])[0]), float(_cd([t[-2]])[0]))
    R["tsd_arith"] = R["tsd"] * 2 + 1
    R["tsd_npfunc"] = np.sqrt(np.abs(R["tsd"] - 50))
    R["tsd_restricted"] = R["tsd"].restrict(R["ep"])
    R["tsd_default"] = tsd_(t, v)
    R["tsd_shared"] = nap.Tsd(t=_cd(t), d=_cd(t), time_support=wide)
    a = _cd(t)
    R["tsd_samebuf"] = nap.Tsd(t=a, d=a, time_support=wide)                                         # t and d are the same array
    p = os.path.join(tmpdir, "tsd.npz")
    R["tsd"].save(p)
    R["tsd_loaded"] = nap.load_file(p)
    TSDS = [k for k in R if k.startswith("tsd")]

    v2 = np.asarray([[rng.randrange(0, 100) for _ in range(2)] for _ in range(n)], dtype=np.float64)
    fr_ = lambda ks, d, **kw: nap.TsdFrame(t=_cd(ks), d=d, **kw)
    R["frame"] = fr_(t, v2, time_support=wide)
    R["frame_str"] = fr_(t, v2, time_support=wide, columns=["b", "a"])
    R["frame_int"] = fr_(t, v2, time_support=wide, columns=[7, 3])
    R["frame_int16"] = fr_(t, v2.astype(np.int16), time_support=wide, columns=[7, 3])
    R["frame_uint8"] = fr_(t, v2.astype(np.uint8), time_support=wide)
    sp2 = v2.copy()
    sp2[1, 0], sp2[4, 0], sp2[4, 1], sp2[6, 1] = np.nan, np.inf, -np.inf, np.inf
    R["frame_special"] = fr_(t, sp2, time_support=wide, columns=["b", "a"])
    R["frame_empty"] = fr_([], np.empty((0, 2)), time_support=wide)
    R["frame_meta"] = fr_(t, v2, time_support=wide, columns=["b", "a"], metadata={"area": ["p", "q"]})
    R["frame_onecol"] = R["frame_str"].loc[["a"]]
    R["frame_restricted"] = R["frame_int"].restrict(R["ep"])
    R["frame_default"] = fr_(t, v2)
    p = os.path.join(tmpdir, "frame.npz")
    R["frame_str"].save(p)
    R["frame_loaded"] = nap.load_file(p)
    FRAMES = [k for k in R if k.startswith("frame")]

    v3 = np.arange(4.0 * n).reshape(n, 2, 2)
    R["tensor"] = nap.TsdTensor(t=_cd(t), d=v3, time_support=wide)
    R["tensor_uint8"] = nap.TsdTensor(t=_cd(t), d=v3.astype(np.uint8), time_support=wide)
    R["tensor_empty"] = nap.TsdTensor(t=_cd([]), d=np.empty((0, 2, 2)), time_support=wide)
    R["tensor_restricted"] = R["tensor"].restrict(R["ep"])
    TENSORS = [k for k in R if k.startswith("tensor")]

    # regularly sampled signals (200 Hz, 2 s)
    reg_t = [origin + 5000 * k for k in range(400)]
    sig = np.round(50 * np.sin(np.arange(400) / 7.0))
    reg_ = lambda d, **kw: nap.Tsd(t=_cd(reg_t), d=d, **kw)
    R["reg"] = reg_(sig, time_support=wide)
    R["reg_own"] = reg_(sig)
    R["reg_float32"] = reg_(sig.astype(np.float32), time_support=wide)
    R["reg_int16"] = reg_(sig.astype(np.int16), time_support=wide)                                    # integer signal, non-integer kernel
    R["reg_int64"] = reg_(sig.astype(np.int64), time_support=wide)
    R["reg_uint8"] = reg_((sig + 60).astype(np.uint8), time_support=wide)
    sps = sig.copy()
    sps[[20, 100, 250]] = [np.nan, np.inf, -np.inf]
    R["reg_special"] = reg_(sps, time_support=wide)
    R["reg_const"] = reg_(np.full(400, 3.0), time_support=wide)
    two = iset([reg_t[0], reg_t[220]], [reg_t[180], reg_t[-1]])
    R["reg_two"] = R["reg"].restrict(two)
    R["regf"] = nap.TsdFrame(t=_cd(reg_t), d=np.stack([sig, np.round(30 * np.cos(np.arange(400) / 5.0))], 1), time_support=wide, columns=["b", "a"])
    R["regf_own"] = nap.TsdFrame(t=_cd(reg_t), d=np.stack([sig, np.round(30 * np.cos(np.arange(400) / 5.0))], 1), columns=[7, 3])
    R["regf_int16"] = nap.TsdFrame(t=_cd(reg_t), d=np.stack([sig, sig[::-1]], 1).astype(np.int16), time_support=wide)
    R["regt"] = nap.TsdTensor(t=_cd(reg_t), d=np.stack([sig, -sig, sig + 1, sig * 2], 1).reshape(400, 2, 2), time_support=wide)
    R["reg_arith"] = R["reg"] * 0.5 - 1
    p = os.path.join(tmpdir, "reg.npz")
    R["reg"].save(p)
    R["reg_loaded"] = nap.load_file(p)
    R["ep_reg"] = iset([reg_t[0]], [reg_t[-1]])
    R["ep_reg_two"] = two
    REGS1 = ["reg", "reg_float32", "reg_int16", "reg_int64", "reg_uint8", "reg_special", "reg_const", "reg_two", "reg_arith", "reg_loaded"]
    REGS = REGS1 + ["regf", "regf_int16", "regt"]

    # groups
    m1, m4 = t, t[::2]
    g_ = lambda data, **kw: nap.TsGroup(data, **kw)
    R["grp"] = g_({1: ts_(m1), 4: ts_(m4)}, time_support=wide)
    R["grp_str"] = g_({"12": ts_(m1), "3": ts_(m4)}, time_support=wide)                                # multi-digit string keys, stored as 3, 12
    R["grp_float"] = g_({2.0: ts_(m1), 9.0: ts_(m4)}, time_support=wide)
    R["grp_unsorted"] = g_({7: ts_(m1), 2: ts_(m4), 5: ts_(t[1::3])}, time_support=wide)
    R["grp_empty"] = g_({}, time_support=wide)
    R["grp_emptymember"] = g_({2: ts_([]), 5: ts_(m1), 6: ts_([])}, time_support=wide)
    R["grp_allempty"] = g_({2: ts_([]), 5: ts_([])}, time_support=wide)
    R["grp_one"] = g_({3: ts_(m1)}, time_support=wide)
    R["grp_bypass"] = g_({1: ts_(m1, time_support=wide), 4: ts_(m4, time_support=wide)}, time_support=wide, bypass_check=True)
    R["grp_meta"] = g_({1: ts_(m1), 4: ts_(m4)}, time_support=wide, metadata={"lab": ["x", "y"], "w": [3.5, 1.5]})
    R["grp_list"] = g_([ts_(m1), ts_(m4)], time_support=wide)
    R["grp_tsd"] = g_({1: tsd_(m1, v), 4: tsd_(m4, v[::2])}, time_support=wide)
    R["grp_default"] = g_({1: ts_(m1), 4: ts_(m4)})
    R["grp_sliced"] = R["grp_unsorted"][[7, 5]]
    R["grp_restricted"] = R["grp"].restrict(R["ep"])
    R["grp_dup"] = g_({1: ts_(sorted(m1 + [m1[2], m1[2]])), 4: ts_([m4[0]] * 3)}, time_support=wide)
    p = os.path.join(tmpdir, "grp.npz")
    R["grp_meta"].save(p)
    R["grp_loaded"] = nap.load_file(p)
    GRPS = [k for k in R if k.startswith("grp")]
    D.update(R=R, EPS=EPS, TSS=TSS, TSDS=TSDS, FRAMES=FRAMES, TENSORS=TENSORS, REGS=REGS, REGS1=REGS1, GRPS=GRPS, v=v, v2=v2, v3=v3, reg_t=reg_t)
    return D


# ---- the unit-accepting operations, their DOCUMENTED parameter order, and the option sets ----
def wd_ops(nap, D, rng):
    """op -> dict(fn(recv) -> callable, sig, unit, tpar (time-valued parameters), recv (receiver names), opts (name -> given arguments, times in integer us))"""
    R, t, o = D["R"], D["t"], D["origin"]
    nan = np.nan
    bins = [250_000, 500_000, 1_000_000, 2_000_000, 333_333, 100_000]
    b = lambda: rng.choice(bins)
    ep = lambda: R[rng.choice(D["EPS"])]
    gaps = sorted({t[i + 1] - t[i] for i in range(len(t) - 1)})
    durs = [e_ - s_ for s_, e_ in zip(D["s"], D["e"])]
    egaps = [D["s"][i + 1] - D["e"][i] for i in range(len(D["s"]) - 1)]
    inner = lambda: o + rng.choice([0, 250_000, 1_000_000, 1_500_000, 2_000_000, 3_000_000, 4_000_000, -250_000, 123_457])
    pair = lambda: tuple(sorted((inner(), inner())))
    TS_ALL = D["TSS"] + D["TSDS"] + D["FRAMES"] + D["TENSORS"]
    TSD_ALL = D["TSDS"] + D["FRAMES"] + D["TENSORS"]
    OPS = {}

    def count_opts():
        return {"b": {"bin_size": b()}, "b_ep": {"bin_size": b(), "ep": ep()}, "b_ep_int32": {"bin_size": b(), "ep": ep(), "dtype": np.int32}, "b_float": {"bin_size": b(), "dtype": float},
                "b_ep_strdtype": {"bin_size": b(), "ep": ep(), "dtype": "int16"}, "b_ep_uint8": {"bin_size": b(), "ep": R["ep_touch"], "dtype": np.uint8}, "b_whole": {"bin_size": 1_000_000, "ep": R["ep_wide"]}}
    OPS["count"] = dict(fn=lambda r: r.count, sig=[("bin_size", None), ("ep", None), ("time_units", "s"), ("dtype", None)], unit="time_units", tpar=("bin_size",), recv=TS_ALL, opts=count_opts())
    OPS["TsGroup.count"] = dict(fn=lambda r: r.count, sig=[("bin_size", None), ("ep", None), ("time_units", "s"), ("dtype", None)], unit="time_units", tpar=("bin_size",), recv=D["GRPS"], opts=count_opts())
    OPS["bin_average"] = dict(fn=lambda r: r.bin_average, sig=[("bin_size", REQ), ("ep", None), ("time_units", "s")], unit="time_units", tpar=("bin_size",), recv=TSD_ALL + D["REGS"],
                              opts={"b": {"bin_size": b()}, "b_ep": {"bin_size": b(), "ep": ep()}, "b_touch": {"bin_size": b(), "ep": R["ep_touch"]}, "b_whole": {"bin_size": 1_000_000, "ep": R["ep_wide"]}})
    on = lambda: rng.choice(t)
    get_opts = lambda: {"closest": {"start": inner()}, "closest_on_sample": {"start": on()}, "range": dict(zip(("start", "end"), pair())), "range_on_samples": dict(zip(("start", "end"), sorted((on(), on())))),
                        "point": {"start": t[3], "end": t[3]}, "outside_left": {"start": o - 900_000, "end": o - 500_000}, "outside_right": {"start": o + 4_500_000, "end": o + 5_000_000},
                        "whole": {"start": o, "end": o + 4_000_000}, "closest_far": {"start": o + 5_000_000}}
    OPS["get"] = dict(fn=lambda r: r.get, sig=[("start", REQ), ("end", None), ("time_units", "s")], unit="time_units", tpar=("start", "end"), recv=TS_ALL, opts=get_opts())
    OPS["get_slice"] = dict(fn=lambda r: r.get_slice, sig=[("start", REQ), ("end", None), ("time_unit", "s")], unit="time_unit", tpar=("start", "end"), recv=TS_ALL, opts=get_opts())
    OPS["TsGroup.get"] = dict(fn=lambda r: r.get, sig=[("start", REQ), ("end", None), ("time_units", "s")], unit="time_units", tpar=("start", "end"), recv=D["GRPS"], opts=get_opts())
    OPS["find_support"] = dict(fn=lambda r: r.find_support, sig=[("min_gap", REQ), ("time_units", "s")], unit="time_units", tpar=("min_gap",), recv=TS_ALL + ["reg", "reg_two"],
                               opts={"gap": {"min_gap": rng.choice([250_000, 500_000, 1_000_000])}, "gap_equal": {"min_gap": rng.choice(gaps)}, "gap_equal_min": {"min_gap": gaps[0]}, "gap_max": {"min_gap": gaps[-1]},
                                     "gap_5ms": {"min_gap": 5000}})
    OPS["smooth"] = dict(fn=lambda r: r.smooth, sig=[("std", REQ), ("windowsize", None), ("time_units", "s"), ("size_factor", 100), ("norm", True)], unit="time_units", tpar=("std", "windowsize"), recv=D["REGS"],
                         opts={"std": {"std": 10_000}, "std_w": {"std": 25_000, "windowsize": 150_000}, "std_nonorm": {"std": 10_000, "norm": False}, "std_factor": {"std": 25_000, "size_factor": 10},
                               "all": {"std": 15_000, "windowsize": 100_000, "size_factor": 7, "norm": False}, "std_w_whole": {"std": 1_000_000, "windowsize": 2_000_000, "norm": False}})
    thr = lambda: {"thr": {"threshold": rng.choice([250_000, 500_000, 1_000_000, 1_234_567])}, "thr_equal": {"threshold": rng.choice(durs)}, "thr_gap_equal": {"threshold": rng.choice(egaps)}, "thr_tiny": {"threshold": 1},
                   "thr_huge": {"threshold": 100_000_000}}
    ISETS = [k for k in D["EPS"]]
    for nm, meth in (("drop_short", "drop_short_intervals"), ("drop_long", "drop_long_intervals"), ("merge_close", "merge_close_intervals")):
        OPS[nm] = dict(fn=(lambda meth: (lambda r: getattr(r, meth)))(meth), sig=[("threshold", REQ), ("time_units", "s")], unit="time_units", tpar=("threshold",), recv=ISETS, opts=thr())
    OPS["split"] = dict(fn=lambda r: r.split, sig=[("interval_size", REQ), ("time_units", "s")], unit="time_units", tpar=("interval_size",), recv=ISETS,
                        opts={"size": {"interval_size": b()}, "size_equal": {"interval_size": rng.choice(durs)}, "size_quarter": {"interval_size": 250_000}, "size_whole": {"interval_size": 1_000_000}})
    tc_opts = lambda: {"b": {"ep": R["ep"], "bin_size": b()}, "end": {"ep": R["ep"], "bin_size": b(), "align": "end"}, "pad0": {"ep": ep(), "bin_size": b(), "padding_value": 0.0},
                       "end_pad": {"ep": R["ep_touch"], "bin_size": b(), "align": "end", "padding_value": -1}, "one": {"ep": R["ep_one"], "bin_size": 1_000_000}, "many": {"ep": R["ep_many"], "bin_size": 250_000, "align": "end"}}
    tc_sig = [("ep", REQ), ("bin_size", REQ), ("align", "start"), ("padding_value", nan), ("time_unit", "s")]
    OPS["trial_count"] = dict(fn=lambda r: r.trial_count, sig=tc_sig, unit="time_unit", tpar=("bin_size",), recv=D["TSS"], opts=tc_opts())
    OPS["TsGroup.trial_count"] = dict(fn=lambda r: r.trial_count, sig=tc_sig, unit="time_unit", tpar=("bin_size",), recv=D["GRPS"], opts=tc_opts())
    OPS["build_tensor"] = dict(fn=lambda r: nap.build_tensor, first="input", sig=[("input", REQ), ("ep", REQ), ("bin_size", None), ("align", "start"), ("padding_value", nan), ("time_unit", "s")], unit="time_unit",
                               tpar=("bin_size",), recv=D["GRPS"] + D["TSS"], opts=tc_opts())
    cw = lambda: rng.choice([(50_000, 500_000), (100_000, 1_000_000), (250_000, 1_000_000), (500_000, 2_000_000)])
    cc = lambda **kw: dict(zip(("binsize", "windowsize"), cw()), **kw)
    OPS["autocorr"] = dict(fn=lambda r: nap.compute_autocorrelogram, first="group", sig=[("group", REQ), ("binsize", REQ), ("windowsize", REQ), ("ep", None), ("norm", True), ("time_units", "s")], unit="time_units",
                           tpar=("binsize", "windowsize"), recv=D["GRPS"], opts={"bw": cc(), "ep": cc(ep=R["ep"]), "nonorm": cc(norm=False), "ep_nonorm": cc(ep=R["ep_touch"], norm=False)})
    OPS["crosscorr"] = dict(fn=lambda r: nap.compute_crosscorrelogram, first="group", sig=[("group", REQ), ("binsize", REQ), ("windowsize", REQ), ("ep", None), ("norm", True), ("time_units", "s"), ("reverse", False)],
                            unit="time_units", tpar=("binsize", "windowsize"), recv=D["GRPS"] + ["PAIR_tuple", "PAIR_list"],
                            opts={"bw": cc(), "ep": cc(ep=R["ep"]), "nonorm": cc(norm=False), "reverse": cc(reverse=True), "all": cc(ep=R["ep_touch"], norm=False, reverse=True)})
    R["PAIR_tuple"] = (R["grp"], R["grp_unsorted"])
    R["PAIR_list"] = [R["grp_str"], R["grp_emptymember"]]
    ev = lambda: R[rng.choice(["ts", "ts_dup", "tsd", "ts_restricted", "ts_one", "ts_empty"])]
    OPS["eventcorr"] = dict(fn=lambda r: nap.compute_eventcorrelogram, first="group", sig=[("group", REQ), ("event", REQ), ("binsize", REQ), ("windowsize", REQ), ("ep", None), ("norm", True), ("time_units", "s")],
                            unit="time_units", tpar=("binsize", "windowsize"), recv=D["GRPS"], opts={"bw": cc(event=ev()), "ep": cc(event=ev(), ep=R["ep"]), "nonorm": cc(event=ev(), norm=False), "ep_nonorm": cc(event=ev(), ep=R["ep_wide"], norm=False)})
    ref = lambda: R[rng.choice(["ts_sliced", "ts_one", "tsd_fancy", "ts_restricted", "frame_onecol", "ts_empty"])]
    dgap = t[5] - t[2]
    mm = lambda: {"scalar": {"tref": ref(), "minmax": rng.choice([250_000, 500_000, 1_000_000])}, "tuple": {"tref": ref(), "minmax": (-rng.choice([250_000, 500_000]), rng.choice([250_000, 1_000_000]))},
                  "tuple_pos": {"tref": ref(), "minmax": (500_000, 1_000_000)}, "edge": {"tref": R["ts"][2:3], "minmax": (dgap, dgap)}, "edge_scalar": {"tref": R["ts"][5:6], "minmax": dgap}, "uneven": {"tref": ref(), "minmax": (-100_000, 2_000_000)}}
    OPS["perievent"] = dict(fn=lambda r: nap.compute_perievent, first="timestamps", sig=[("timestamps", REQ), ("tref", REQ), ("minmax", REQ), ("time_unit", "s")], unit="time_unit", tpar=("minmax",),
                            recv=["ts", "ts_dup", "ts_empty", "ts_one", "tsd", "tsd_uint8", "tsd_special", "frame_str", "tensor", "ts_restricted", "ts_loaded"] + D["GRPS"], opts=mm())
    pc = lambda: {"scalar": {"tref": ref(), "minmax": rng.choice([20_000, 50_000, 1_000_000])}, "tuple": {"tref": ref(), "minmax": (-20_000, 50_000)}, "tuple_pos": {"tref": ref(), "minmax": (25_000, 25_000)},
                  "ep": {"tref": ref(), "minmax": (20_000, 20_000), "ep": R["ep"]}, "ep_scalar": {"tref": R["ts"], "minmax": 50_000, "ep": R["ep_reg_two"]}, "whole": {"tref": ref(), "minmax": (1_000_000, 1_000_000), "ep": R["ep_wide"]}}
    OPS["perievent_cont"] = dict(fn=lambda r: nap.compute_perievent_continuous, first="timeseries", sig=[("timeseries", REQ), ("tref", REQ), ("minmax", REQ), ("ep", None), ("time_unit", "s")], unit="time_unit", tpar=("minmax",),
                                 recv=D["REGS"] + ["tsd", "tsd_one", "tsd_same", "tsd_empty"], opts=pc())
    feat = lambda: R[rng.choice(D["REGS"])]
    OPS["eta"] = dict(fn=lambda r: nap.compute_event_trigger_average, first="group", sig=[("group", REQ), ("feature", REQ), ("binsize", REQ), ("windowsize", REQ), ("ep", None), ("time_unit", "s")], unit="time_unit",
                      tpar=("binsize", "windowsize"), recv=D["GRPS"],
                      opts={"scalar": {"feature": feat(), "binsize": 5000, "windowsize": rng.choice([20_000, 50_000])}, "tuple": {"feature": feat(), "binsize": 5000, "windowsize": (20_000, 40_000)},
                            "ep": {"feature": feat(), "binsize": 10_000, "windowsize": (20_000, 20_000), "ep": R["ep"]}, "ep_scalar": {"feature": feat(), "binsize": 5000, "windowsize": 25_000, "ep": R["ep_reg_two"]},
                            "coarse": {"feature": feat(), "binsize": 250_000, "windowsize": (250_000, 500_000), "ep": R["ep_wide"]}})

    def tc1(g):
        keys = list(g.keys()) if not isinstance(g, nap.TsdFrame) else list(g.columns)
        vals = np.array([[1.0, 3.0, 2.5], [5.0, 2.0, 0.5], [2.0, 7.0, 1.5]])
        return pd.DataFrame(vals[:, :len(keys)] if len(keys) <= 3 else np.ones((3, len(keys))), index=np.array([10.0, 50.0, 90.0]), columns=keys)

    def tc2(g):
        keys = list(g.keys()) if not isinstance(g, nap.TsdFrame) else list(g.columns)
        return {k: np.array([[1.0, 3.0], [5.0, 2.0]]) + i for i, k in enumerate(keys)}
    D["tc1"], D["tc2"] = tc1, tc2
    R["CNT_frame"] = R["grp"].count(0.05, R["ep_wide"])
    R["CNT_frame_unsorted"] = R["grp_unsorted"].count(0.05, R["ep_wide"], dtype=np.int16)
    R["DICT_ts"] = {1: R["grp"][1], 4: R["grp"][4]}
    R["DICT_arrays"] = {1: R["grp"][1], 4: R["tsd"]}
    DEC = [g for g in D["GRPS"] if g not in ("grp_empty",)] + ["CNT_frame", "CNT_frame_unsorted", "DICT_ts", "DICT_arrays"]
    db = lambda: rng.choice([200_000, 250_000, 500_000, 1_000_000])
    OPS["decode_1d"] = dict(fn=lambda r: nap.decode_1d, first="group", tc="tuning_curves", sig=[("tuning_curves", REQ), ("group", REQ), ("ep", REQ), ("bin_size", REQ), ("time_units", "s"), ("feature", None)], unit="time_units",
                            tpar=("bin_size",), recv=DEC, opts={"b": {"ep": R["ep"], "bin_size": db()}, "feature": {"ep": R["ep"], "bin_size": db(), "feature": R["tsd"]}, "wide": {"ep": R["ep_wide"], "bin_size": db()},
                                                                "touch_feature": {"ep": R["ep_touch"], "bin_size": db(), "feature": R["tsd_restricted"]}})
    xy = (np.array([0.5, 1.5]), np.array([0.25, 0.75]))
    OPS["decode_2d"] = dict(fn=lambda r: nap.decode_2d, first="group", tc="tuning_curves", sig=[("tuning_curves", REQ), ("group", REQ), ("ep", REQ), ("bin_size", REQ), ("xy", REQ), ("time_units", "s"), ("features", None)],
                            unit="time_units", tpar=("bin_size",), recv=DEC, opts={"b": {"ep": R["ep"], "bin_size": db(), "xy": xy}, "features": {"ep": R["ep"], "bin_size": db(), "xy": xy, "features": R["frame_str"] / 100.0},
                                                                                   "wide": {"ep": R["ep_wide"], "bin_size": db(), "xy": xy}})
    seg = lambda: rng.choice([250_000, 300_000, 500_000, 1_000_000])
    OPS["mean_psd"] = dict(fn=lambda r: nap.compute_mean_power_spectral_density, first="sig", sig=[("sig", REQ), ("interval_size", REQ), ("fs", None), ("overlap", 0.25), ("ep", None), ("full_range", False), ("time_unit", "s")],
                           unit="time_unit", tpar=("interval_size",), recv=["reg_own", "regf_own", "reg", "reg_int16", "reg_float32", "reg_two", "reg_loaded", "regf"],
                           opts={"seg": {"interval_size": seg()}, "ep": {"interval_size": seg(), "ep": R["ep_reg"]}, "fs": {"interval_size": seg(), "fs": 200.0, "ep": R["ep_reg"]}, "overlap": {"interval_size": seg(), "overlap": 0.5, "ep": R["ep_reg_two"]},
                                 "full": {"interval_size": seg(), "full_range": True, "ep": R["ep_reg"]}, "all": {"interval_size": seg(), "fs": 100.0, "overlap": 0.0, "ep": R["ep_reg_two"], "full_range": True}})
    return OPS


def wd_sweep(nap, res, D, OPS, rng, seed, ds, tier):
    """one-axis-at-a-time sweep: for every operation and every value of every axis (scalar form, call style, receiver, option set) one case with the other axes drawn at random, evaluated in s, ms and us and
    compared with the reference call (Python floats in seconds, keywords) on the same receiver and options"""
    refs = {}
    heavy = {"decode_1d", "decode_2d", "mean_psd", "eta", "TsGroup.trial_count", "build_tensor"}
    for op, sp in OPS.items():
        axes = {"form": list(SCALAR_FORMS), "style": list(STYLES), "recv": list(sp["recv"]), "opt": list(sp["opts"])}
        if tier == "quick" and op in heavy:           # the slow entry points: a seeded half of each axis per run
            axes = {a: [v for i, v in enumerate(vs) if (i + seed + ds) % 2 == 0 or len(vs) < 3] for a, vs in axes.items()}
        reps = (1 if op in heavy or ds else 2) if tier == "quick" else 3
        for ax in ("form", "style", "recv", "opt"):
            for val in axes[ax] * reps:
                ch = {a: rng.choice(axes[a]) for a in axes}
                ch[ax] = val
                wd_case(nap, res, D, op, sp, ch, refs, seed, ds, ax)


def wd_case(nap, res, D, op, sp, ch, refs, seed, ds, ax):
    R = D["R"]
    recv, form, style, optn = R[ch["recv"]], ch["form"], ch["style"], ch["opt"]
    given_us = dict(sp["opts"][optn])
    if sp.get("first"):
        given_us[sp["first"]] = recv
    if sp.get("tc"):
        given_us[sp["tc"]] = D["tc1"](recv) if op == "decode_1d" else D["tc2"](recv)
    fn = sp["fn"](recv)

    def conv(u, form):
        given, types = {}, []
        for n, v in given_us.items():
            if n in sp["tpar"] and v is not None:
                one = lambda k: (lambda s_: s_ if s_ is not None else float(k / PER[u]))(scalar_form(k, u, form))
                given[n] = tuple(one(k) for k in v) if isinstance(v, tuple) else one(v)
                types += [_tname(x) for x in (given[n] if isinstance(v, tuple) else (given[n],))]
            else:
                given[n] = v
        given[sp["unit"]] = u
        return given, tuple(types)

    rk = (op, ch["recv"], optn)
    if rk not in refs:
        g0, _ = conv("s", "float")
        refs[rk] = _outcome(lambda: wd_invoke(fn, sp["sig"], g0, "kw"), flags=(False, False))[0]
    ref = refs[rk]
    res.count("wd_op=" + op)
    res.count("wd_scalar_form=" + form)
    res.count("wd_style=" + style)
    res.count("wd_recv=" + ch["recv"])
    seen = {}
    for u in ("s", "ms", "us"):
        given, types = conv(u, form)
        documented = all(tn in DOCUMENTED_SCALARS for tn in types)
        if form not in ("float",) and all(tn == "float" for tn in types):
            res.count("wd_form_not_exact_in_unit")          # the form cannot hold these instants in this unit: nothing new to call
            continue
        out, ex = _outcome(lambda: wd_invoke(fn, sp["sig"], given, style))
        if style == "twice":              # the same live receiver (and argument objects) used a second time
            out2, _ = _outcome(lambda: wd_invoke(fn, sp["sig"], given, style))
            if out2 != out:
                res.violations.append({"key": {"op": op, "part": "same_object_twice", "unit": u}, "what": "the second identical call on the same live object gives another result",
                                       "input": {"wd": [seed, ds], "op": op, "choice": ch, "types": types}})
        res.case(("wd", op, ax, ch[ax], ds, u), nontrivial=not _is_exc(out))
        if u == "s" and style == "kw":    # seconds are the default unit: leaving the unit out is the same call
            g2 = {n: v for n, v in given.items() if n != sp["unit"]}
            out3, _ = _outcome(lambda: wd_invoke(fn, sp["sig"], g2, "kw"))
            if out3 != out:
                res.violations.append({"key": {"op": op, "part": "default_unit_is_seconds"}, "what": "omitting the unit differs from passing 's'", "input": {"wd": [seed, ds], "op": op, "choice": ch, "types": types}})
        seen.setdefault(types, []).append((u, _is_exc(out)))
        if out == ref:
            continue
        if not documented and _is_exc(out) and isinstance(ex, CLEAN):
            res.count("wd_undocumented_form_rejected")      # e.g. count(np.int64(..)): "bin_size should be float or int"
            continue
        trig = {"unsigned_scalar": any(tn.startswith("uint") for tn in types), "numpy_int_scalar": any(tn.startswith("int") and tn != "int" for tn in types), "float32_scalar": "float32" in types,
                "zero_dim_array": any(tn.endswith("0d") for tn in types), "tuple_window": any(isinstance(given_us.get(n), tuple) for n in sp["tpar"])}
        res.violations.append({"key": dict({"op": op, "part": "form_equivariance", "documented_scalar_types": documented, "raises": _is_exc(out)}, **trig),
                               "what": "the call in %s (form %s, style %s) differs from the reference call in seconds on the same receiver" % (u, form, style),
                               "input": {"wd": [seed, ds], "op": op, "choice": ch, "unit": u, "types": types, "given_us": {n: v for n, v in given_us.items() if isinstance(v, (int, tuple))}, "origin_us": D["origin"],
                                         "exception": repr(ex)[:200] if ex is not None else None, "ref_raises": _is_exc(ref)}})
    for types, outs in seen.items():
        if len({r for _, r in outs}) > 1:
            res.violations.append({"key": {"op": op, "part": "form_raises_in_some_units_only"}, "what": "arguments of the same types are rejected in some units and accepted in others",
                                   "input": {"wd": [seed, ds], "op": op, "choice": ch, "types": types, "units": outs}})


# ---- constructors -----------------------------------------------------------------------
def _kept(ks, S):
    return [k for k in sorted(ks) if S is None or any(s_ <= k <= e_ for s_, e_ in S)]


def wd_constructors(nap, res, D, rng, seed, ds, tier):
    """Ts / Tsd / TsdFrame / TsdTensor / IntervalSet / TsGroup built in s, ms, us from every container form, dtype, call style and support option: equal to the same call made in seconds with float64 arrays,
    and (where the statement fixes it) storing exactly the canonical doubles of the instants, sorted, restricted to the support"""
    R, o = D["R"], D["origin"]
    ep_us = list(zip(D["s"], D["e"]))
    supports = {"absent": ("absent", None), "None": (None, None), "ep": (R["ep"], ep_us), "wide": (R["ep_wide"], D["wide_us"])}
    vecs = {"generic": list(D["t"]), "whole_s": sorted(o + 1_000_000 * k for k in rng.sample(range(0, 5), 4)), "quarter_s": sorted(o + 250_000 * k for k in rng.sample(range(0, 17), 6)),
            "dup": sorted(D["t"][:5] + [D["t"][2]] * 2), "whole_ms": sorted(o + 1000 * k for k in rng.sample(range(0, 250), 5)), "tiny_us": sorted(o + k for k in rng.sample(range(0, 256), 5)),
            "empty": [], "one": [D["t"][3]], "same": [D["t"][3]] * 3}
    unsorted = {"generic_rev": list(D["t"])[::-1], "shuffled": rng.sample(D["t"], len(D["t"])), "whole_s_rev": sorted(o + 1_000_000 * k for k in rng.sample(range(0, 5), 4))[::-1],
                "dup_unsorted": [D["t"][4], D["t"][1], D["t"][4], D["t"][0], D["t"][1]]}
    dtypes = ("float64", "float32", "int64", "int32", "int16", "int8", "uint8", "uint16", "uint32", "uint64", "bool", "special", "zeros", "const")
    reps = 1 if tier == "quick" else 3

    def data_for(n, dt, shape):
        base = np.asarray([rng.randrange(0, 100) for _ in range(n * int(np.prod(shape)))], dtype=np.float64).reshape((n,) + shape)
        if dt == "special":
            flat = base.reshape(-1)
            for i, sv in zip(range(0, flat.size, max(1, flat.size // 3)), (np.nan, np.inf, -np.inf)):
                flat[i] = sv
            return base
        if dt == "zeros":
            return np.zeros_like(base)
        if dt == "const":
            return np.full_like(base, 7.0)
        return base.astype(dt)

    def viol(cls, part, what, u, ch, extra=None):
        res.violations.append({"key": {"op": cls, "part": part, "unit": u, "time_form": ch.get("form"), "unsorted": ch.get("vec") in unsorted},
                               "what": what, "input": dict({"wd": [seed, ds], "class": cls, "choice": {k: (v if isinstance(v, (str, int, type(None))) else str(v)) for k, v in ch.items()}, "origin_us": o}, **(extra or {}))})

    # -- time series classes
    CLS = {"Ts": (nap.Ts, [("t", REQ), ("time_units", "s"), ("time_support", None)], None),
           "Tsd": (nap.Tsd, [("t", REQ), ("d", None), ("time_units", "s"), ("time_support", None), ("load_array", True)], ()),
           "TsdFrame": (nap.TsdFrame, [("t", REQ), ("d", None), ("time_units", "s"), ("time_support", None), ("columns", None), ("load_array", True), ("metadata", None)], (2,)),
           "TsdTensor": (nap.TsdTensor, [("t", REQ), ("d", REQ), ("time_units", "s"), ("time_support", None), ("load_array", True)], (2, 2))}
    for cls, (ctor, sig, shape) in CLS.items():
        vnames = list(vecs) + (list(unsorted) if cls == "Ts" else [])
        # Tsd(t=<pandas.Series>, d=...) takes times AND data from the Series (documented alternative form): a Series is not a form of `t` alone there
        axes = {"vec": vnames, "form": [f for f in ARRAY_FORMS if not (cls == "Tsd" and f == "series")] + (["pandas"] if cls in ("Tsd", "TsdFrame") else []) + (["scalar"] if cls == "Ts" else []), "style": ["kw", "kw_all", "pos", "mixed", "twice"],
                "support": list(supports), "dtype": list(dtypes) if shape is not None else ["-"], "extra": ["-"] + (["columns_str", "columns_int", "columns_meta", "d_list", "load_array_False"] if cls == "TsdFrame" else
                                                                                                         ["d_list", "d_tuple", "load_array_False"] if cls == "Tsd" else ["d_list"] if cls == "TsdTensor" else [])}
        for ax in axes:
            for val in axes[ax] * reps:
                ch = {a: rng.choice(axes[a]) for a in axes}
                ch[ax] = val
                if ch["form"] in ("scalar",) and ax != "vec":
                    ch["vec"] = "one"
                if ch["vec"] in ("one", "same", "empty") and ch["support"] in ("absent", "None") and ax != "support":
                    ch["support"] = "wide"            # a single distinct timestamp has an empty default support (known quirk): not what is tested here
                ks = (vecs.get(ch["vec"]) or unsorted.get(ch["vec"]) or [])
                Sobj, Sus = supports[ch["support"]]
                n = len(ks)
                d = data_for(n, ch["dtype"], shape) if shape is not None else None
                dform = d
                if ch["form"] == "pandas" or not n:
                    pass                              # the pandas forms carry the data themselves; an empty nested list has no second dimension
                elif ch["extra"] == "d_list":
                    dform = d.tolist()
                elif ch["extra"] == "d_tuple":
                    dform = tuple(d.tolist())
                kw = {}
                if ch["extra"] == "columns_str":
                    kw["columns"] = ["b", "a"]
                elif ch["extra"] == "columns_int":
                    kw["columns"] = [7, 3]
                elif ch["extra"] == "columns_meta":
                    kw.update(columns=["b", "a"], metadata={"area": ["p", "q"]})
                elif ch["extra"] == "load_array_False":
                    kw["load_array"] = False
                if not isinstance(Sobj, str):
                    kw["time_support"] = Sobj

                def build(u, tform, style, pandas_form=False):
                    given = dict(kw)
                    if pandas_form:
                        x = np.asarray(ks, dtype=np.float64) / PER[u]
                        given["t"] = pd.Series(d, index=x) if cls == "Tsd" else pd.DataFrame(d, index=x, columns=kw.get("columns", [0, 1]))
                        given.pop("columns", None)
                    else:
                        given["t"] = tform
                        if shape is not None:
                            given["d"] = dform
                    given["time_units"] = u
                    return wd_invoke(ctor, sig, given, style)
                ref, _ = _outcome(lambda: build("s", _cd(ks), "kw"), flags=(False, False))
                res.count("wd_ctor=" + cls)
                res.count("wd_time_form=" + ch["form"])
                res.count("wd_vec=" + ch["vec"])
                res.count("wd_support=" + ch["support"])
                if shape is not None:
                    res.count("wd_data_dtype=" + ch["dtype"])
                for u in ("s", "ms", "us"):
                    if ch["form"] == "pandas":
                        tform = "pandas"
                    elif ch["form"] == "scalar":
                        tform = scalar_form(ks[0], u, rng.choice(SCALAR_FORMS)) if n == 1 else None
                        if isinstance(tform, np.ndarray):
                            tform = None              # a 0-d array is not a documented `t`
                    else:
                        tform = array_form(nap, ks, u, ch["form"])
                    if tform is None:
                        res.count("wd_form_not_exact_in_unit")
                        continue
                    out, ex = _outcome(lambda: build(u, tform, ch["style"], pandas_form=ch["form"] == "pandas"))
                    res.case(("wd_ctor", cls, ax, val, ds, u), nontrivial=not _is_exc(out))
                    if ch["style"] == "twice":        # the same input containers used for a second object
                        out2, _ = _outcome(lambda: build(u, tform, "kw", pandas_form=ch["form"] == "pandas"))
                        if out2 != out:
                            viol(cls, "same_object_twice", "building a second object from the same containers gives another result", u, ch)
                    if out != ref:
                        viol(cls, "form_equivariance", "%s built in %s from form %s differs from the same call in seconds with float64 arrays" % (cls, u, ch["form"]), u, ch,
                             {"ks_us": ks, "exception": repr(ex)[:200] if ex is not None else None, "ref_raises": _is_exc(ref)})
                        continue
                    if _is_exc(out):
                        continue
                    # the statement itself: stored = canonical doubles of the instants, sorted, (restricted to the support), values follow their instants, dtype kept
                    obj = build(u, tform, "kw", pandas_form=ch["form"] == "pandas")
                    kept = _kept(ks, Sus)
                    ok = np.array_equal(np.asarray(obj.t), _cd(kept)) and np.asarray(obj.t).dtype == np.float64
                    if ok and Sus is not None:
                        ok = np.array_equal(obj.time_support.values, np.stack([_cd([a for a, _ in Sus]), _cd([b_ for _, b_ in Sus])], 1)) if n else True
                    elif ok and n and min(ks) < max(ks):
                        ok = np.array_equal(obj.time_support.values, np.stack([_cd([min(ks)]), _cd([max(ks)])], 1))
                    if ok and shape is not None and ks == sorted(ks):
                        mask = np.asarray([Sus is None or any(s_ <= k <= e_ for s_, e_ in Sus) for k in ks], dtype=bool)
                        want = np.asarray(dform)[mask] if n else np.asarray(dform).reshape((0,) + shape)      # list / tuple data: numpy's own dtype for that container
                        got = np.asarray(obj.values)
                        ok = got.shape == want.shape and got.dtype == want.dtype and got.tobytes() == want.tobytes()
                    if not ok:
                        viol(cls, "sorted_rounded", "%s(time_units=%s) does not store the sorted seconds rounded to 1 ns (restricted to the support, values and dtype kept)" % (cls, u), u, ch, {"ks_us": ks})

    # -- IntervalSet
    def canon_iv(m, step, lo):
        pts = sorted(o + lo + step * k for k in rng.sample(range(0, 40), 2 * m))
        return pts[0::2], pts[1::2]
    ivs = {"canon3": (list(D["s"]), list(D["e"])), "whole_s": (lambda p: (p[0::2], p[1::2]))(sorted(o + 1_000_000 * k for k in rng.sample(range(0, 9), 6))), "quarter_s": canon_iv(3, 250_000, 0),
           "tiny_us": (lambda p: (p[0::2], p[1::2]))(sorted(o + k for k in rng.sample(range(0, 256), 4))), "whole_ms": canon_iv(2, 1000, 0), "one": ([D["s"][0]], [D["e"][-1]]), "empty": ([], []), "many": canon_iv(8, 50_000, -500_000)}
    messy = {"unsorted": (list(D["s"])[::-1], list(D["e"])[::-1]), "overlapping": ([o, o + 500_000, o + 2_000_000], [o + 1_000_000, o + 1_500_000, o + 3_000_000]),
             "touching": ([o, o + 1_000_000], [o + 1_000_000, o + 2_000_000]), "end_before_start": ([o + 1_000_000, o + 2_000_000], [o, o + 3_000_000]), "whole_s_unsorted": ([o + 3_000_000, o], [o + 4_000_000, o + 1_000_000])}
    isig = [("start", REQ), ("end", None), ("time_units", "s"), ("metadata", None)]
    axes = {"vec": list(ivs) + list(messy), "form": list(ARRAY_FORMS) + ["mixed_forms", "pairs2d", "pairs2d_int", "pairs2d_uint", "pairs_list_tuples", "pairs_list_lists", "single_pair", "scalars", "dataframe", "dataframe_meta", "views", "iset"],
            "style": ["kw", "kw_all", "pos", "mixed", "twice"], "meta": ["-", "dict", "DataFrame"]}
    for ax in axes:
        for val in axes[ax] * reps:
            ch = {a: rng.choice(axes[a]) for a in axes}
            ch[ax] = val
            if ch["form"] in ("single_pair", "scalars") and ax != "vec":
                ch["vec"] = "one"
            ss, ee = ivs.get(ch["vec"]) or messy[ch["vec"]]
            n = len(ss)
            meta = None
            if ch["meta"] != "-" and ch["form"] not in ("dataframe", "dataframe_meta", "iset"):
                meta = {"lab": ["x", "y", "z", "x", "y", "z", "x", "y"][:n], "w": list(range(n))}
                meta = pd.DataFrame(meta) if ch["meta"] == "DataFrame" else meta

            def args(u, form):
                af = lambda ks, f: array_form(nap, ks, u, f)
                x = lambda ks: np.asarray(ks, dtype=np.float64) / PER[u]
                if form in ARRAY_FORMS:
                    a, b_ = af(ss, form), af(ee, form)
                    if form in ("tsindex", "t_attr") and (a is None or b_ is None):
                        return None
                    return None if a is None or b_ is None else {"start": a, "end": b_}
                if form == "mixed_forms":
                    fa, fb = rng.choice(["list", "tuple", "series", "ndarray", "list_int", "int64", "uint16"]), rng.choice(["ndarray", "list", "float32", "uint32", "index"])
                    a, b_ = af(ss, fa), af(ee, fb)
                    return {"start": a if a is not None else x(ss), "end": b_ if b_ is not None else x(ee)}
                if form in ("pairs2d", "pairs2d_int", "pairs2d_uint"):
                    if not n:
                        return None               # an EMPTY iterable of pairs is rejected in every unit ("provide a list of start-end pairs"): not a form of the empty set
                    p = np.stack([x(ss), x(ee)], 1)
                    if form != "pairs2d":
                        if any(k % IPER[u] for k in ss + ee) or (form == "pairs2d_uint" and n and min(ss + ee) < 0):
                            return None
                        p = p.astype(np.int64 if form == "pairs2d_int" else np.uint64)
                    return {"start": p}
                if form == "pairs_list_tuples":
                    return {"start": [(float(a), float(b_)) for a, b_ in zip(x(ss), x(ee))]} if n else None
                if form == "pairs_list_lists":
                    return {"start": [[float(a), float(b_)] for a, b_ in zip(x(ss), x(ee))]} if n else None
                if form == "single_pair":
                    return {"start": (float(x(ss)[0]), float(x(ee)[0]))} if n == 1 else None
                if form == "scalars":
                    if n != 1:
                        return None
                    f1, f2 = rng.choice(SCALAR_FORMS), rng.choice(SCALAR_FORMS)
                    a, b_ = scalar_form(ss[0], u, f1), scalar_form(ee[0], u, f2)
                    return {"start": a if a is not None else float(x(ss)[0]), "end": b_ if b_ is not None else float(x(ee)[0])}
                if form in ("dataframe", "dataframe_meta"):
                    df = pd.DataFrame({"start": x(ss), "end": x(ee)})
                    if form == "dataframe_meta":
                        df["lab"] = ["x", "y", "z", "x", "y", "z", "x", "y"][:n]
                    return {"start": df}
                if form == "views":               # start and end are views of one buffer
                    p = np.stack([x(ss), x(ee)], 1) if n else np.empty((0, 2))
                    return {"start": p[:, 0], "end": p[:, 1]}
                if form == "iset":                # an IntervalSet holds seconds by construction
                    return {"start": nap.IntervalSet(start=_cd(ss), end=_cd(ee))} if u == "s" else None
                raise ValueError(form)

            def build(u, a, style):
                given = dict(a)
                if meta is not None:
                    given["metadata"] = meta
                given["time_units"] = u
                return wd_invoke(nap.IntervalSet, isig, given, style)
            if ch["form"] == "dataframe_meta":
                ref, _ = _outcome(lambda: build("s", {"start": pd.DataFrame({"start": _cd(ss), "end": _cd(ee), "lab": ["x", "y", "z", "x", "y", "z", "x", "y"][:n]})}, "kw"), flags=(False, False))
            else:
                ref, _ = _outcome(lambda: build("s", {"start": _cd(ss), "end": _cd(ee)}, "kw"), flags=(False, False))
            res.count("wd_ctor=IntervalSet")
            res.count("wd_iset_form=" + ch["form"])
            res.count("wd_iset_vec=" + ch["vec"])
            for u in ("s", "ms", "us"):
                a = args(u, ch["form"])
                if a is None:
                    res.count("wd_form_not_exact_in_unit")
                    continue
                out, ex = _outcome(lambda: build(u, a, ch["style"]))
                res.case(("wd_ctor", "IntervalSet", ax, val, ds, u), nontrivial=not _is_exc(out))
                if ch["style"] == "twice":
                    out2, _ = _outcome(lambda: build(u, a, "kw"))
                    if out2 != out:
                        viol("IntervalSet", "same_object_twice", "building a second IntervalSet from the same containers gives another result", u, ch)
                if out != ref:
                    viol("IntervalSet", "form_equivariance", "IntervalSet built in %s from form %s differs from the same call in seconds with float64 arrays" % (u, ch["form"]), u, ch,
                         {"s_us": ss, "e_us": ee, "exception": repr(ex)[:200] if ex is not None else None, "ref_raises": _is_exc(ref)})
                elif not _is_exc(out) and ch["vec"] in ivs:
                    obj = build(u, a, "kw")
                    if not np.array_equal(np.asarray(obj.values), np.stack([_cd(ss), _cd(ee)], 1) if n else np.empty((0, 2))):
                        viol("IntervalSet", "sorted_rounded", "IntervalSet(time_units=%s) does not store the seconds rounded to 1 ns" % u, u, ch, {"s_us": ss, "e_us": ee})

    # -- TsGroup
    members = [list(D["t"]), list(D["t"][::2]), list(D["t"][1::3])]
    keysets = {"ints": [0, 3], "unsorted": [7, 2, 5], "strings": ["12", "3"], "floats": [1.0, 4.0], "iterable": None, "mixed_keys": ["10", 2, 7.0], "one": [5]}
    gsig = [("data", REQ), ("time_support", None), ("time_units", "s"), ("bypass_check", False), ("metadata", None)]
    axes = {"keys": list(keysets), "form": [f for f in ARRAY_FORMS if f != "tuple"], "style": ["kw", "kw_all", "pos", "mixed", "twice"], "support": ["absent", "None", "ep", "wide"], "bypass": [False, True], "meta": ["-", "dict"],
            "members": ["sorted", "unsorted", "with_empty", "with_Ts_object", "all_empty", "whole_s", "no_member"]}
    for ax in axes:
        for val in axes[ax] * reps:
            ch = {a: rng.choice(axes[a]) for a in axes}
            ch[ax] = val
            ks_list = [list(m) for m in members]
            if ch["members"] == "unsorted":
                ks_list = [m[::-1] for m in ks_list]
            elif ch["members"] == "with_empty":
                ks_list[1] = []
            elif ch["members"] == "all_empty":
                ks_list = [[], [], []]
            elif ch["members"] == "whole_s":
                ks_list = [sorted(o + 1_000_000 * k for k in rng.sample(range(0, 5), 3)) for _ in range(3)]
            keys = keysets[ch["keys"]]
            nk = 2 if keys is None else len(keys)
            if ch["members"] == "no_member":
                nk, keys = 0, []
            ks_list = ks_list[:nk]
            if ch["members"] in ("all_empty", "no_member") and ch["support"] in ("absent", "None") and ax != "support":
                ch["support"] = "wide"
            Sobj, Sus = supports[ch["support"]]
            meta = {"lab": ["x", "y", "z"][:nk]} if ch["meta"] == "dict" else None

            def build(u, mform, style):
                vals = []
                for i, ks in enumerate(ks_list):
                    if ch["members"] == "with_Ts_object" and i == 0:
                        vals.append(nap.Ts(t=_cd(ks)))                      # a Ts holds seconds whatever time_units says
                    else:
                        a = mform(ks, u)
                        if a is None:
                            return None
                        vals.append(a)
                data = vals if keysets[ch["keys"]] is None and nk else dict(zip(keys, vals))
                given = {"data": data, "time_units": u}
                if not isinstance(Sobj, str):
                    given["time_support"] = Sobj
                if ch["bypass"]:
                    given["bypass_check"] = True
                if meta is not None:
                    given["metadata"] = meta
                return lambda: wd_invoke(nap.TsGroup, gsig, given, style)
            ref, _ = _outcome(build("s", lambda ks, u: _cd(ks), "kw"), flags=(False, False))
            res.count("wd_ctor=TsGroup")
            res.count("wd_group_keys=" + ch["keys"])
            res.count("wd_group_members=" + ch["members"])
            res.count("wd_group_member_form=" + ch["form"])
            for u in ("s", "ms", "us"):
                thunk = build(u, lambda ks, u_: array_form(nap, ks, u_, ch["form"]), ch["style"])
                if thunk is None:
                    res.count("wd_form_not_exact_in_unit")
                    continue
                out, ex = _outcome(thunk)
                res.case(("wd_ctor", "TsGroup", ax, str(val), ds, u), nontrivial=not _is_exc(out))
                if ch["style"] == "twice":
                    out2, _ = _outcome(build(u, lambda ks, u_: array_form(nap, ks, u_, ch["form"]), "kw"))
                    if out2 != out:
                        viol("TsGroup", "same_object_twice", "building a second TsGroup from containers of the same form gives another result", u, ch)
                if out != ref:
                    viol("TsGroup", "form_equivariance", "TsGroup built in %s from members of form %s differs from the same call in seconds with float64 arrays" % (u, ch["form"]), u, ch,
                         {"members_us": ks_list, "exception": repr(ex)[:200] if ex is not None else None, "ref_raises": _is_exc(ref)})
                elif not _is_exc(out):
                    g = thunk()
                    want_keys = sorted(int(float(k)) for k in keys) if keysets[ch["keys"]] is not None or not nk else list(range(nk))
                    order = sorted(range(nk), key=lambda i: int(float(keys[i]))) if keysets[ch["keys"]] is not None or not nk else list(range(nk))
                    ok = [int(k) for k in g.keys()] == want_keys
                    # members: sorted canonical doubles restricted to the group's support (passed, or the union of the members' default supports = their extent)
                    for k, i in zip(want_keys, order):
                        if not ok:
                            break
                        S_eff = Sus                           # None: every member lies inside the union of the default supports
                        if ch["bypass"] and ch["members"] == "with_Ts_object" and i == 0:
                            S_eff = None                      # bypass_check=True: a Ts object is taken as it is
                        ok = np.array_equal(np.asarray(g[k].t), _cd(_kept(ks_list[i], S_eff)))
                    if not ok:
                        viol("TsGroup", "sorted_rounded", "TsGroup(time_units=%s) does not store for every key the sorted seconds rounded to 1 ns of its member" % u, u, ch, {"members_us": ks_list, "keys": [str(k) for k in (keys or [])]})


# ---- output points on every class / history ----------------------------------------------
def _out_ok(name, u, raw, ks):
    """the existing output oracle (check_outputs): exact in seconds and for the integer microsecond index, within the PROVED 0.3 ns otherwise (0.5 ns for tot_length)"""
    fac = {"s": 1.0, "ms": 1e3, "us": 1e6}[u]
    ks = np.asarray(ks, dtype=np.float64)
    tol_s = 0.5e-9 if name.endswith("tot_length") else 0.3e-9
    raw = np.asarray(raw)
    got = raw.astype(np.float64).ravel()
    want = (ks * 1000) / 1e9 if u == "s" else ks / (1e6 / fac)
    if u == "s" and not name.endswith("tot_length"):
        return got.shape == want.shape and bool(np.all(got == want)), got, want
    if u == "us" and name.endswith("as_units"):
        return got.shape == want.shape and raw.dtype.kind == "i" and bool(np.all(got == want)), got, want
    return got.shape == want.shape and bool(np.all(np.abs(got - want) <= tol_s * fac)), got, want


def _stored_us(t):
    """the integer microseconds behind stored seconds; None when they are not on the lattice"""
    t = np.asarray(t, dtype=np.float64)
    k = np.rint(t * 1e6).astype(np.int64)
    return k if np.array_equal((k.astype(np.float64) * 1000) / 1e9, t) else None


def wd_outputs(nap, res, D, seed, ds):
    """times / start_time / end_time / as_units / in_units / tot_length on receivers of every class, dtype and history, unit given positionally, by keyword, and left out (seconds)"""
    R = D["R"]
    out = []
    for name in D["TSS"] + D["TSDS"] + D["FRAMES"] + D["TENSORS"] + ["reg_two", "reg_loaded", "regf", "regt"]:
        x = R[name]
        ks = _stored_us(x.t)
        if ks is None:
            res.disagreements.append({"op": "wd_outputs", "what": "harness: receiver %s is not on the microsecond lattice" % name})
            continue
        pts = {"times": (lambda u: x.times(u), lambda u: x.times(units=u), lambda: x.times(), ks), "in_units": (lambda u: x.index.in_units(u), lambda u: x.index.in_units(time_units=u), lambda: x.index.in_units(), ks)}
        if len(ks):
            pts["start_time"] = (lambda u: np.array([x.start_time(u)]), lambda u: np.array([x.start_time(units=u)]), lambda: np.array([x.start_time()]), ks[:1])
            pts["end_time"] = (lambda u: np.array([x.end_time(u)]), lambda u: np.array([x.end_time(units=u)]), lambda: np.array([x.end_time()]), ks[-1:])
        if hasattr(x, "as_units"):
            pts["as_units"] = (lambda u: x.as_units(u).index.values, lambda u: x.as_units(units=u).index.values, lambda: x.as_units().index.values, ks)
        for pt, (fpos, fkw, fdef, want) in pts.items():
            for u in ("s", "ms", "us"):
                for style, f in (("pos", lambda: fpos(u)), ("kw", lambda: fkw(u))) + ((("default", fdef),) if u == "s" else ()):
                    res.case(("wd_out", pt, name, ds, u, style), nontrivial=True)
                    res.count("wd_output=" + pt)
                    try:
                        ok, got, exp = _out_ok(pt, u, f(), want)
                    except Exception:             # noqa: BLE001
                        ok, got, exp = False, np.array([]), np.array([])
                        res.count("wd_output_raises")
                    if not ok:
                        out.append({"key": {"op": type(x).__name__ + "." + pt, "part": "output_units", "unit": u, "style": style}, "what": "value returned in %s is not the stored instant x factor" % u,
                                    "input": {"wd": [seed, ds], "receiver": name}, "impl": got[:5].tolist(), "expected": exp[:5].tolist()})
    for name in D["EPS"]:
        ep = R[name]
        ks = _stored_us(ep.values.ravel())
        if ks is None:
            res.disagreements.append({"op": "wd_outputs", "what": "harness: IntervalSet %s is not on the microsecond lattice" % name})
            continue
        tot = [int(np.sum(ks[1::2] - ks[0::2]))]
        pts = {"ep.as_units": (lambda u: ep.as_units(u).values, lambda u: ep.as_units(units=u).values, lambda: ep.as_units().values, ks)}
        if len(ep) <= 8:
            pts["tot_length"] = (lambda u: np.array([ep.tot_length(u)]), lambda u: np.array([ep.tot_length(time_units=u)]), lambda: np.array([ep.tot_length()]), tot)
        for pt, (fpos, fkw, fdef, want) in pts.items():
            for u in ("s", "ms", "us"):
                for style, f in (("pos", lambda: fpos(u)), ("kw", lambda: fkw(u))) + ((("default", fdef),) if u == "s" else ()):
                    res.case(("wd_out", pt, name, ds, u, style), nontrivial=True)
                    res.count("wd_output=" + pt)
                    try:
                        ok, got, exp = _out_ok(pt, u, f(), want)
                    except Exception:             # noqa: BLE001
                        ok, got, exp = False, np.array([]), np.array([])
                    if not ok:
                        out.append({"key": {"op": pt, "part": "output_units", "unit": u, "style": style}, "what": "value returned in %s is not the stored instant x factor" % u,
                                    "input": {"wd": [seed, ds], "receiver": name}, "impl": got[:5].tolist(), "expected": exp[:5].tolist()})
    return out


def wd_ns_rounding(nap, res, rng, tier):
    """stored timestamps are SECONDS ROUNDED TO 1 NANOSECOND, through the constructors, for arbitrary doubles within +/-1e5 s (negative ones included): exact rational oracle; a value whose exact x*1e9 lies within 2^-5 of a
    half-integer may go either way in floating point (np.around multiplies first) and is counted as float_ambiguous when it does"""
    from fractions import Fraction
    n = 150 if tier == "quick" else 3000
    xs = sorted({rng.choice([1, -1]) * rng.choice([rng.uniform(0, 1e-6), rng.uniform(0, 1.0), rng.uniform(0, 1e3), rng.uniform(0, 1e5)]) for _ in range(n)})
    xa = np.asarray(xs, dtype=np.float64)
    wide = nap.IntervalSet(start=-2e5, end=2e5)
    got = {"Ts": nap.Ts(t=xa).t, "Tsd": nap.Tsd(t=xa, d=np.arange(len(xa)), time_support=wide).t, "TsdFrame_list": nap.TsdFrame(t=xa.tolist(), d=np.zeros((len(xa), 1))).t,
           "IntervalSet.start": nap.IntervalSet(start=xa, end=xa + 1e6).values[:, 0] if len(xa) else []}
    for cls, st in got.items():
        res.count("wd_ns_rounding_values", len(xs))
        for x, v in zip(xs, np.asarray(st)):
            res.evaluations += 1
            q = Fraction(x) * 10**9
            lo = q.numerator // q.denominator
            frac = q - lo
            nearest = lo if frac < Fraction(1, 2) else lo + 1
            if v == nearest / 1e9:
                continue
            if abs(frac - Fraction(1, 2)) <= Fraction(1, 32) and v in (lo / 1e9, (lo + 1) / 1e9):
                res.float_ambiguous += 1
                continue
            res.violations.append({"key": {"op": cls, "part": "rounded_to_ns", "negative": x < 0}, "what": "the stored timestamp is not the given seconds rounded to 1 ns", "input": {"x": float(x).hex(), "x_repr": repr(x)},
                                   "impl": repr(float(v)), "expected": repr(nearest / 1e9)})
            break


def widened(nap, res, tier, seed):
    import shutil
    import tempfile
    nsets = 2 if tier == "quick" else 14
    tmp = tempfile.mkdtemp(prefix="c09_wd_")
    try:
        for ds in range(nsets):
            rng = random.Random(seed * 977 + 31 * ds + 5)
            # every second data set runs under a non-default setting of the two suppress_* flags (the references always under the defaults)
            _WD_FLAGS[0] = (False, False) if ds % 2 == 0 else [(True, False), (False, True), (True, True)][(seed + ds // 2) % 3]
            res.count("wd_flags=%s" % (_WD_FLAGS[0],))
            D = wd_data(nap, rng, tmp)
            before = {k: canon(v) for k, v in D["R"].items()}
            OPS = wd_ops(nap, D, rng)
            wd_sweep(nap, res, D, OPS, rng, seed, ds, tier)
            wd_constructors(nap, res, D, rng, seed, ds, tier)
            for v in wd_outputs(nap, res, D, seed, ds):
                res.violations.append(v)
            for k, v in D["R"].items():           # every receiver was used by many calls: none may have changed
                if k in before and canon(v) != before[k]:
                    res.violations.append({"key": {"op": "receiver", "part": "live_object_changed"}, "what": "a receiver / argument object changed while being used", "input": {"wd": [seed, ds], "receiver": k}})
            if ds == 0:
                res.sample({"wd_origin_us": D["origin"], "wd_t_us": D["t"][:6], "wd_ops": sorted(OPS), "wd_receivers": sorted(D["R"])[:40]})
        wd_ns_rounding(nap, res, random.Random(seed * 13 + 7), tier)
    finally:
        _WD_FLAGS[0] = (False, False)
        shutil.rmtree(tmp, ignore_errors=True)


def run(res, tier, seed):
    nap = _nap()
    warnings.simplefilter("ignore")
    from pynapple.core.time_index import TsIndex
    res.rule = ("equivariance: every unit-accepting entry point (%d call forms covering every row of the generated unit table except the private _get_slice) on seeded random microsecond-lattice inputs (origins 0, 1e3 s, -50 s, 9.9e4 s) called with its time "
                "arguments in s, ms and us must give bit-identical results (times, values, columns, supports, group rates and metadata); a data set on which the entry raises in all "
                "three units is counted as not evaluated, and an entry never evaluated fails the check; 13 output points (times/as_units/start_time/end_time/tot_length/in_units of "
                "Ts, Tsd, TsdFrame, IntervalSet) against the exact instant x factor: exact in s and for the integer us index, within 0.3 ns otherwise (0.5 ns tot_length); every "
                "constructor in every unit stores the canonical double of each instant, sorted; under all 4 settings of the two suppress_* flags, with list/tuple inputs so "
                "that the guarded warnings are reachable; float layer: PrimFloat model vs implementation bit-exact on random/lattice doubles. non-trivial = an entry point "
                "evaluated on one data set with at least one unit not raising; distinct = (entry point, data set)" % len(entry_points(nap)))
    res.rule += (" || WIDENED FORMS (one axis at a time, the other axes drawn with the seeded rng, each case in s, ms and us against the reference call = Python floats in seconds, keywords, on the same receiver and options; "
                 "origins 0, -2 s (straddling 0), -50 s, 1e3 s, 9.999e4 s). "
                 "Axis 1 (data dtype): receivers and constructor data in float64/float32/int64/int32/int16/int8/uint8..uint64/bool, data holding NaN/+inf/-inf, constant and zero data; results compared with their dtype. "
                 "Axis 2 (form of time arguments): scalars as Python float/int, np.float64, np.float32, np.int8..np.uint64, 0-d array (a form is used in a unit only when it holds the instant exactly; Python float/int/np.float64 "
                 "must give the reference result, any other scalar type must give it or be rejected with TypeError/ValueError/IOError/RuntimeError/AssertionError, and identically typed arguments may not be rejected in some units only); "
                 "time arrays as ndarray, list, tuple, list of ints, list of numpy scalars, pandas Series / Index, float32/float16/int64..uint8 arrays, strided / read-only / Fortran-column views, object arrays, another object's TsIndex and .t, "
                 "pandas Series / DataFrame as the whole Tsd / TsdFrame, IntervalSet from pairs (2-d float/int/uint arrays, lists of tuples / lists), a single pair, scalars, DataFrame (+metadata columns), views of one buffer, an IntervalSet. "
                 "Axis 3 (call style): keywords, every parameter by keyword with the documented defaults (None included) spelled out, positional with the defaults spelled out, required positional + keywords, the unit left out (= seconds); "
                 "every optional parameter at its default and at non-default values combined (dtype, ep, align, padding_value, norm, reverse, size_factor, windowsize, fs, overlap, full_range, feature(s), bypass_check, metadata, columns, load_array). "
                 "Axis 4: s/ms/us everywhere. Axis 5 (placement): negative times, sets straddling 0, 1e5 s offsets, bounds / thresholds / gaps / windows exactly on samples, interval durations and gaps; arbitrary (sub-microsecond) doubles "
                 "through the constructors against an exact rational round-to-1-ns oracle. Axis 6 (degenerate): empty series / frames / tensors, one sample, all timestamps equal (explicit support), duplicates, empty / one / many intervals, "
                 "intervals holding zero or one sample, empty TsGroup, groups with empty members, keys not 0..n-1 / unsorted / multi-digit strings / floats / mixed / from an iterable. "
                 "Axis 7 (classes): every operation on Ts, Tsd, TsdFrame (string / unsorted integer column labels, metadata), TsdTensor, TsGroup (of Ts, of Tsd), pairs of groups, dict and count-frame inputs of decode, IntervalSet with metadata. "
                 "Axis 8 (histories): receivers obtained by restrict / slice / fancy index / get / arithmetic / numpy functions / set operations / save+load, a default support, bypass_check=True, t and d sharing one buffer; every call style "
                 "'twice' repeats the call on the same live objects, and every receiver is compared with its state before the sweep. Every second data set runs under a non-default setting of the two suppress_* flags (references under the defaults). "
                 "Output points (times/start_time/end_time/as_units/in_units/tot_length) on every such receiver with the unit positional, by keyword and left out, against the stored instants with the existing bounds.")
    E = entry_points(nap)
    O = out_points(nap)
    rng = random.Random(seed * 101 + 9)
    nsets = 12 if tier == "quick" else 120
    flags = [(False, False), (True, False), (False, True), (True, True)]
    evaluated, last_exc = set(), {}
    for ds in range(nsets):
        d = make_data(nap, rng)
        base = {}
        for fi, (f1, f2) in enumerate(flags if ds % 4 == 0 else flags[:1]):
            nap.nap_config.suppress_conversion_warnings = f1
            nap.nap_config.suppress_time_index_sorting_warnings = f2
            try:
                for name, f in E.items():
                    outs = []
                    for u, per in UNITS:
                        cv = (lambda per: (lambda us: np.asarray(us, dtype=np.float64) / per))(per)
                        try:
                            outs.append(canon(f(cv, u, d)))
                        except Exception as ex:
                            outs.append(("EXC", type(ex).__name__))
                    all_raise = all(isinstance(o_, tuple) and len(o_) == 2 and o_[0] == "EXC" for o_ in outs)
                    res.case((name, ds, fi), nontrivial=not all_raise)
                    if all_raise:
                        # nothing was compared: the entry point raised in every unit on this data set
                        res.count("all_units_raise=" + name)
                        last_exc[name] = outs[0][1]
                    else:
                        res.count("entry=" + name)
                        evaluated.add(name)
                    if not (outs[0] == outs[1] == outs[2]):
                        bad = [UNITS[i][0] for i in (1, 2) if outs[i] != outs[0]]
                        raises_in = [UNITS[i][0] for i in range(3) if isinstance(outs[i], tuple) and len(outs[i]) == 2 and outs[i][0] == "EXC"]
                        res.violations.append({"key": {"op": name, "part": "equivariance", "raises_in_some_unit_only": bool(raises_in)},
                                               "what": "result depends on the time unit used for the arguments",
                                               "input": {"entry": name, "dataset_seed": [seed, ds], "units_differing_from_s": bad, "units_raising": raises_in,
                                                         "data": {k: (v if isinstance(v, (int, list)) else None) for k, v in d.items() if isinstance(v, (int, list))}}})
                    if fi == 0:
                        base[name] = outs[0]
                    elif outs[0] != base[name]:
                        res.violations.append({"key": {"op": name, "part": "config"}, "what": "result depends on a warning-suppression flag",
                                               "input": {"entry": name, "flags": [f1, f2], "dataset_seed": [seed, ds]}})
            finally:
                nap.nap_config.suppress_conversion_warnings = False
                nap.nap_config.suppress_time_index_sorting_warnings = False
        for v in check_outputs(nap, res, O, d, seed, ds) + check_stored(nap, res, E, d, seed, ds):
            res.violations.append(v)
        if ds == 0:
            res.sample({"t_us": d["t"][:6], "ep_us": list(zip(d["s"], d["e"])), "bin_us": d["b"], "entry_points": sorted(E)})
    # lattice claim on the implementation: the three unit forms of a microsecond-lattice instant store the same double
    ks = [rng.randrange(-10**11, 10**11) for _ in range(3000 if tier == "quick" else 60000)] + [0, 1, -1, 10**11, -10**11, 999999, 123456789]
    ka = np.asarray(ks, dtype=np.float64)
    a = TsIndex.format_timestamps(ka / 1e6, "s")
    b = TsIndex.format_timestamps(ka / 1e3, "ms")
    c = TsIndex.format_timestamps(ka, "us")
    want = (ka * 1000) / 1e9
    res.evaluations += len(ks)
    res.count("lattice_instants", len(ks))
    for k, x, y, z, w in zip(ks, a, b, c, want):
        if not (x == y == z == w):
            res.violations.append({"key": {"op": "format_timestamps", "part": "lattice"}, "what": "the same microsecond-lattice instant is stored differently depending on its unit",
                                   "input": {"k_us": k}, "impl": [float(x).hex(), float(y).hex(), float(z).hex()], "expected": float(w).hex()})
            break
    widened(nap, res, tier, seed)
    float_layer(res, tier, seed)
    table_coverage(res, E, O)
    for name in E:
        if name not in evaluated:
            res.disagreements.append({"op": name, "what": "harness: this entry point raised in all three units on every data set; its equivariance was never evaluated",
                                      "exception": last_exc.get(name)})


def search(res, seed):
    r2 = C.Result()
    run(r2, "thorough", seed)
    return r2.violations[0] if r2.violations else None


def replay(payload):
    nap = _nap()
    warnings.simplefilter("ignore")
    v = payload.get("violation") or {}
    inp = v.get("input", {})
    if "dataset_seed" in inp:
        seed, ds = inp["dataset_seed"]
        rng = random.Random(seed * 101 + 9)
        d = None
        for _ in range(ds + 1):
            d = make_data(nap, rng)
        E = entry_points(nap)
        O = out_points(nap)
        name = inp["entry"]
        if name in E:
            outs = []
            for u, per in UNITS:
                cv = (lambda per: (lambda us: np.asarray(us, dtype=np.float64) / per))(per)
                try:
                    outs.append(canon(E[name](cv, u, d)))
                except Exception as ex:
                    outs.append(("EXC", type(ex).__name__))
            same = outs[0] == outs[1] == outs[2]
            print("entry", name, "same result in s/ms/us:", same)
            bad = [x for x in check_stored(nap, C.Result(), E, d, seed, ds) if x["key"]["op"] == name] if name in STORED else []
            for x in bad:
                print(x["what"])
            return 0 if same and not bad else 1
        if name in O:
            bad = [x for x in check_outputs(nap, C.Result(), O, d, seed, ds) if x["key"]["op"] == name]
            for x in bad:
                print(x["what"], "impl", x["impl"], "expected", x["expected"])
            return 1 if bad else 0
    if "wd" in inp or "x" in inp:
        # widened-form cases draw every axis from the seeded generator: re-run the widened sweep of that seed and look for the same key
        seed = inp["wd"][0] if "wd" in inp else int(os.environ.get("VERIF_SEED", "0") or 0)
        for tier in ("quick", "thorough"):
            r = C.Result()
            widened(nap, r, tier, seed)
            hit = [x for x in r.violations if x.get("key") == v.get("key")]
            if hit:
                print("reproduced (%s tier):" % tier, hit[0]["what"], hit[0]["input"])
                return 1
        print("not reproduced", v.get("key"))
        return 0
    print("replay input", inp)
    return 1
