"""C09 seconds, milliseconds and microseconds denote the same instants everywhere."""
import os
import random
import re
import subprocess
import warnings

import numpy as np
import pandas as pd

import common as C
import gen as G

LEVEL = "proof"
DRIVERS = []
TRUSTED = ["translator tools/gen_sites.py -> coq/Gen/Sites.v (unit call-site table, config-flag table), regenerated from /repo on every run; checks in coq/Proofs/SitesChecks.v; the table is "
           "SYNTACTIC (a time parameter occurs in some format_timestamps(..., unit) call or is passed on with the unit): it does not see a second conversion of the same value nor a raw use "
           "next to the converted one - those are decided by the equivariance sweep, which must cover every row of the table (enforced by this file)",
           "bit-level PrimFloat model coq/Model/FloatTime.v of format_timestamps/return_timestamps, compared bit-exactly with the implementation on every run",
           "Coq's primitive-float specification (FloatAxioms) and Flocq for the lattice theorem (Proofs/FloatTimeProofs.v) when present"]
ASSUMPTIONS = ["instants on the microsecond lattice within +/-1e5 s, given in each unit as the nearest double",
               "output conversions of a stored lattice instant k us are compared with the exact k/1e3 ms, k us to within 0.3 ns, the bound PROVED for the float model (C09_output_is_stored_times_factor); "
               "in seconds, and for the integer index of as_units('us'), exactly; tot_length (a float sum of up to 3 durations, each carrying <= 1.5e-11 s) to within 0.5 ns",
               "the call-site table is syntactic (which arguments meet the unit variable); behaviour is decided by the equivariance sweep of every entry point"]

UNITS = [("s", 1e6), ("ms", 1e3), ("us", 1.0)]


def _nap():
    import pynapple as nap
    return nap


def canon(o):
    """canonical, exactly comparable form of a result"""
    nap = _nap()
    if isinstance(o, nap.IntervalSet):
        return ("IntervalSet", np.asarray(o.values).tobytes())
    if isinstance(o, nap.TsGroup):
        return ("TsGroup", tuple((int(k), canon(o[k])) for k in o.keys()), canon(o.time_support), np.asarray(o.rates.values, dtype=float).tobytes(),
                tuple(map(str, o.metadata_columns)), repr(o.metadata.values.tolist()))
    if isinstance(o, (nap.Ts, nap.Tsd, nap.TsdFrame, nap.TsdTensor)):
        v = np.asarray(o.values).tobytes() if hasattr(o, "values") else b""
        cols = tuple(map(str, o.columns)) if hasattr(o, "columns") else ()
        return (type(o).__name__, np.asarray(o.t).tobytes(), v, cols, canon(o.time_support))
    if isinstance(o, pd.DataFrame):
        return ("DataFrame", np.asarray(o.values, dtype=float).tobytes(), np.asarray(o.index, dtype=float).tobytes(), tuple(map(str, o.columns)))
    if isinstance(o, np.ndarray):
        return ("ndarray", o.shape, np.asarray(o, dtype=float).tobytes())
    if isinstance(o, (tuple, list)):
        return tuple(canon(x) for x in o)
    if isinstance(o, slice):
        return ("slice", o.start, o.stop, o.step)
    if isinstance(o, (float, np.floating)):
        return ("float", np.float64(o).tobytes())
    return ("other", repr(o))


def entry_points(nap):
    """name -> f(cv, u, data): cv converts an integer number of MICROSECONDS into the unit u"""
    E = {}
    E["Ts"] = lambda cv, u, d: nap.Ts(cv(d["t"]), time_units=u)
    E["Ts_unsorted"] = lambda cv, u, d: nap.Ts(cv(d["t"][::-1]), time_units=u)
    E["Tsd"] = lambda cv, u, d: nap.Tsd(cv(d["t"]), d["v"], time_units=u)
    E["TsdFrame"] = lambda cv, u, d: nap.TsdFrame(cv(d["t"]), d["v2"], time_units=u)
    E["TsdTensor"] = lambda cv, u, d: nap.TsdTensor(cv(d["t"]), d["v3"], time_units=u)
    E["Ts_support"] = lambda cv, u, d: nap.Ts(cv(d["t"]), time_units=u, time_support=d["ep"])
    E["Tsd_support"] = lambda cv, u, d: nap.Tsd(cv(d["t"]), d["v"], time_units=u, time_support=d["ep"])
    E["TsdFrame_support"] = lambda cv, u, d: nap.TsdFrame(cv(d["t"]), d["v2"], time_units=u, time_support=d["ep"])
    E["TsdTensor_support"] = lambda cv, u, d: nap.TsdTensor(cv(d["t"]), d["v3"], time_units=u, time_support=d["ep"])
    E["IntervalSet"] = lambda cv, u, d: nap.IntervalSet(cv(d["s"]), cv(d["e"]), time_units=u)
    E["IntervalSet_pairs"] = lambda cv, u, d: nap.IntervalSet(np.stack([cv(d["s"]), cv(d["e"])], 1), time_units=u)
    E["TsGroup"] = lambda cv, u, d: nap.TsGroup({0: cv(d["t"]), 3: cv(d["t"][::2])}, time_units=u, time_support=d["wide"])
    # python lists / tuples instead of ndarrays: the only inputs for which suppress_conversion_warnings guards a reachable warning
    E["Ts_list"] = lambda cv, u, d: nap.Ts(cv(d["t"]).tolist(), time_units=u)
    E["Tsd_list"] = lambda cv, u, d: nap.Tsd(cv(d["t"]).tolist(), d["v"].tolist(), time_units=u)
    E["IntervalSet_list"] = lambda cv, u, d: nap.IntervalSet(cv(d["s"]).tolist(), tuple(cv(d["e"]).tolist()), time_units=u)
    E["TsGroup_list"] = lambda cv, u, d: nap.TsGroup({0: cv(d["t"]).tolist(), 3: cv(d["t"][::2])}, time_units=u, time_support=d["wide"])
    E["TsGroup_nosupport"] = lambda cv, u, d: nap.TsGroup({0: cv(d["t"]), 3: cv(d["t"][::2])}, time_units=u)
    E["count"] = lambda cv, u, d: d["ts"].count(float(cv([d["b"]])[0]), d["ep"], time_units=u)
    E["bin_average"] = lambda cv, u, d: d["tsd"].bin_average(float(cv([d["b"]])[0]), d["ep"], time_units=u)
    E["get"] = lambda cv, u, d: d["tsd"].get(float(cv([d["a0"]])[0]), float(cv([d["a1"]])[0]), time_units=u)
    E["get_closest"] = lambda cv, u, d: d["tsd"].get(float(cv([d["a0"]])[0]), time_units=u)
    E["get_slice"] = lambda cv, u, d: d["tsd"].get_slice(float(cv([d["a0"]])[0]), float(cv([d["a1"]])[0]), time_unit=u)
    E["find_support"] = lambda cv, u, d: d["ts"].find_support(float(cv([d["gap"]])[0]), time_units=u)
    E["smooth"] = lambda cv, u, d: d["reg"].smooth(float(cv([d["std"]])[0]), time_units=u)
    E["smooth_w"] = lambda cv, u, d: d["reg"].smooth(float(cv([d["std"]])[0]), windowsize=float(cv([d["std"] * 6])[0]), time_units=u)
    E["drop_short"] = lambda cv, u, d: d["ep"].drop_short_intervals(float(cv([d["thr"]])[0]), time_units=u)
    E["drop_long"] = lambda cv, u, d: d["ep"].drop_long_intervals(float(cv([d["thr"]])[0]), time_units=u)
    E["merge_close"] = lambda cv, u, d: d["ep"].merge_close_intervals(float(cv([d["gap"]])[0]), time_units=u)
    E["split"] = lambda cv, u, d: d["ep"].split(float(cv([d["b"]])[0]), time_units=u)
    E["trial_count"] = lambda cv, u, d: d["ts"].trial_count(d["ep"], float(cv([d["b"]])[0]), time_unit=u)
    E["TsGroup.count"] = lambda cv, u, d: d["grp"].count(float(cv([d["b"]])[0]), d["ep"], time_units=u)
    E["TsGroup.get"] = lambda cv, u, d: d["grp"].get(float(cv([d["a0"]])[0]), float(cv([d["a1"]])[0]), time_units=u)
    E["TsGroup.trial_count"] = lambda cv, u, d: d["grp"].trial_count(d["ep"], float(cv([d["b"]])[0]), time_unit=u)
    E["build_tensor"] = lambda cv, u, d: nap.build_tensor(d["grp"], d["ep"], bin_size=float(cv([d["b"]])[0]), time_unit=u)
    E["autocorr"] = lambda cv, u, d: nap.compute_autocorrelogram(d["grp"], float(cv([d["cb"]])[0]), float(cv([d["cw"]])[0]), time_units=u)
    E["crosscorr"] = lambda cv, u, d: nap.compute_crosscorrelogram(d["grp"], float(cv([d["cb"]])[0]), float(cv([d["cw"]])[0]), time_units=u)
    E["eventcorr"] = lambda cv, u, d: nap.compute_eventcorrelogram(d["grp"], d["ts"], float(cv([d["cb"]])[0]), float(cv([d["cw"]])[0]), time_units=u)
    E["perievent"] = lambda cv, u, d: nap.compute_perievent(d["ts"], d["ref"], minmax=(float(cv([-d["cw"]])[0]), float(cv([d["cw"]])[0])), time_unit=u)
    E["perievent_cont"] = lambda cv, u, d: nap.compute_perievent_continuous(d["reg"], d["ref"], minmax=(float(cv([-d["pw"]])[0]), float(cv([d["pw"]])[0])), time_unit=u)
    E["eta"] = lambda cv, u, d: nap.compute_event_trigger_average(d["grp"], d["reg"], float(cv([d["pb"]])[0]), (float(cv([d["pw"]])[0]), float(cv([d["pw"]])[0])), time_unit=u)
    E["decode_1d"] = lambda cv, u, d: nap.decode_1d(d["tc"], d["grp"], d["ep"], float(cv([d["db"]])[0]), time_units=u)
    E["eta_scalar_window"] = lambda cv, u, d: nap.compute_event_trigger_average(d["grp"], d["reg"], float(cv([d["pb"]])[0]), float(cv([d["pw"]])[0]), time_unit=u)
    E["eta_ep"] = lambda cv, u, d: nap.compute_event_trigger_average(d["grp"], d["reg"], float(cv([d["pb"]])[0]), (float(cv([d["pw"]])[0]), float(cv([2 * d["pw"]])[0])), d["ep"], time_unit=u)
    E["decode_1d_frame"] = lambda cv, u, d: nap.decode_1d(d["tc"], d["cnt"], d["ep"], float(cv([d["db"]])[0]), time_units=u)
    E["decode_1d_dict"] = lambda cv, u, d: nap.decode_1d(d["tc"], {1: d["grp"][1], 4: d["grp"][4]}, d["ep"], float(cv([d["db"]])[0]), time_units=u)
    E["decode_1d_feature"] = lambda cv, u, d: nap.decode_1d(d["tc"], d["grp"], d["ep"], float(cv([d["db"]])[0]), time_units=u, feature=d["tsd"])
    E["decode_2d"] = lambda cv, u, d: nap.decode_2d(d["tc2"], d["grp"], d["ep"], float(cv([d["db"]])[0]), d["xy"], time_units=u)
    E["decode_2d_frame"] = lambda cv, u, d: nap.decode_2d(d["tc2"], d["cnt"], d["ep"], float(cv([d["db"]])[0]), d["xy"], time_units=u)
    E["decode_2d_dict"] = lambda cv, u, d: nap.decode_2d(d["tc2"], {1: d["grp"][1], 4: d["grp"][4]}, d["ep"], float(cv([d["db"]])[0]), d["xy"], time_units=u)
    # the signal carries its OWN support: with d["wide"] some segment holds no sample and the function raises in every unit
    E["mean_psd"] = lambda cv, u, d: nap.compute_mean_power_spectral_density(d["reg_own"], float(cv([d["seg"]])[0]), time_unit=u)
    E["mean_psd_ep"] = lambda cv, u, d: nap.compute_mean_power_spectral_density(d["reg"], float(cv([d["seg"]])[0]), ep=d["reg_ep"], time_unit=u)
    E["Ts.count"] = lambda cv, u, d: d["ts"].count(float(cv([d["b"]])[0]), time_units=u)
    E["TsdFrame.bin_average"] = lambda cv, u, d: d["frame"].bin_average(float(cv([d["b"]])[0]), d["ep"], time_units=u)
    E["TsdFrame.get"] = lambda cv, u, d: d["frame"].get(float(cv([d["a0"]])[0]), float(cv([d["a1"]])[0]), time_units=u)
    E["TsdFrame.smooth"] = lambda cv, u, d: d["regf"].smooth(float(cv([d["std"]])[0]), time_units=u)
    E["Ts.get"] = lambda cv, u, d: d["ts"].get(float(cv([d["a0"]])[0]), float(cv([d["a1"]])[0]), time_units=u)
    E["Ts.get_slice"] = lambda cv, u, d: d["ts"].get_slice(float(cv([d["a0"]])[0]), float(cv([d["a1"]])[0]), time_unit=u)
    E["get_slice_open"] = lambda cv, u, d: d["tsd"].get_slice(float(cv([d["a0"]])[0]), time_unit=u)
    E["build_tensor_tsd"] = lambda cv, u, d: nap.build_tensor(d["ts"], d["ep"], bin_size=float(cv([d["b"]])[0]), time_unit=u)
    # degenerate receivers and the other accepted argument forms (third-round seeds: a unit converted on the populated path only, a scalar window not converted)
    E["TsGroup.count_empty_group"] = lambda cv, u, d: nap.TsGroup({}, time_support=d["wide"]).count(float(cv([d["b"]])[0]), d["ep"], time_units=u)
    E["TsGroup.count_noep"] = lambda cv, u, d: d["grp"].count(float(cv([d["b"]])[0]), time_units=u)
    E["TsGroup.count_empty_members"] = lambda cv, u, d: nap.TsGroup({2: nap.Ts(np.array([])), 5: nap.Ts(np.array([]))}, time_support=d["wide"]).count(float(cv([d["b"]])[0]), d["ep"], time_units=u)
    E["count_empty_ts"] = lambda cv, u, d: nap.Ts(np.array([]), time_support=d["wide"]).count(float(cv([d["b"]])[0]), d["ep"], time_units=u)
    E["bin_average_empty_tsd"] = lambda cv, u, d: nap.Tsd(np.array([]), np.array([]), time_support=d["wide"]).bin_average(float(cv([d["b"]])[0]), d["ep"], time_units=u)
    E["get_empty_tsd"] = lambda cv, u, d: nap.Tsd(np.array([]), np.array([]), time_support=d["wide"]).get(float(cv([d["a0"]])[0]), float(cv([d["a1"]])[0]), time_units=u)
    E["perievent_scalar_window"] = lambda cv, u, d: nap.compute_perievent(d["ts"], d["ref"], minmax=float(cv([d["cw"]])[0]), time_unit=u)
    E["perievent_group"] = lambda cv, u, d: nap.compute_perievent(d["grp"], d["ref"], minmax=(float(cv([-d["cw"]])[0]), float(cv([d["cw"]])[0])), time_unit=u)
    E["perievent_cont_scalar_window"] = lambda cv, u, d: nap.compute_perievent_continuous(d["reg"], d["ref"], minmax=float(cv([d["pw"]])[0]), time_unit=u)
    E["find_support_gap_equal"] = lambda cv, u, d: d["ts"].find_support(float(cv([d["t"][1] - d["t"][0]])[0]), time_units=u)
    E["Ts_default_support"] = lambda cv, u, d: nap.Ts(cv(d["t"]), time_units=u).time_support
    E["Tsd_default_support"] = lambda cv, u, d: nap.Tsd(cv(d["t"]), d["v"], time_units=u).time_support
    E["TsdFrame_default_support"] = lambda cv, u, d: nap.TsdFrame(cv(d["t"]), d["v2"], time_units=u).time_support
    return E


def out_points(nap):
    O = {}
    O["times"] = lambda d, u: d["tsd"].times(u)
    O["as_units"] = lambda d, u: d["tsd"].as_units(u).index.values
    O["start_time"] = lambda d, u: np.array([d["tsd"].start_time(u)])
    O["end_time"] = lambda d, u: np.array([d["tsd"].end_time(u)])
    O["tot_length"] = lambda d, u: np.array([d["ep"].tot_length(u)])
    O["ep.as_units"] = lambda d, u: d["ep"].as_units(u).values
    O["in_units"] = lambda d, u: d["tsd"].index.in_units(u)
    O["Ts.as_units"] = lambda d, u: d["ts"].as_units(u).index.values
    O["TsdFrame.as_units"] = lambda d, u: d["frame"].as_units(u).index.values
    O["Ts.times"] = lambda d, u: d["ts"].times(u)
    O["TsdFrame.times"] = lambda d, u: d["frame"].times(u)
    O["ep.start_time"] = lambda d, u: np.array([d["ep_ts"].start_time(u)])
    O["ep.end_time"] = lambda d, u: np.array([d["ep_ts"].end_time(u)])
    return O


def out_exact_us(d):
    """the exact instants (integer microseconds) behind every output point; tot_length: the exact total duration"""
    t = list(d["t"])
    flat = [x for se in zip(d["s"], d["e"]) for x in se]
    inside = [k for k in t if any(s_ <= k <= e_ for s_, e_ in zip(d["s"], d["e"]))]
    return {"times": t, "as_units": t, "start_time": [t[0]], "end_time": [t[-1]], "tot_length": [sum(e_ - s_ for s_, e_ in zip(d["s"], d["e"]))], "ep.as_units": flat, "in_units": t,
            "Ts.as_units": t, "TsdFrame.as_units": t, "Ts.times": t, "TsdFrame.times": t, "ep.start_time": inside[:1], "ep.end_time": inside[-1:]}


def make_data(nap, rng):
    n = rng.randint(6, 25)
    origin = rng.choice([0, 10**6 * 1000, -50 * 10**6, 99_000 * 10**6])      # microseconds
    t = sorted(origin + x for x in rng.sample(range(0, 4_000_000, rng.choice([1, 7, 1000])), n))
    pts = sorted(origin + x for x in rng.sample(range(-100_000, 4_100_000, 500), 6))
    s, e = pts[0::2], pts[1::2]
    to_s = lambda us: np.asarray(us, dtype=np.float64) / 1e6
    d = {"t": t, "s": s, "e": e, "v": np.arange(n) + 1.0, "v2": np.arange(2 * n).reshape(n, 2) + 1.0, "v3": np.arange(4 * n).reshape(n, 2, 2) + 1.0}
    d["ep"] = nap.IntervalSet(to_s(s), to_s(e))
    d["wide"] = nap.IntervalSet(to_s([origin - 10**6]), to_s([origin + 6 * 10**6]))
    d["ts"] = nap.Ts(to_s(t), time_support=d["wide"])
    d["tsd"] = nap.Tsd(to_s(t), d["v"], time_support=d["wide"])
    d["ref"] = nap.Ts(to_s(t[1::3]), time_support=d["wide"])
    reg_t = [origin + 5000 * k for k in range(0, 400)]
    d["reg"] = nap.Tsd(to_s(reg_t), np.sin(np.arange(400) / 7.0), time_support=d["wide"])
    d["reg_own"] = nap.Tsd(to_s(reg_t), np.sin(np.arange(400) / 7.0))
    d["reg_ep"] = nap.IntervalSet(to_s([reg_t[0]]), to_s([reg_t[-1]]))
    d["regf"] = nap.TsdFrame(to_s(reg_t), np.stack([np.sin(np.arange(400) / 7.0), np.cos(np.arange(400) / 5.0)], 1), time_support=d["wide"])
    d["frame"] = nap.TsdFrame(to_s(t), d["v2"], time_support=d["wide"])
    d["ep_ts"] = nap.Ts(to_s(t), time_support=d["ep"])
    d["grp"] = nap.TsGroup({1: nap.Ts(to_s(t)), 4: nap.Ts(to_s(t[::2]))}, time_support=d["wide"])
    d["cnt"] = d["grp"].count(0.05, d["wide"])
    d["tc2"] = {1: np.array([[1.0, 3.0], [5.0, 2.0]]), 4: np.array([[2.0, 7.0], [0.5, 4.0]])}
    d["xy"] = (np.array([0.5, 1.5]), np.array([0.25, 0.75]))
    d["b"] = rng.choice([100_000, 250_000, 333_333, 1_000_000])
    d["a0"], d["a1"] = sorted(origin + rng.randrange(-10**5, 41 * 10**5) for _ in range(2))
    if rng.random() < 0.4:
        d["a0"] = rng.choice(t)
    if rng.random() < 0.4:
        d["a1"] = max(d["a0"], rng.choice(t))
    d["gap"] = rng.choice([200_000, 500_000, 1_000_000])
    d["thr"] = rng.choice([e_ - s_ for s_, e_ in zip(s, e)] + [500_000])
    d["std"] = rng.choice([10_000, 25_000])
    d["cb"], d["cw"] = rng.choice([(50_000, 500_000), (100_000, 1_000_000)])
    d["pw"] = rng.choice([20_000, 50_000])
    d["pb"] = 5000
    d["db"] = rng.choice([200_000, 500_000])
    d["seg"] = rng.choice([300_000, 500_000])
    d["tc"] = pd.DataFrame(np.array([[1.0, 3.0], [5.0, 2.0], [2.0, 7.0]]), index=np.array([0.5, 1.5, 2.5]), columns=[1, 4])
    return d


def float_layer(res, tier, seed):
    """bit-exact comparison of the PrimFloat model with TsIndex.format_timestamps / return_timestamps"""
    from pynapple.core.time_index import TsIndex
    rng = random.Random(seed * 3 + 11)
    n = 600 if tier == "quick" else 6000
    xs = []
    for _ in range(n):
        k = rng.randrange(-10**11, 10**11)
        r = rng.random()
        if r < 0.5:
            x = float(k) / rng.choice([1.0, 1e3, 1e6])
        elif r < 0.8:
            x = rng.uniform(-1e5, 1e5)
        else:
            x = rng.choice([0.0, 5e-10, 1.5e-9, 2.5e-9, -2.5e-9, 0.1, 1e-6, 123456.789])
        xs.append(x)
    lines = ["From Coq Require Import PrimFloat List. Import ListNotations.", "From Verif Require Import Model.FloatTime.", "Open Scope float_scope."]
    hexs = "; ".join(x.hex() for x in xs)
    for u in (0, 1, 2):
        lines.append("Eval vm_compute in map (fmt %d) [%s]." % (u, hexs))
        lines.append("Eval vm_compute in map (ret %d) [%s]." % (u, hexs))
    os.makedirs(os.path.join(C.COQ, "Cases"), exist_ok=True)
    path = os.path.join(C.COQ, "Cases", "c09_float.v")
    open(path, "w").write("\n".join(lines) + "\n")
    rc, out = C.sh("timeout 600 coqc -w -all -Q . Verif Cases/c09_float.v", cwd=C.COQ, timeout=700)
    if rc != 0:
        res.disagreements.append({"op": "float-layer", "what": "coqc failed on the generated cases", "log": out[-500:]})
        return
    blocks = re.findall(r"=\s*\[(.*?)\]\s*:\s*list float", out, re.S)
    if len(blocks) != 6:
        res.disagreements.append({"op": "float-layer", "what": "could not parse coqc output", "n_blocks": len(blocks)})
        return
    k = 0
    for u, uname in enumerate(["s", "ms", "us"]):
        for fn, impl in (("fmt", TsIndex.format_timestamps), ("ret", TsIndex.return_timestamps)):
            vals = [v.strip() for v in blocks[k].replace("\n", " ").split(";")]
            k += 1
            got = impl(np.asarray(xs, dtype=np.float64), uname)
            for x, mv, iv in zip(xs, vals, got):
                m = float(mv.replace("infinity", "inf"))
                res.evaluations += 1
                if not (m == iv and (np.signbit(m) == np.signbit(iv) or m != 0)) and not (np.isnan(m) and np.isnan(iv)):
                    res.disagreements.append({"op": "%s[%s]" % (fn, uname), "input": x.hex(), "impl": float(iv).hex(), "model": m.hex()})
    res.count("float_layer_values", n * 6)


# every row of the GENERATED unit table (coq/Gen/Sites.v: the functions of /repo that take a time unit) -> the call forms / output points that sweep it.
# A function that appears in the table without an entry here fails the check: "every unit-accepting entry point" is enforced, not assumed.
ROWS = {
    "_Base.__init__": ["Ts", "Tsd"], "_Base._get_slice": ["get_slice", "get_slice_open", "Ts.get_slice"], "_Base.count": ["count", "Ts.count"], "_Base.end_time": ["end_time", "ep.end_time"],
    "_Base.find_support": ["find_support"], "_Base.get": ["get", "get_closest", "Ts.get", "TsdFrame.get"], "_Base.get_slice": ["get_slice", "get_slice_open", "Ts.get_slice"],
    "_Base.start_time": ["start_time", "ep.start_time"], "_Base.times": ["times", "Ts.times", "TsdFrame.times"], "IntervalSet.__init__": ["IntervalSet", "IntervalSet_pairs", "IntervalSet_list"],
    "IntervalSet.as_units": ["ep.as_units"], "IntervalSet.drop_long_intervals": ["drop_long"], "IntervalSet.drop_short_intervals": ["drop_short"],
    "IntervalSet.merge_close_intervals": ["merge_close"], "IntervalSet.split": ["split"], "IntervalSet.tot_length": ["tot_length"], "TsIndex.__new__": ["Ts", "Ts_unsorted"],
    "TsIndex.in_units": ["in_units"], "Ts.__init__": ["Ts", "Ts_unsorted", "Ts_list", "Ts_support"], "Ts.as_units": ["Ts.as_units"], "Ts.trial_count": ["trial_count"],
    "Tsd.__init__": ["Tsd", "Tsd_list", "Tsd_support"], "Tsd.as_units": ["as_units"], "TsdFrame.__init__": ["TsdFrame", "TsdFrame_support"], "TsdFrame.as_units": ["TsdFrame.as_units"],
    "TsdTensor.__init__": ["TsdTensor", "TsdTensor_support"], "_BaseTsd.__init__": ["Tsd", "TsdFrame", "TsdTensor"], "_BaseTsd.bin_average": ["bin_average", "TsdFrame.bin_average"],
    "_BaseTsd.smooth": ["smooth", "smooth_w", "TsdFrame.smooth"], "TsGroup.__init__": ["TsGroup", "TsGroup_list", "TsGroup_nosupport"], "TsGroup.count": ["TsGroup.count"], "TsGroup.get": ["TsGroup.get"],
    "TsGroup.trial_count": ["TsGroup.trial_count"], "compute_autocorrelogram": ["autocorr"], "compute_crosscorrelogram": ["crosscorr"], "compute_eventcorrelogram": ["eventcorr"],
    "decode_1d": ["decode_1d", "decode_1d_frame", "decode_1d_dict", "decode_1d_feature"], "decode_2d": ["decode_2d", "decode_2d_frame", "decode_2d_dict"],
    "compute_event_trigger_average": ["eta", "eta_scalar_window", "eta_ep"], "compute_perievent": ["perievent"], "compute_perievent_continuous": ["perievent_cont"],
    "compute_mean_power_spectral_density": ["mean_psd", "mean_psd_ep"], "build_tensor": ["build_tensor", "build_tensor_tsd"],
}


def table_coverage(res, E, O):
    try:
        src = open(os.path.join(C.COQ, "Gen", "Sites.v")).read()
        sec = src[src.index("Definition unit_table"):src.index("Definition config_table")]
        funcs = re.findall(r'\("pynapple/[^":]+:([^"]+)", \(\[', sec)
    except (OSError, ValueError):
        res.disagreements.append({"op": "unit_table", "what": "harness: cannot read the generated unit table coq/Gen/Sites.v"})
        return
    res.count("unit_table_rows", len(funcs))
    for fn in funcs:
        names = ROWS.get(fn)
        if not names:
            res.disagreements.append({"op": fn, "what": "the unit-accepting function %s of the generated table is not swept by any call form of this harness" % fn})
        elif [n for n in names if n not in E and n not in O]:
            res.disagreements.append({"op": fn, "what": "harness: call forms listed for %s do not exist: %s" % (fn, [n for n in names if n not in E and n not in O])})


def check_outputs(nap, res, O, d, seed, ds):
    """outputs in units: the stored instant (k us, exactly known) x factor.  In seconds: the canonical double of k us, exactly.  In ms / us: within 0.3 ns of the
    exact k/1e3, k (the bound proved for the float model, C09_output_is_stored_times_factor); the integer index of as_units('us'): exactly k.
    tot_length is a float sum of <= 3 durations (each difference of two stored doubles carries <= 1.5e-11 s): 0.5 ns."""
    out = []
    exact = out_exact_us(d)
    for name, f in O.items():
        ks = np.asarray(exact[name], dtype=np.float64)
        if not len(ks):
            continue
        tol_s = 0.5e-9 if name == "tot_length" else 0.3e-9
        for u, fac in (("s", 1.0), ("ms", 1e3), ("us", 1e6)):
            raw = np.asarray(f(d, u))
            got = raw.astype(np.float64).ravel()
            want = (ks * 1000) / 1e9 if u == "s" else ks / (1e6 / fac)
            res.case((name, ds, u), nontrivial=True)
            if u == "s" and name != "tot_length":
                ok = got.shape == want.shape and bool(np.all(got == want))
            elif u == "us" and name.endswith("as_units"):
                ok = got.shape == want.shape and raw.dtype.kind == "i" and bool(np.all(got == want))
            else:
                ok = got.shape == want.shape and bool(np.all(np.abs(got - want) <= tol_s * fac))
            if not ok:
                out.append({"key": {"op": name, "part": "output_units", "unit": u}, "what": "value returned in %s is not the stored instant x %g" % (u, fac),
                            "input": {"entry": name, "dataset_seed": [seed, ds]}, "impl": got[:5].tolist(), "expected": want[:5].tolist()})
    return out


STORED = ("Ts", "Ts_unsorted", "Ts_list", "Tsd", "Tsd_list", "TsdFrame", "TsdTensor", "TsGroup", "TsGroup_list", "TsGroup_nosupport", "IntervalSet", "IntervalSet_pairs", "IntervalSet_list")


def check_stored(nap, res, E, d, seed, ds):
    """stored = seconds rounded to 1 ns (on the lattice: the canonical double of k us), whatever the constructor and the unit; unsorted Ts input is stored sorted"""
    out = []
    cd = lambda ks: (np.asarray(sorted(ks), dtype=np.float64) * 1000) / 1e9
    canon_ep = (np.stack([np.asarray(d["s"], dtype=np.float64), np.asarray(d["e"], dtype=np.float64)], 1) * 1000) / 1e9
    for u, per in UNITS:
        cv = (lambda per: (lambda us: np.asarray(us, dtype=np.float64) / per))(per)
        for name in STORED:
            o = E[name](cv, u, d)
            res.case(("stored", name, ds, u), nontrivial=True)
            if isinstance(o, nap.IntervalSet):
                ok = np.array_equal(np.asarray(o.values), canon_ep)
            elif isinstance(o, nap.TsGroup):
                ok = np.array_equal(np.asarray(o[0].t), cd(d["t"])) and np.array_equal(np.asarray(o[3].t), cd(d["t"][::2]))
            else:
                ok = np.array_equal(np.asarray(o.t), cd(d["t"]))
            if not ok:
                out.append({"key": {"op": name, "part": "sorted_rounded", "unit": u}, "what": "%s(time_units=%s) does not store the sorted seconds rounded to 1 ns" % (name, u),
                            "input": {"entry": name, "dataset_seed": [seed, ds], "t_us": d["t"]}})
    return out


def run(res, tier, seed):
    nap = _nap()
    warnings.simplefilter("ignore")
    from pynapple.core.time_index import TsIndex
    res.rule = ("equivariance: every unit-accepting entry point (%d call forms covering every row of the generated unit table except the private _get_slice) on seeded random microsecond-lattice inputs (origins 0, 1e3 s, -50 s, 9.9e4 s) called with its time "
                "arguments in s, ms and us must give bit-identical results (times, values, columns, supports, group rates and metadata); a data set on which the entry raises in all "
                "three units is counted as not evaluated, and an entry never evaluated fails the check; 13 output points (times/as_units/start_time/end_time/tot_length/in_units of "
                "Ts, Tsd, TsdFrame, IntervalSet) against the exact instant x factor: exact in s and for the integer us index, within 0.3 ns otherwise (0.5 ns tot_length); every "
                "constructor in every unit stores the canonical double of each instant, sorted; under all 4 settings of the two suppress_* flags, with list/tuple inputs so "
                "that the guarded warnings are reachable; float layer: PrimFloat model vs implementation bit-exact on random/lattice doubles. non-trivial = an entry point "
                "evaluated on one data set with at least one unit not raising; distinct = (entry point, data set)" % len(entry_points(nap)))
    E = entry_points(nap)
    O = out_points(nap)
    rng = random.Random(seed * 101 + 9)
    nsets = 12 if tier == "quick" else 120
    flags = [(False, False), (True, False), (False, True), (True, True)]
    evaluated, last_exc = set(), {}
    for ds in range(nsets):
        d = make_data(nap, rng)
        base = {}
        for fi, (f1, f2) in enumerate(flags if ds % 4 == 0 else flags[:1]):
            nap.nap_config.suppress_conversion_warnings = f1
            nap.nap_config.suppress_time_index_sorting_warnings = f2
            try:
                for name, f in E.items():
                    outs = []
                    for u, per in UNITS:
                        cv = (lambda per: (lambda us: np.asarray(us, dtype=np.float64) / per))(per)
                        try:
                            outs.append(canon(f(cv, u, d)))
                        except Exception as ex:
                            outs.append(("EXC", type(ex).__name__))
                    all_raise = all(isinstance(o_, tuple) and len(o_) == 2 and o_[0] == "EXC" for o_ in outs)
                    res.case((name, ds, fi), nontrivial=not all_raise)
                    if all_raise:
                        # nothing was compared: the entry point raised in every unit on this data set
                        res.count("all_units_raise=" + name)
                        last_exc[name] = outs[0][1]
                    else:
                        res.count("entry=" + name)
                        evaluated.add(name)
                    if not (outs[0] == outs[1] == outs[2]):
                        bad = [UNITS[i][0] for i in (1, 2) if outs[i] != outs[0]]
                        raises_in = [UNITS[i][0] for i in range(3) if isinstance(outs[i], tuple) and len(outs[i]) == 2 and outs[i][0] == "EXC"]
                        res.violations.append({"key": {"op": name, "part": "equivariance", "raises_in_some_unit_only": bool(raises_in)},
                                               "what": "result depends on the time unit used for the arguments",
                                               "input": {"entry": name, "dataset_seed": [seed, ds], "units_differing_from_s": bad, "units_raising": raises_in,
                                                         "data": {k: (v if isinstance(v, (int, list)) else None) for k, v in d.items() if isinstance(v, (int, list))}}})
                    if fi == 0:
                        base[name] = outs[0]
                    elif outs[0] != base[name]:
                        res.violations.append({"key": {"op": name, "part": "config"}, "what": "result depends on a warning-suppression flag",
                                               "input": {"entry": name, "flags": [f1, f2], "dataset_seed": [seed, ds]}})
            finally:
                nap.nap_config.suppress_conversion_warnings = False
                nap.nap_config.suppress_time_index_sorting_warnings = False
        for v in check_outputs(nap, res, O, d, seed, ds) + check_stored(nap, res, E, d, seed, ds):
            res.violations.append(v)
        if ds == 0:
            res.sample({"t_us": d["t"][:6], "ep_us": list(zip(d["s"], d["e"])), "bin_us": d["b"], "entry_points": sorted(E)})
    # lattice claim on the implementation: the three unit forms of a microsecond-lattice instant store the same double
    ks = [rng.randrange(-10**11, 10**11) for _ in range(3000 if tier == "quick" else 60000)] + [0, 1, -1, 10**11, -10**11, 999999, 123456789]
    ka = np.asarray(ks, dtype=np.float64)
    a = TsIndex.format_timestamps(ka / 1e6, "s")
    b = TsIndex.format_timestamps(ka / 1e3, "ms")
    c = TsIndex.format_timestamps(ka, "us")
    want = (ka * 1000) / 1e9
    res.evaluations += len(ks)
    res.count("lattice_instants", len(ks))
    for k, x, y, z, w in zip(ks, a, b, c, want):
        if not (x == y == z == w):
            res.violations.append({"key": {"op": "format_timestamps", "part": "lattice"}, "what": "the same microsecond-lattice instant is stored differently depending on its unit",
                                   "input": {"k_us": k}, "impl": [float(x).hex(), float(y).hex(), float(z).hex()], "expected": float(w).hex()})
            break
    float_layer(res, tier, seed)
    table_coverage(res, E, O)
    for name in E:
        if name not in evaluated:
            res.disagreements.append({"op": name, "what": "harness: this entry point raised in all three units on every data set; its equivariance was never evaluated",
                                      "exception": last_exc.get(name)})


def search(res, seed):
    r2 = C.Result()
    run(r2, "thorough", seed)
    return r2.violations[0] if r2.violations else None


def replay(payload):
    nap = _nap()
    warnings.simplefilter("ignore")
    v = payload.get("violation") or {}
    inp = v.get("input", {})
    if "dataset_seed" in inp:
        seed, ds = inp["dataset_seed"]
        rng = random.Random(seed * 101 + 9)
        d = None
        for _ in range(ds + 1):
            d = make_data(nap, rng)
        E = entry_points(nap)
        O = out_points(nap)
        name = inp["entry"]
        if name in E:
            outs = []
            for u, per in UNITS:
                cv = (lambda per: (lambda us: np.asarray(us, dtype=np.float64) / per))(per)
                try:
                    outs.append(canon(E[name](cv, u, d)))
                except Exception as ex:
                    outs.append(("EXC", type(ex).__name__))
            same = outs[0] == outs[1] == outs[2]
            print("entry", name, "same result in s/ms/us:", same)
            bad = [x for x in check_stored(nap, C.Result(), E, d, seed, ds) if x["key"]["op"] == name] if name in STORED else []
            for x in bad:
                print(x["what"])
            return 0 if same and not bad else 1
        if name in O:
            bad = [x for x in check_outputs(nap, C.Result(), O, d, seed, ds) if x["key"]["op"] == name]
            for x in bad:
                print(x["what"], "impl", x["impl"], "expected", x["expected"])
            return 1 if bad else 0
    print("replay input", inp)
    return 1
