"""C05 count and bin_average attribute each sample to exactly its own bin."""
import itertools
import os
import random
import tempfile
import warnings
from fractions import Fraction as Fr

import numpy as np

import common as C
import gen as G

LEVEL = "proof"
TRUSTED = ["model: coq/Model/Count.v (bins_go, count_binned, bin_sum_cnt) over Model/Restrict.v; theorems: Proofs/CountProofs.v "
           "(the model takes a bin size that is a whole number of ticks; other bin sizes are checked against the statement only, in exact rationals)"]
ASSUMPTIONS = ["a reported timestamp is a tick (1 ns, the library's time resolution): when the exact centre l+b/2 is not on a tick either neighbouring tick is accepted, "
               "when it is on a tick that tick is required; the test 'centre <= interval end' is NOT relaxed (a centre half a tick beyond the end must not be reported)",
               "a bin size given as the float b/1e9, b/1e6 or b/1e3 with b a whole number of ns is read as exactly b ns (the float nearest to a decimal: C09); every other bin size "
               "is read as the exact value of the float and the grid is computed in exact rationals; non-dyadic ones (1/3 ms, 1/30 s ...) only on inputs where no sample lies "
               "within 0.001 ns of a bin edge without being on it and no end within 0.001 ns of a centre (such inputs are counted as float_ambiguous, not checked)",
               "exhaustive cases live on the dyadic lattice 2^-9 s; random cases on decimal lattices incl. odd numbers of ns and centres on / half a tick before / half a tick "
               "beyond the interval end",
               "argument-form cases: data are integers exactly representable in their dtype and in float64 (sums exact), a mean is compared with the exact rational to 1e-12 relative "
               "(it is a float64 quotient); NaN / +-inf data follow IEEE arithmetic (a bin holding a NaN, or both infinities, has mean NaN; one infinity gives that infinity); "
               "a bin size in a form the signatures do not document (np.float32, np.int64, np.int32, 0-d array; a Python int for bin_average) may raise TypeError / ValueError "
               "instead of giving the stated result; the dtype of an EMPTY TsGroup's count (no column) is not judged"]

U = 1953125  # 2^-9 s in ticks: dyadic AND a whole number of ns
UNITS = {"s": 10**9, "ms": 10**6, "us": 10**3}
DTYPES = (np.int64, np.int32, np.float64, np.uint8, np.float32, np.int16, "uint64")


def _nap():
    import pynapple as nap
    from pynapple.core import _jitted_functions as J
    return nap, J


# ---------------------------------------------------------------------------------------------------------------
# the statement, brute force.  b: int or Fraction, in ticks.  `late` (explanation variants only): intervals granted the bin
# whose centre lies exactly half a tick beyond the end.
def oracle_avg(ts, vs, ep, b, late=()):
    out = []
    for i, (s, e) in enumerate(ep):
        l = s
        while 2 * l + b <= 2 * e + (1 if i in late else 0):
            sel = [v for t, v in zip(ts, vs) if s <= t <= e and l <= t < l + b]
            out.append((2 * l + b, len(sel), sum(sel)))
            l += b
    return out


def oracle(ts, ep, b, late=()):
    return [(c2, n) for c2, n, _ in oracle_avg(ts, [0] * len(ts), ep, b, late)]


def centre_ok(rep_tick, c2):
    """reported tick vs doubled exact centre: the centre itself when it is a tick, else one of its two neighbours"""
    d = abs(2 * rep_tick - c2)
    return d == 0 if c2 % 2 == 0 else d < 2


def diff_count(got, exp):
    """got [(tick, count)], exp [(2*centre, count)] -> None or the part that differs"""
    if len(got) != len(exp):
        return "grid"
    if not all(centre_ok(a[0], e_[0]) for a, e_ in zip(got, exp)):
        return "timestamp"
    if not all(a[1] == e_[1] for a, e_ in zip(got, exp)):
        return "count"
    return None


def diff_avg(got, exp, scale=1):
    """got [(tick, value)], exp [(2*centre, cnt, sum)]; the column holds scale * vs"""
    if len(got) != len(exp):
        return "grid"
    if not all(centre_ok(a[0], e_[0]) for a, e_ in zip(got, exp)):
        return "timestamp"
    for (_, d), (_, cnt, sm) in zip(got, exp):
        if (cnt == 0) != bool(np.isnan(d)):
            return "nan"
        if cnt and abs(d * cnt - scale * sm) > 1e-9:
            return "mean"
    return None


def late_candidates(ep, b):
    """intervals that have a bin centre exactly half a tick beyond their end (possible only for an odd whole number of ticks)"""
    if b != int(b) or int(b) % 2 == 0:
        return []
    b = int(b)
    return [i for i, (s, e) in enumerate(ep) if 2 * (e - s) + 1 - b >= 0 and (2 * (e - s) + 1 - b) % (2 * b) == 0]


def explain(differ, got, mk, ep, b):
    """Which known deviation (if any) reproduces the implementation's output exactly:
       bin_rounded_to_ns    - the grid is built with the bin size rounded to a whole number of ns;
       centre_rounded_to_ns - the centre is rounded to ns before it is compared with the interval end (a centre half a tick beyond the end passes).
       mk(bb, late) = the statement's output for bin size bb with the `late` intervals granted that extra bin."""
    whole = b == int(b)
    flags = {"bin_whole_ns": bool(whole), "bin_rounded_to_ns": False, "centre_rounded_to_ns": False}
    cands = [(int(b), False)] if whole else [(bb, True) for bb in sorted({int(b // 1), int(-((-b) // 1))}) if bb > 0 and abs(b - bb) <= Fr(1, 2)]
    for bb, rounded in cands:
        lc = late_candidates(ep, bb)
        for r in range(0 if rounded else 1, len(lc) + 1):
            for sub in itertools.combinations(lc, r):
                if differ(got, mk(bb, set(sub))) is None:
                    flags["bin_rounded_to_ns"] = rounded
                    flags["centre_rounded_to_ns"] = r > 0
                    return flags
    return flags


def near_miss(ts, ep, b):
    """non-dyadic bin size: a sample within 0.001 tick of a bin edge without being on it, or an end within 0.001 tick of a centre without
    being on it (the float handed to the library is not the rational the user meant; the attribution is then a matter of reading the float)"""
    eps = Fr(1, 1000)
    for s, e in ep:
        for t in [x for x in ts if s <= x <= e]:
            r = (t - s) % b
            if 0 < r < eps or 0 < b - r < eps:
                return True
        r = (e - s - b / 2) % b
        if e - s >= b / 2 and (0 < r < eps or 0 < b - r < eps):
            return True
    return False


# ---------------------------------------------------------------------------------------------------------------
# generators
def cases(tier, seed):
    """-> list of dicts {ts, ep, bin (ticks, int) | value+units (+bin = exact Fraction ticks), kind}"""
    out = []
    N = 7 if tier == "quick" else 8
    pts = G.lattice(N, step=U)
    eps = G.canonical_isets(pts, 2)          # includes the empty IntervalSet
    tss = G.sorted_multisets(pts, 3 if tier == "quick" else 4)
    bs = [U, 2 * U, 3 * U, 4 * U, 7 * U]
    for ep in eps:
        for ts in tss:
            for b in bs:
                out.append((ts, ep, b, "dyadic"))
    rng = random.Random(seed * 17 + 2)
    if tier == "quick":
        out = rng.sample(out, 7000) + [c for c in out if len(c[0]) == 0][:200] + [c for c in out if not c[1]][:60]
    q = tier == "quick"
    # decimal lattice, random, even numbers of ns
    for _ in range(500 if q else 5000):
        ep = G.rand_canonical_iset(rng, 4, gaps=(1000, 2000, 5000, 10000, 30000, 1000000))
        b = rng.choice([1000, 2000, 4000, 10000, 50000, 3000])
        anchors = [s + k * b for s, e in ep for k in range(0, 6)]
        ts = sorted(rng.choice(anchors + [e for _, e in ep] + [s + rng.randrange(0, 40000) for s, _ in ep]) for _ in range(rng.randint(0, 12))) if ep else \
            sorted(rng.randrange(0, 40000) for _ in range(rng.randint(0, 4)))
        out.append((ts, ep, b, "decimal"))
    # odd numbers of ns: the centre is a half-tick; ends placed on / half a tick before / half a tick beyond a centre, and elsewhere
    for _ in range(700 if q else 7000):
        b = rng.choice([1, 3, 5, 7, 999, 1001, 2001, 12345, 1000001])
        ep, x = [], rng.choice([0, 1, 17, 1000, 123456789])
        for _i in range(rng.randint(1, 3)):
            s = x + rng.choice([1, 2, 3, 1000, b, 2 * b + 1])
            j = rng.randint(0, 6)
            e = s + j * b + rng.choice([(b - 1) // 2, (b + 1) // 2, (b - 1) // 2, (b + 1) // 2, b, b - 1, 1, rng.randint(1, b + 1)])
            if e <= s:
                e = s + 1
            ep.append((s, e))
            x = e
        anchors = [s + k * b + d for s, e in ep for k in range(0, 8) for d in (-1, 0, 1)] + [e for _, e in ep]
        ts = sorted(rng.choice(anchors) for _ in range(rng.randint(0, 10)))
        out.append((ts, ep, b, "odd_ns"))
    out = [{"ts": ts, "ep": ep, "bin": b, "kind": kind} for ts, ep, b, kind in out]
    # bin sizes that are not a whole number of ns (public API only; exact rationals), dyadic ones first
    fr = [(1 / 1024, "s"), (1 / 2048, "s"), (1 / 4096, "s"), (1000 / 8192, "us"), (1 / 256, "us"), (3 / 2048, "us"), (5 / 2048, "us"), (21 / 8, "us"),
          (1 / 1024, "ms"), (1 / 3, "ms"), (1e3 / 7, "us"), (1 / 30000, "s")]
    for i in range(260 if q else 2600):
        value, units = fr[i % len(fr)]
        b = Fr(value) * UNITS[units]
        ep, x = [], rng.choice([0, 1000, 123456789])
        for _i in range(rng.randint(1, 2)):
            s = x + rng.choice([1, 1000, 54321])
            j = rng.randint(0, 14)
            c = s + j * b + b / 2
            e = rng.choice([int(c // 1), int(-((-c) // 1)), int(c // 1) + 1, int(c // 1) - 1, int((c + b / 2) // 1), int(c // 1) + rng.randint(0, max(1, int(b)))])
            if e <= s:
                e = s + 1
            ep.append((s, e))
            x = e
        br = max(1, round(b))
        anchors = []
        for s, e in ep:
            for k in range(0, 16):
                for edge in (s + k * b, s + k * br):
                    anchors += [int(edge // 1), int(-((-edge) // 1)), int(edge // 1) - 1, int(-((-edge) // 1)) + 1]
        ts = sorted(rng.choice(anchors) for _ in range(rng.randint(1, 10)))
        out.append({"ts": ts, "ep": ep, "bin": b, "value": value, "units": units, "kind": "not_whole_ns"})
    # positive bin sizes below half a ns (tiny intervals: the stated grid has 2.5 to 4 bins per tick)
    sub = [(4e-10, "s"), (1 / 4096, "us"), (0.0004, "us"), (1 / 2**32, "s"), (1e-10, "s"), (3e-7, "ms")]
    for i in range(36 if q else 120):
        value, units = sub[i % len(sub)]
        s = rng.choice([0, 7, 1000])
        ep = [(s, s + rng.randint(1, 4))]
        ts = sorted(rng.randint(s, s + 4) for _ in range(rng.randint(0, 4)))
        out.append({"ts": ts, "ep": ep, "bin": Fr(value) * UNITS[units], "value": value, "units": units, "kind": "below_half_ns"})
    out += form_kinds(q, seed)
    return out


NOSHIFT = ("us_lattice", "many_intervals", "all_equal")      # kinds that carry their own time placement (shifted() leaves them alone)


def form_kinds(q, seed):
    """extra whole-ns kinds for the ARGUMENT-FORM widening (own rng: the draws of the older kinds are unchanged):
       us_lattice     - every instant and the bin size a whole number of us (or ms): integer / unsigned time arrays and Python-int bin sizes apply;
                        origins 0, straddling 0, negative, +-1e5 s
       many_intervals - 5..12 intervals, many of them holding zero or one sample
       all_equal      - every timestamp of the series coincides (inside / on the start / on the end / on a bin edge / outside the intervals)"""
    rng = random.Random(seed * 17 + 5)
    out = []
    for _ in range(260 if q else 1500):
        unit = rng.choice([1000, 1000, 1000, 10**6])
        b = unit * rng.choice([1, 2, 3, 5, 10, 1000])
        x = unit * rng.choice([0, 0, -7, -4000, 5, 10**14 // unit, -(10**14 // unit), -(b // unit) * 2])
        ep = []
        for i in range(rng.randint(1, 3)):
            s = x + unit * rng.choice([0 if i == 0 else 1, 1, 2, 10, b // unit])
            e = s + rng.randint(0, 5) * b + rng.choice([b // 2 if (b // 2) % unit == 0 else b, b, unit, max(unit, b - unit), rng.randint(1, 3 * (b // unit)) * unit])
            ep.append((s, e))
            x = e
        anchors = [s + k * b + d * unit for s, e in ep for k in range(0, 7) for d in (-1, 0, 1)] + [e for _, e in ep] + [s for s, _ in ep]
        ts = sorted(rng.choice(anchors) for _ in range(rng.randint(0, 10)))
        out.append({"ts": ts, "ep": ep, "bin": b, "kind": "us_lattice"})
    for _ in range(60 if q else 300):
        unit = 1000
        b = unit * rng.choice([1, 2, 4, 10])
        x = unit * rng.choice([0, -20, 3, 10**14 // unit])
        ep = []
        for i in range(rng.randint(5, 12)):
            s = x + rng.choice([unit, b, 5 * b])
            e = s + rng.choice([unit, b // 2, b, 2 * b + unit, 3 * b, 7 * b // 2])
            ep.append((s, e))
            x = e
        anchors = [s + k * b + d * unit for s, e in ep for k in range(0, 4) for d in (-1, 0, 1)] + [e for _, e in ep]
        ts = sorted(rng.choice(anchors) for _ in range(rng.randint(0, len(ep) + 4)))
        out.append({"ts": ts, "ep": ep, "bin": b, "kind": "many_intervals"})
    for _ in range(80 if q else 400):
        unit = rng.choice([1000, U])
        b = unit * rng.choice([1, 2, 3])
        s = unit * rng.choice([0, -5, 4, 1000])
        e = s + rng.randint(0, 3) * b + rng.choice([b // 2 if (b // 2) % unit == 0 else b, b, unit, 2 * b])
        ep = [(s, e)]
        if rng.random() < 0.4:
            ep.append((e + unit, e + unit + rng.choice([b, 2 * b, unit])))
        p = rng.choice([s, e, s + b, s + 2 * b, s - unit, e + unit, s + unit, ep[-1][0], ep[-1][1], ep[-1][1] + 3 * unit])
        out.append({"ts": [p] * rng.randint(1, 4), "ep": ep, "bin": b, "kind": "all_equal"})
    return out


OFFS = [0, -3 * U, -1000 * U, 44236800 * U]     # the last one: one day (86400 s), still dyadic and a whole number of ns


def shifted(c, n):
    if c["kind"] in NOSHIFT:
        return dict(c)
    o = OFFS[n % len(OFFS)]
    d = dict(c)
    d["ts"] = [t + o for t in c["ts"]]
    d["ep"] = [(a + o, b_ + o) for a, b_ in c["ep"]]
    return d


def viol(op, part, what, inp, flags=None, **kw):
    key = {"op": op, "part": part}
    key.update(flags or {})
    v = {"key": key, "what": what, "input": inp}
    v.update(kw)
    return v


# ---------------------------------------------------------------------------------------------------------------
def kernel_case(J, c, inp):
    """jitcount / jitbin_array against the statement (whole-ns bin sizes). -> (violations, impl count, impl avg)"""
    ts, ep, b = c["ts"], c["ep"], c["bin"]
    t = G.arr(ts)
    st, en = G.arr([s for s, _ in ep]), G.arr([e for _, e in ep])
    vs = values_of(ts)
    out = []
    bt, bc = J.jitcount(t, st, en, b / 1e9, np.dtype(np.int64))
    impl = list(zip([C.to_ns(x) for x in bt], [int(x) for x in bc]))
    exp = oracle(ts, ep, b)
    part = diff_count(impl, exp)
    if part:
        fl = explain(diff_count, impl, lambda bb, late: oracle(ts, ep, bb, late), ep, b)
        out.append(viol("jitcount", part, "binned count differs from the bin grid the property states", inp, fl, impl=impl, expected=exp))
    at, ad = J.jitbin_array(t, np.asarray(vs, dtype=np.float64).reshape(-1, 1), st, en, b / 1e9)
    impla = list(zip([C.to_ns(x) for x in at], ad[:, 0].tolist()))
    expa = oracle_avg(ts, vs, ep, b)
    part = diff_avg(impla, expa)
    if part:
        fl = explain(diff_avg, impla, lambda bb, late: oracle_avg(ts, vs, ep, bb, late), ep, b)
        out.append(viol("jitbin_array", part, "bin_average differs from per-bin mean on the stated grid", inp, fl, impl=impla, expected=expa))
    return out, impl, impla, exp, expa


def values_of(ts):
    return [(i * 7 + 3) % 11 for i in range(len(ts))]


def support_of(x):
    return [(C.to_ns(s), C.to_ns(e)) for s, e in x.time_support.values]


def public_case(nap, n, c, inp):
    """public count / bin_average / TsGroup.count against the statement. Returns every violation of the case."""
    ts, ep, b = c["ts"], c["ep"], c["bin"]
    vs = values_of(ts)
    whole = b == int(b)
    out = []
    t = G.arr(ts)
    epo = nap.IntervalSet(G.arr([s for s, _ in ep]), G.arr([e for _, e in ep]))
    fvs = np.asarray(vs, float)
    makers = {"Ts": lambda: nap.Ts(t), "Tsd": lambda: nap.Tsd(t, fvs), "TsdFrame": lambda: nap.TsdFrame(t, np.stack([fvs, fvs * 2], axis=1), columns=["a", "b"]),
              "TsdTensor": lambda: nap.TsdTensor(t, np.stack([fvs, fvs * 2, fvs * 3, fvs * 4], axis=1).reshape(-1, 2, 2))}
    order = ["Ts", "Tsd", "TsdFrame", "TsdTensor"]
    cls = order[n % 4] if n % 3 else "Ts"
    x = makers[cls]()
    base = {"bin_whole_ns": bool(whole)}

    def guarded(op, units, f):
        try:
            return f()
        except Exception as ex:
            fl = dict(base, units=units, exc=type(ex).__name__, bin_below_half_ns=bool(b < Fr(1, 2)))
            out.append(viol(op, "exception", "%s raised %s: %s" % (op, type(ex).__name__, str(ex)[:120]), inp, fl))
            return None

    # 1. no bin size: per-interval counts over the closed intervals; they sum to len(restrict)
    want = [sum(1 for q in ts if s <= q <= e) for s, e in ep]
    c0 = guarded(cls + ".count(ep=)", "s", lambda: x.count(ep=epo))
    if c0 is not None and ([int(v) for v in c0.values] != want or sum(want) != len(x.restrict(epo))):
        out.append(viol(cls + ".count(ep=)", "count", "per-interval counts wrong or do not sum to len(restrict)", inp, impl=c0.values.tolist(), expected=want))
    # 2. count with a bin size, in s / ms / us
    exp = oracle(ts, ep, b)
    ulist = [(u, b / f) for u, f in UNITS.items()] if whole else [(c["units"], c["value"])]
    grid_ok = True
    for units, val in ulist:
        r = guarded(cls + ".count", units, lambda: x.count(float(val), epo, time_units=units))
        if r is None:
            grid_ok = False
            continue
        got = list(zip([C.to_ns(q) for q in r.t], [int(v) for v in r.values]))
        part = diff_count(got, exp)
        if part:
            grid_ok = False
            fl = dict(explain(diff_count, got, lambda bb, late: oracle(ts, ep, bb, late), ep, b), units=units)
            out.append(viol(cls + ".count", part, "public count differs from the stated grid", inp, fl, impl=got, expected=exp))
        elif support_of(r) != list(ep) and not (not exp and support_of(r) == []):
            out.append(viol(cls + ".count", "support", "support of count is not ep", inp, dict(base, units=units), impl=support_of(r)))
    # 3. dtypes (rotating; the grid itself was judged in 2.)
    if whole and grid_ok:
        for dt in (DTYPES[n % len(DTYPES)], DTYPES[(n // 7 + 1) % len(DTYPES)]):
            r = guarded(cls + ".count", "s", lambda: x.count(b / 1e9, epo, dtype=dt))
            if r is not None and (r.values.dtype != np.dtype(dt) or [int(v) for v in r.values] != [e_[1] for e_ in exp]):
                out.append(viol(cls + ".count", "dtype", "count with dtype %s differs" % np.dtype(dt), inp, dict(base, dtype=str(np.dtype(dt))), impl=r.values.tolist()))
    # 4. bin_average on Tsd / TsdFrame / TsdTensor (rotating), in s / ms / us, empty series included
    expa = oracle_avg(ts, vs, ep, b)
    acls = order[1 + n % 3]
    y = makers[acls]()
    for units, val in ulist:
        op = acls + ".bin_average"
        r = guarded(op, units, lambda: y.bin_average(float(val), epo, time_units=units))
        if r is None:
            continue
        if type(r).__name__ != acls or r.values.shape[1:] != y.values.shape[1:] or (acls == "TsdFrame" and list(r.columns) != ["a", "b"]):
            out.append(viol(op, "shape", "bin_average changed the class / trailing shape / columns", inp, dict(base, units=units), impl=[type(r).__name__, list(r.values.shape)]))
            continue
        flat = r.values.reshape(len(r), int(np.prod(r.values.shape[1:])))
        rt = [C.to_ns(q) for q in r.t]
        part = None
        for k in range(flat.shape[1]):
            got = list(zip(rt, flat[:, k].tolist()))
            part = diff_avg(got, expa, scale=k + 1)
            if part:
                fl = dict(explain(lambda g, e_: diff_avg(g, e_, scale=k + 1), got, lambda bb, late: oracle_avg(ts, vs, ep, bb, late), ep, b), units=units)
                out.append(viol(op, part, "bin_average differs from the per-bin mean (NaN if none) on the stated grid, column %d" % k, inp, fl, impl=got, expected=expa))
                break
        if flat.shape[1] == 0 and len(r) != len(expa):
            part = "grid"
            out.append(viol(op, part, "bin_average grid differs", inp, dict(base, units=units), impl=rt, expected=expa))
        if part is None and support_of(r) != list(ep) and not (not expa and support_of(r) == []):
            out.append(viol(op, "support", "support of bin_average is not ep", inp, dict(base, units=units), impl=support_of(r)))
    # 5. TsGroup.count: column k = member k's count (timestamps = the centres), labels = sorted keys; with units and dtype; and without bin size
    allt = [s for s, _ in ep] + [e for _, e in ep] + ts
    wide = nap.IntervalSet(min(allt + [0]) / 1e9 - 1.0, max(allt + [0]) / 1e9 + 1.0)
    t2 = t[::2]
    g = nap.TsGroup({5: nap.Ts(t), 2: nap.Ts(t2), 3: nap.Tsd(t[:1], fvs[:1])}, time_support=wide)
    members = {2: ts[::2], 3: ts[:1], 5: ts}
    units, val = ulist[n % len(ulist)]
    dt = DTYPES[(n // 3) % len(DTYPES)] if whole else np.int64
    gc = guarded("TsGroup.count", units, lambda: g.count(float(val), epo, time_units=units, dtype=dt))
    if gc is not None:
        gt = [C.to_ns(q) for q in gc.t]
        if list(gc.columns) != [2, 3, 5]:
            out.append(viol("TsGroup.count", "labels", "columns are not the sorted keys", inp, dict(base, units=units), impl=list(gc.columns)))
        elif gc.values.dtype != np.dtype(dt):
            out.append(viol("TsGroup.count", "dtype", "group count dtype is not %s" % np.dtype(dt), inp, dict(base, dtype=str(np.dtype(dt))), impl=str(gc.values.dtype)))
        else:
            for k, key in enumerate([2, 3, 5]):
                got = list(zip(gt, [int(v) for v in gc.values[:, k]]))
                expk = oracle(members[key], ep, b)
                part = diff_count(got, expk)
                if part:
                    fl = dict(explain(diff_count, got, lambda bb, late: oracle(members[key], ep, bb, late), ep, b), units=units)
                    out.append(viol("TsGroup.count", part, "group count column %d differs from member %d's count on the stated grid" % (k, key), inp, fl, impl=got, expected=expk))
                    break
    g0 = guarded("TsGroup.count(ep=)", "s", lambda: g.count(ep=epo))
    if g0 is not None:
        wantg = [[sum(1 for q in members[key] if s <= q <= e) for key in (2, 3, 5)] for s, e in ep]
        if list(g0.columns) != [2, 3, 5] or [[int(v) for v in row] for row in g0.values] != wantg:
            out.append(viol("TsGroup.count(ep=)", "count", "group per-interval counts / labels wrong", inp, impl=g0.values.tolist(), expected=wantg))
    return out


# ---------------------------------------------------------------------------------------------------------------
# ARGUMENT FORMS (widening).  The abstract input (instants ts, intervals ep, bin size b, all in ns) and the oracle stay the same; what varies is HOW
# the library is handed them: the form of every time argument, the dtype / content of the data, positional vs keyword vs default parameters, units,
# the class, the history of the receiver.  The same instants must give the same result.
CLEAN = (TypeError, ValueError)       # what a bin size in a form the signature does not document (np.float32 / np.int64 / 0-d array) may raise instead
COUNT_DTYPES = [("omitted", None), ("None", None), ("np.int64", np.int64), ("np.int32", np.int32), ("np.int16", np.int16), ("np.int8", np.int8), ("np.uint8", np.uint8),
                ("np.uint16", np.uint16), ("np.uint32", np.uint32), ("np.uint64", np.uint64), ("np.float64", np.float64), ("np.float32", np.float32), ("int", int),
                ("float", float), ("'int32'", "int32"), ("'<u2'", "<u2"), ("dtype('int16')", np.dtype("int16")), ("bool", bool)]
DATA_FORMS = ["float64", "float32", "int64", "int32", "int16", "int8", "uint8", "uint16", "uint32", "uint64", "bool", "extreme", "nan", "inf", "mixed_inf", "zeros", "all_equal"]
EXTREME = {"int8": [127, -128], "uint8": [255, 254], "int16": [32767, -32768], "uint16": [65535, 65534], "int32": [2**31 - 1, -2**31], "uint32": [2**32 - 1, 2**32 - 2],
           "int64": [2**40 + 1, -2**40], "uint64": [2**40 + 1, 2**41], "float32": [2**23 + 1, -2**23]}
_TMP = []


class LazyArray:
    """a minimal array-like (indexable, iterable, shape / ndim / dtype) that is NOT an ndarray: what the constructors' load_array=False is for (memory-mapped / zarr data)"""

    def __init__(self, a):
        self.a, self.shape, self.ndim, self.dtype = a, a.shape, a.ndim, a.dtype

    def __getitem__(self, k):
        return self.a[k]

    def __len__(self):
        return len(self.a)

    def __iter__(self):
        return iter(self.a)


def tmpdir():
    if not _TMP:
        import atexit
        import shutil
        _TMP.append(tempfile.mkdtemp(prefix="c05_", dir=C.CACHE if os.path.isdir(C.CACHE) else None))
        atexit.register(shutil.rmtree, _TMP[0], True)
    return _TMP[0]


def f32_exact(ticks):
    a = G.arr(ticks)
    return bool(np.all(a.astype(np.float32).astype(np.float64) == a))


def time_forms(ticks):
    """names of the forms in which the instants `ticks` can be handed over without changing them"""
    names = ["ndarray", "list", "tuple", "pd_index", "pd_series", "tsindex", "x.t", "float_ms", "float_us", "strided", "readonly"]
    if all(v % 1000 == 0 for v in ticks):
        us = [v // 1000 for v in ticks]
        names += ["int64_us", "list_int_us"]
        if all(abs(v) < 2**31 for v in us):
            names.append("int32_us")
        if all(v >= 0 for v in us):
            names.append("uint64_us")
            if all(v < 2**32 for v in us):
                names.append("uint32_us")
            if all(v < 2**16 for v in us):
                names.append("uint16_us")
        if all(v % 10**6 == 0 for v in ticks):
            names += ["int64_ms", "list_int_ms"]
            if all(v >= 0 for v in ticks):
                names.append("uint64_ms")
    if len(ticks) and f32_exact(ticks):
        names.append("float32")
    return names


def make_time(nap, pd, name, ticks):
    """-> (object, time_units)"""
    a = G.arr(ticks)
    if name == "ndarray":
        return a, "s"
    if name == "list":
        return a.tolist(), "s"
    if name == "tuple":
        return tuple(a.tolist()), "s"
    if name == "pd_index":
        return pd.Index(a), "s"
    if name == "pd_series":
        return pd.Series(a), "s"
    if name == "tsindex":
        return nap.Ts(a).index, "s"
    if name == "x.t":
        return nap.Ts(a).t, "s"
    if name == "float_ms":
        return np.asarray(ticks, dtype=np.float64) / 1e6, "ms"
    if name == "float_us":
        return np.asarray(ticks, dtype=np.float64) / 1e3, "us"
    if name == "strided":                       # a non-contiguous view that shares memory with a bigger array
        return np.repeat(a, 2)[::2], "s"
    if name == "readonly":
        r = a.copy()
        r.setflags(write=False)
        return r, "s"
    if name == "float32":
        return a.astype(np.float32), "s"
    kind, unit = name.split("_")[0], name.split("_")[-1]
    f = {"us": 1000, "ms": 10**6}[unit]
    vals = [int(v // f) for v in ticks]
    if kind == "list":                          # a list of Python ints
        return vals, unit
    return np.asarray(vals, dtype=np.dtype(kind)), unit


def ep_forms(ep):
    names = ["arrays", "lists", "tuples", "2d_array", "dataframe", "float_ms", "float_us", "metadata", "from_iset", "series", "index_and_t", "sliced", "intersected", "saveload", "kw"]
    pts = [v for se in ep for v in se]
    if len(ep) == 1:
        names += ["scalars", "np_scalars", "0d_arrays"]
    if not ep:
        names = ["arrays", "lists", "dataframe", "float_ms", "kw", "from_iset"]
    if ep and all(v % 1000 == 0 for v in pts):
        names.append("int64_us")
        if all(v >= 0 for v in pts):
            names += ["uint64_us"] + (["uint32_us"] if all(v // 1000 < 2**32 for v in pts) else []) + (["uint8_us"] if all(v // 1000 < 2**8 for v in pts) else [])
        if len(ep) == 1:
            names += ["int_scalars_us", "np.int64_scalars_us"]
    if len(ep) == 1 and f32_exact(pts):
        names.append("np.float32_scalars")
    return names


def make_ep(nap, pd, name, ep):
    st, en = G.arr([s for s, _ in ep]), G.arr([e for _, e in ep])
    if name == "arrays":
        return nap.IntervalSet(st, en)
    if name == "kw":
        return nap.IntervalSet(end=en, start=st, time_units="s")
    if name == "lists":
        return nap.IntervalSet(st.tolist(), en.tolist())
    if name == "tuples":
        return nap.IntervalSet(tuple(st.tolist()), tuple(en.tolist()))
    if name == "2d_array":
        return nap.IntervalSet(np.stack([st, en], axis=1))
    if name == "dataframe":
        return nap.IntervalSet(pd.DataFrame({"start": st, "end": en}))
    if name == "float_ms":
        return nap.IntervalSet(np.asarray([s for s, _ in ep], dtype=np.float64) / 1e6, np.asarray([e for _, e in ep], dtype=np.float64) / 1e6, time_units="ms")
    if name == "float_us":
        return nap.IntervalSet(np.asarray([s for s, _ in ep], dtype=np.float64) / 1e3, np.asarray([e for _, e in ep], dtype=np.float64) / 1e3, "us")
    if name == "metadata":
        return nap.IntervalSet(st, en, metadata={"label": ["i%d" % i for i in range(len(ep))], "w": list(range(len(ep)))})
    if name == "from_iset":
        return nap.IntervalSet(nap.IntervalSet(st, en))
    if name == "series":
        return nap.IntervalSet(pd.Series(st), pd.Series(en))
    if name == "index_and_t":
        return nap.IntervalSet(nap.Ts(st).index, nap.Ts(en).t)
    if name == "sliced":                       # history: a bigger set (one more interval far to the right), then the first len(ep) rows
        far = max(e for _, e in ep) + 10**9
        big = nap.IntervalSet(np.append(st, far / 1e9), np.append(en, (far + 10**6) / 1e9), metadata={"k": list(range(len(ep) + 1))})
        return big[0:len(ep)]
    if name == "intersected":                  # history: intersection with one interval that contains everything
        lo, hi = min(s for s, _ in ep) - 10**9, max(e for _, e in ep) + 10**9
        return nap.IntervalSet(st, en).intersect(nap.IntervalSet(lo / 1e9, hi / 1e9))
    if name == "saveload":
        path = os.path.join(tmpdir(), "ep.npz")
        nap.IntervalSet(st, en).save(path)
        return nap.load_file(path)
    if name == "scalars":
        return nap.IntervalSet(float(st[0]), float(en[0]))
    if name == "np_scalars":
        return nap.IntervalSet(np.float64(st[0]), end=np.float64(en[0]))
    if name == "0d_arrays":
        return nap.IntervalSet(np.array(st[0]), np.array(en[0]))
    if name == "int_scalars_us":
        return nap.IntervalSet(int(ep[0][0] // 1000), int(ep[0][1] // 1000), time_units="us")
    if name == "np.int64_scalars_us":
        return nap.IntervalSet(np.int64(ep[0][0] // 1000), np.int64(ep[0][1] // 1000), "us")
    if name == "np.float32_scalars":
        return nap.IntervalSet(np.float32(st[0]), np.float32(en[0]))
    kind, unit = name.split("_")
    return nap.IntervalSet(np.asarray([s // 1000 for s, _ in ep], dtype=np.dtype(kind)), np.asarray([e // 1000 for _, e in ep], dtype=np.dtype(kind)), time_units=unit)


def bin_forms(b, units):
    """forms of the bin size b (whole ns) expressed in `units`: (name, value, documented)"""
    f = UNITS[units]
    val = b / f
    out = [("float", float(val), True), ("np.float64", np.float64(val), True)]
    if b % f == 0:
        out += [("int", int(b // f), True), ("np.int64", np.int64(b // f), False), ("np.int32", np.int32(b // f), False)] if b // f < 2**31 else [("int", int(b // f), True)]
    if float(np.float32(val)) == float(val):
        out.append(("np.float32", np.float32(val), False))
    out.append(("0d_array", np.array(float(val)), False))
    return out


def data_columns(rng, dform, n, ncol):
    """-> (dtype, [column k as a list of Python numbers]): small exact values; column k differs from column 0"""
    base = [(i * 7 + 3) % 11 for i in range(n)]
    if dform in ("float64", "float32", "int64", "int32", "int16", "int8"):
        cols = [[(k + 1) * v - (5 if k % 2 else 0) for v in base] for k in range(ncol)]       # negative values in the odd columns
        return np.dtype(dform), cols
    if dform in ("uint8", "uint16", "uint32", "uint64"):
        return np.dtype(dform), [[(k + 1) * v for v in base] for k in range(ncol)]
    if dform == "bool":
        return np.dtype(bool), [[int((v + k) % 3 == 0) for v in base] for k in range(ncol)]
    if dform == "extreme":                      # the extreme values of a small dtype: a sum kept in the data's dtype would wrap around
        name = rng.choice(sorted(EXTREME))
        hi, lo = EXTREME[name]
        return np.dtype(name), [[(hi if (i + k) % 3 else lo) for i in range(n)] for k in range(ncol)]
    if dform == "zeros":
        return np.dtype(rng.choice(["float64", "int64", "uint8"])), [[0] * n for _ in range(ncol)]
    if dform == "all_equal":
        return np.dtype(rng.choice(["float64", "int32", "float32"])), [[7] * n for _ in range(ncol)]
    sp = {"nan": [float("nan")], "inf": [float("inf")], "mixed_inf": [float("inf"), float("-inf"), float("nan"), float("-inf")]}[dform]
    cols = []
    for k in range(ncol):
        col = [float((k + 1) * v) for v in base]
        for i in range(n):
            if rng.random() < 0.35:
                col[i] = rng.choice(sp)
        cols.append(col)
    return np.dtype(rng.choice(["float64", "float64", "float32"])), cols


def expected_means(ts, col, ep, b):
    """the statement for one column holding possibly NaN / +-inf, through the statement's own bin attribution (oracle_avg):
       -> [(2*centre, mean)] with mean = NaN (no sample, or a NaN, or both infinities), +-inf, or the exact Fraction"""
    fin = oracle_avg(ts, [v if (v == v and abs(v) != float("inf")) else 0 for v in col], ep, b)
    nn = oracle_avg(ts, [int(v != v) for v in col], ep, b)
    pi = oracle_avg(ts, [int(v == float("inf")) for v in col], ep, b)
    ni = oracle_avg(ts, [int(v == float("-inf")) for v in col], ep, b)
    out = []
    for j, (c2, cnt, sm) in enumerate(fin):
        if cnt == 0 or nn[j][2] or (pi[j][2] and ni[j][2]):
            out.append((c2, float("nan")))
        elif pi[j][2] or ni[j][2]:
            out.append((c2, float("inf") if pi[j][2] else float("-inf")))
        else:
            out.append((c2, Fr(sm) / cnt))
    return out


def diff_means(got, exp):
    """got [(tick, value)], exp [(2*centre, NaN | +-inf | Fraction)]"""
    part = diff_count([(a, 0) for a, _ in got], [(c2, 0) for c2, _ in exp])
    if part:
        return part
    for (_, d), (_, m) in zip(got, exp):
        if isinstance(m, float):
            if m != m:
                if d == d:
                    return "nan"
            elif d != m:
                return "nan" if d != d else "mean"
        elif d != d:
            return "nan"
        elif abs(Fr(float(d)) - m) > Fr(1, 10**12) * max(1, abs(m)):      # the mean is a float64 quotient: 1e-12 relative, nothing else
            return "mean"
    return None


def history_forms(cls, n_samples=1):
    h = ["none", "none", "restrict_wide", "restrict_wide", "slice_all", "slice_all", "get_all", "get_all", "saveload", "twice", "twice"]
    if n_samples:        # (an EMPTY TsdFrame indexed by an empty boolean mask comes back with shape (0, 0): __getitem__, not this property's operations)
        h.append("bool_index")
    if cls != "Ts":
        h += ["times_one", "times_one", "np_add_zero", "np_add_zero"]
    return h


def apply_history(nap, hist, x, lo, hi, eep=None):
    if hist == "restrict_wide":
        if eep is not None:      # the receiver's time support IS the argument (default ep): restrict to those very intervals instead
            return x.restrict(nap.IntervalSet(G.arr([s for s, _ in eep]), G.arr([e for _, e in eep])))
        return x.restrict(nap.IntervalSet(lo, hi))
    if hist == "slice_all":
        return x[0:len(x)]
    if hist == "get_all":
        return x.get(lo, hi)
    if hist == "bool_index":
        return x[np.ones(len(x), dtype=bool)]
    if hist == "times_one":
        return x * 1
    if hist == "np_add_zero":
        return np.add(x, 0)
    if hist == "saveload":
        path = os.path.join(tmpdir(), "x.npz")
        x.save(path)
        return nap.load_file(path)
    return x


def call_styles():
    return ["positional", "keyword", "mixed", "keyword_reordered"]


def pick_time_form(rng, ticks):
    """integer / unsigned forms apply to few inputs: when they do, take one of them half of the time"""
    names = time_forms(ticks)
    rare = [q for q in names if q.split("_")[0] in ("int64", "int32", "uint64", "uint32", "uint16") or q.startswith("list_int")]
    return rng.choice(rare) if rare and rng.random() < 0.5 else rng.choice(names)


def pick_ep_form(rng, ep):
    names = ep_forms(ep)
    rare = [q for q in names if q.split("_")[0] in ("int64", "uint64", "uint32", "uint8", "int", "np.int64", "np.float32") or q in ("scalars", "np_scalars", "0d_arrays")]
    r = rng.random()
    if rare and r < 0.4:
        return rng.choice(rare)
    names = [q for q in names if q != "saveload"] if r < 0.8 else names       # (the disk round trip is the slow one)
    return rng.choice(names)


def pick_bin_form(rng, b, units):
    """documented forms (float, np.float64 = a float subclass, Python int) 85 % of the time, a Python int whenever b is a whole number of the unit half of the time"""
    forms = bin_forms(b, units)
    ints = [f for f in forms if f[0] == "int"]
    r = rng.random()
    if ints and r < 0.5:
        return ints[0]
    doc = [f for f in forms if f[2]]
    und = [f for f in forms if not f[2]]
    return rng.choice(und) if und and r > 0.85 else rng.choice(doc)


def forms_case(nap, n, c, inp, seed, res=None):
    """One sampled point of the product of argument forms for each of: count with a bin size, count without, bin_average, TsGroup.count (both).
    Every random choice derives from (seed, n). Returns the violations."""
    import pandas as pd
    ts, ep, b = c["ts"], c["ep"], c["bin"]
    rng = random.Random(seed * 7919 + n)
    out = []
    n_s = len(ts)

    def cnt(name):
        if res is not None:
            res.count("form:" + name)

    allt = [s for s, _ in ep] + [e for _, e in ep] + ts + [0]
    lo, hi = min(allt) / 1e9 - 1.0, max(allt) / 1e9 + 1.0
    inside = any(s <= q <= e for s, e in ep for q in ts)

    def guarded(op, flags, f, documented=True):
        try:
            return f()
        except Exception as ex:
            if not documented and isinstance(ex, CLEAN):
                cnt("clean_exception_on_undocumented_bin_form")
                return None
            out.append(viol(op, "exception", "%s raised %s: %s" % (op, type(ex).__name__, str(ex)[:160]), inp, dict(flags, exc=type(ex).__name__)))
            return None

    def ep_mode_of(n_in):
        """how the intervals reach the call: explicitly, as the time support the receiver was built with, or as its default time support"""
        modes = ["explicit", "explicit"]
        if inside:
            modes.append("support_given")
        if n_in >= 2 and ts[0] < ts[-1] and (ts[-1] - ts[0]) // b <= 2000:
            modes.append("support_default")
        return rng.choice(modes)

    def receiver(cls, tform, mode, epo, dvals=None, cols=None, meta=False):
        tobj, units = make_time(nap, pd, tform, ts)
        kw = {}
        if units != "s" or rng.random() < 0.2:
            kw["time_units"] = units
        if mode == "support_given":
            kw["time_support"] = epo
        elif mode == "explicit":
            kw["time_support"] = nap.IntervalSet(lo, hi)        # explicit support: series whose timestamps all coincide keep their samples
        if cls == "Ts":
            return nap.Ts(t=tobj, **kw) if rng.random() < 0.3 else nap.Ts(tobj, **kw)
        if tform == "pd_series":                                   # the pandas forms carry the data
            if cls == "Tsd":
                return nap.Tsd(pd.Series(dvals, index=G.arr(ts)), **kw)
            if cls == "TsdFrame":
                return nap.TsdFrame(pd.DataFrame(dvals, index=G.arr(ts), columns=cols), **kw)
            tobj = pd.Index(G.arr(ts))
        bykw = rng.random() < 0.3                                   # constructor arguments by keyword
        if isinstance(dvals, LazyArray):
            kw["load_array"] = False
        if cls == "Tsd":
            return nap.Tsd(d=dvals, t=tobj, **kw) if bykw else nap.Tsd(tobj, dvals, **kw)
        if cls == "TsdFrame":
            if meta:
                kw["metadata"] = {"m": list(range(dvals.shape[1]))}
            if cols is not None:
                kw["columns"] = cols
            return nap.TsdFrame(d=dvals, t=tobj, **kw) if bykw else nap.TsdFrame(tobj, dvals, **kw)
        return nap.TsdTensor(d=dvals, t=tobj, **kw) if bykw else nap.TsdTensor(tobj, dvals, **kw)

    def plain_data(cls):
        fvs = np.asarray(values_of(ts), float)
        how = rng.choice(["float64", "float64", "float32", "int64", "int16", "uint8", "bool", "nan", "inf"])
        cnt("count_receiver_data=" + how)
        if how in ("nan", "inf") and len(fvs):
            fvs[::2] = float(how)                                   # a sample whose value is NaN / inf is a sample all the same
        elif how not in ("nan", "inf"):
            fvs = fvs.astype(how)
        if cls == "Tsd":
            return fvs
        if cls == "TsdFrame":
            return np.stack([fvs, fvs * 2], axis=1)
        return np.stack([fvs, fvs * 2, fvs * 3, fvs * 4], axis=1).reshape(-1, 2, 2)

    def call(x, meth, style, val, epo, units, dt_name, dt, with_ep):
        """the public call in the sampled style; with_ep False = ep left to its default (None)"""
        kw_dt = {} if dt_name == "omitted" or meth == "bin_average" else {"dtype": dt}
        f = getattr(x, meth)
        if style == "positional":
            args = [val]
            if with_ep or units != "s" or kw_dt:
                args.append(epo if with_ep else None)
            if units != "s" or kw_dt:
                args.append(units)
            if kw_dt:
                args.append(dt)
            return f(*args)
        kw = dict(kw_dt)
        if with_ep:
            kw["ep"] = epo
        elif rng.random() < 0.5:
            kw["ep"] = None
        if units != "s" or rng.random() < 0.3:
            kw["time_units"] = units
        if style == "keyword":
            return f(bin_size=val, **kw)
        if style == "mixed":
            return f(val, **kw)
        kw["bin_size"] = val
        return f(**dict(reversed(list(kw.items()))))

    def exp_ep(mode):
        return [(ts[0], ts[-1])] if mode == "support_default" else list(ep)

    # ---- A. count with a bin size --------------------------------------------------------------------------------
    cls = rng.choice(["Ts", "Ts", "Tsd", "TsdFrame", "TsdTensor"])
    tform = pick_time_form(rng, ts)
    eform = pick_ep_form(rng, ep)
    mode = ep_mode_of(n_s)
    hist = rng.choice(history_forms(cls, n_s))
    style = rng.choice(call_styles())
    units = rng.choice(["s", "ms", "us"])
    bname, bval, documented = pick_bin_form(rng, b, units)
    dt_name, dt = rng.choice(COUNT_DTYPES)
    flags = {"widened": True, "t_form": tform, "ep_form": eform, "ep_mode": mode, "history": hist, "call": style, "units": units, "bin_form": bname, "dtype": dt_name}
    op = cls + ".count"
    for k_ in ("t=" + tform, "ep=" + eform, "ep_mode=" + mode, "history=" + hist, "call=" + style, "bin=" + bname + "/" + units, "count_dtype=" + dt_name, "class=" + cls):
        cnt(k_)
    eep = exp_ep(mode)
    exp = oracle(ts, eep, b)
    if dt_name == "bool" and any(e_[1] > 1 for e_ in exp):
        dt_name, dt = "np.uint8", np.uint8               # a bool cannot hold a count of 2
        flags["dtype"] = dt_name
    epo = guarded("IntervalSet", flags, lambda: make_ep(nap, pd, eform, ep))
    x = None
    if epo is not None:
        dv = None if cls == "Ts" else plain_data(cls)
        colsA = rng.choice([None, ["a", "b"], [7, 3], ["b", "a"], [1, 0]]) if cls == "TsdFrame" else None
        x = guarded(cls, flags, lambda: apply_history(nap, hist, receiver(cls, tform, mode, epo, dv, colsA, meta=rng.random() < 0.3), lo, hi, None if mode == "explicit" else eep))
    if x is not None:
        reps = 2 if hist == "twice" else 1
        got_prev = None
        for _rep in range(reps):
            r = guarded(op, flags, lambda: call(x, "count", style, bval, epo, units, dt_name, dt, mode == "explicit"), documented)
            if r is None and not documented:
                r = guarded(op, flags, lambda: call(x, "count", style, float(bval), epo, units, dt_name, dt, mode == "explicit"))
            if r is None:
                break
            got = list(zip([C.to_ns(q) for q in r.t], [int(v) for v in r.values]))
            part = diff_count(got, exp)
            if part is None and type(r).__name__ != "Tsd":
                part = "class"
            if part is None and r.values.dtype != np.dtype(np.int64 if dt is None else dt):
                part = "dtype"
            if part is None and support_of(r) != eep and not (not exp and support_of(r) == []):
                part = "support"
            if part is None and got_prev is not None and got != got_prev:
                part = "second_call"
            if part:
                out.append(viol(op, part, "count in another argument form differs from the stated grid / dtype / support", inp, flags, impl=got, expected=exp))
                break
            got_prev = got
        # ---- B. count without a bin size: per-interval counts (closed intervals) summing to len(restrict) ---------
        want = [sum(1 for q in ts if s <= q <= e) for s, e in eep]
        styleB = rng.choice(["ep_kw", "positional_None", "all_kw", "units_too"]) if mode == "explicit" else rng.choice(["no_args", "None_None", "dtype_only"])
        cnt("count_nobin_call=" + styleB)
        dtB = None if dt_name == "bool" else dt
        fB = {"ep_kw": lambda: x.count(ep=epo) if dtB is None else x.count(ep=epo, dtype=dtB),
              "positional_None": lambda: x.count(None, epo) if dtB is None else x.count(None, epo, "s", dtB),
              "all_kw": lambda: x.count(bin_size=None, ep=epo, time_units="s", dtype=dtB),
              "units_too": lambda: x.count(ep=epo, time_units=units, dtype=dtB),
              "no_args": lambda: x.count(),
              "None_None": lambda: x.count(None, None, units, dtB),
              "dtype_only": lambda: x.count(dtype=dtB)}[styleB]
        flagsB = dict(flags, call=styleB)
        r0 = guarded(cls + ".count(ep=)", flagsB, fB)
        if r0 is not None:
            dtw = np.dtype(np.int64) if (dtB is None or styleB == "no_args") else np.dtype(dtB)
            nres = guarded(cls + ".restrict", flagsB, lambda: len(x.restrict(epo)) if mode != "support_default" else len(x))
            if [int(v) for v in r0.values] != want or r0.values.dtype != dtw or (nres is not None and sum(want) != nres):
                out.append(viol(cls + ".count(ep=)", "count", "per-interval counts (another argument form) wrong, wrong dtype or not summing to len(restrict)", inp, flagsB,
                                impl=[r0.values.tolist(), str(r0.values.dtype)], expected=want))

    # ---- C. bin_average -------------------------------------------------------------------------------------------
    cls = rng.choice(["Tsd", "TsdFrame", "TsdFrame", "TsdTensor"])
    tform = pick_time_form(rng, ts)
    eform = pick_ep_form(rng, ep)
    mode = ep_mode_of(n_s)
    hist = rng.choice(history_forms(cls, n_s))
    style = rng.choice(call_styles())
    units = rng.choice(["s", "ms", "us"])
    bname, bval, documented = pick_bin_form(rng, b, units)
    if bname == "int":
        documented = False                        # the docstring of bin_average says float
    dform = rng.choice(DATA_FORMS)
    ncol = {"Tsd": 1, "TsdFrame": rng.choice([1, 2, 3]), "TsdTensor": 4}[cls]
    dtp, colvals = data_columns(rng, dform, n_s, ncol)
    special = dform in ("nan", "inf", "mixed_inf")
    cols = None
    if cls == "TsdFrame":
        cols = rng.choice([None, ["a", "b", "c"], [7, 3, 5], ["b", "a", "c"], [2, 0, 1], ["10", "9", "100"]])
        cols = cols[:ncol] if cols is not None else None
    meta = cls == "TsdFrame" and rng.random() < 0.3
    flags = {"widened": True, "t_form": tform, "ep_form": eform, "ep_mode": mode, "history": hist, "call": style, "units": units, "bin_form": bname, "data": dform,
             "data_dtype": str(dtp)}
    op = cls + ".bin_average"
    for k_ in ("avg_t=" + tform, "avg_ep=" + eform, "avg_ep_mode=" + mode, "avg_history=" + hist, "avg_call=" + style, "avg_bin=" + bname + "/" + units, "avg_data=" + dform,
               "avg_data_dtype=" + str(dtp), "avg_class=" + cls, "avg_columns=" + ("default" if cols is None else type(cols[0]).__name__ + ("_sorted" if cols == sorted(cols) else "_unsorted"))):
        cnt(k_)
    if cls == "TsdFrame" and meta:
        cnt("avg_frame_with_metadata")
    darr = np.asarray(colvals, dtype=np.float64).T.astype(dtp) if special else np.asarray(colvals, dtype=object).T.astype(dtp) if n_s else np.zeros((0, ncol), dtype=dtp)
    darr = darr.reshape((n_s,) if cls == "Tsd" else (n_s, ncol) if cls == "TsdFrame" else (n_s, 2, 2))
    if rng.random() < 0.25 and n_s:
        cnt("avg_data_strided_view")
        darr = np.repeat(darr, 2, axis=0)[::2]                   # data that is a non-contiguous view
    lazy = tform != "pd_series" and hist in ("none", "twice", "restrict_wide", "slice_all", "get_all") and rng.random() < 0.25
    if lazy:
        cnt("avg_data_lazy_array_like(load_array=False)")
        flags["lazy_data"] = True
        darr = LazyArray(np.ascontiguousarray(darr))
    eep = exp_ep(mode)
    epo = guarded("IntervalSet", flags, lambda: make_ep(nap, pd, eform, ep))
    y = None
    if epo is not None:
        y = guarded(cls, flags, lambda: apply_history(nap, hist, receiver(cls, tform, mode, epo, darr, cols, meta), lo, hi, None if mode == "explicit" else eep))
    if y is not None:
        reps = 2 if hist == "twice" else 1
        for _rep in range(reps):
            r = guarded(op, flags, lambda: call(y, "bin_average", style, bval, epo, units, "omitted", None, mode == "explicit"), documented)
            if r is None and not documented:
                r = guarded(op, flags, lambda: call(y, "bin_average", style, float(bval), epo, units, "omitted", None, mode == "explicit"))
            if r is None:
                break
            wantcols = list(range(ncol)) if cols is None else cols
            if type(r).__name__ != cls or r.values.shape[1:] != darr.shape[1:] or (cls == "TsdFrame" and list(r.columns) != wantcols):
                out.append(viol(op, "shape", "bin_average (another argument form) changed the class / trailing shape / column labels", inp, flags,
                                impl=[type(r).__name__, list(r.values.shape), [str(q) for q in getattr(r, "columns", [])]]))
                break
            flat = np.asarray(r.values, dtype=np.float64).reshape(len(r), ncol)
            rt = [C.to_ns(q) for q in r.t]
            part = None
            for k in range(ncol):
                got = list(zip(rt, flat[:, k].tolist()))
                expk = expected_means(ts, colvals[k], eep, b)
                part = diff_means(got, expk)
                if part:
                    out.append(viol(op, part, "bin_average (another argument form / data dtype / special values) differs from the per-bin mean on the stated grid, column %d" % k, inp,
                                    flags, impl=got, expected=[(c2, str(m)) for c2, m in expk]))
                    break
            if part:
                break
            if support_of(r) != eep and not (not rt and support_of(r) == []):
                out.append(viol(op, "support", "support of bin_average (another argument form) is not ep", inp, flags, impl=support_of(r)))
                break

    # ---- C'. time_units in another letter case: the statement knows s / ms / us only; either a clean exception or the lower-case unit's result ----
    if x is not None and y is not None and rng.random() < 0.15:
        u = rng.choice(["ms", "us", "s"])
        bad = rng.choice([u.upper(), u.capitalize(), u + " "])
        cnt("units_other_case")
        for opx, recv, meth in ((type(x).__name__ + ".count", x, "count"), (type(y).__name__ + ".bin_average", y, "bin_average")):
            try:
                r = getattr(recv, meth)(b / UNITS[u], epo, bad) if rng.random() < 0.5 else getattr(recv, meth)(b / UNITS[u], ep=epo, time_units=bad)
            except CLEAN:
                continue
            except Exception as ex:
                out.append(viol(opx, "exception", "time_units=%r raised %s" % (bad, type(ex).__name__), inp, {"widened": True, "units_other_case": True, "exc": type(ex).__name__}))
                continue
            part = diff_count([(C.to_ns(q), 0) for q in r.t], [(c2, 0) for c2, _ in oracle(ts, ep, b)])
            if part:
                out.append(viol(opx, part, "time_units=%r accepted and read as another unit" % bad, inp, {"widened": True, "units_other_case": True}, impl=[C.to_ns(q) for q in r.t]))

    # ---- D. TsGroup.count (two form cases out of three: building a group is the slow part) -------------------------
    if rng.random() < 1 / 3:
        return out
    gform = rng.choice(["dict_ts", "list", "list", "dict_arrays", "dict_arrays", "dict_lists", "dict_lists", "bypass_check", "bypass_check", "metadata", "metadata", "positional_support",
                        "positional_support", "empty_group", "empty_group", "empty_member", "empty_member", "shared_member", "shared_member", "saveload", "dict_tsd_members", "dict_tsd_members"])
    kform = rng.choice(["0..n-1", "ints_unsorted", "negative", "sparse_big", "str_multi_digit", "float_integral", "np_int64", "str_and_int"])
    keysets = {"0..n-1": [0, 1, 2, 3], "ints_unsorted": [5, 2, 3, 9], "negative": [-1, 7, 3, -10], "sparse_big": [1000, 20, 3, 100000], "str_multi_digit": ["10", "9", "100", "2"],
               "float_integral": [2.0, 0.0, 11.0, 1.0], "np_int64": [np.int64(4), np.int64(1), np.int64(12), np.int64(0)], "str_and_int": ["12", 5, "3", 40]}
    keys = keysets[kform]
    mem_ts = [ts, ts[::2], ts[:1], ts[1::2]]
    nmem = 4 if gform in ("empty_member", "shared_member") else 3
    if gform == "empty_member":
        mem_ts[3] = []
    if gform == "shared_member":
        mem_ts[3] = ts
    if gform == "list":
        keys, kform = [0, 1, 2, 3], "0..n-1"
    if gform == "empty_group":
        nmem = 0
    keys = keys[:nmem]
    members = {int(k): mem_ts[i] for i, k in enumerate(keys)}
    labels = sorted(members)
    gunits = rng.choice(["s", "ms", "us"]) if gform in ("dict_arrays", "dict_lists") else "s"
    eform = pick_ep_form(rng, ep)
    gmode = rng.choice(["explicit", "explicit", "support_given"])
    ghist = rng.choice(["none", "none", "subset", "restrict", "twice"]) if nmem else "none"
    style = rng.choice(call_styles())
    units = rng.choice(["s", "ms", "us"])
    bname, bval, documented = pick_bin_form(rng, b, units)
    dt_name, dt = rng.choice(COUNT_DTYPES)
    if dt_name == "bool":
        dt_name, dt = "np.uint16", np.uint16
    flags = {"widened": True, "group_form": gform, "keys": kform, "ep_form": eform, "ep_mode": gmode, "history": ghist, "call": style, "units": units, "bin_form": bname,
             "dtype": dt_name, "member_units": gunits}
    for k_ in ("group=" + gform, "group_keys=" + kform, "group_ep=" + eform, "group_ep_mode=" + gmode, "group_history=" + ghist, "group_call=" + style,
               "group_bin=" + bname + "/" + units, "group_dtype=" + dt_name, "group_member_units=" + gunits):
        cnt(k_)
    epo = guarded("IntervalSet", flags, lambda: make_ep(nap, pd, eform, ep))
    if epo is None:
        return out

    def build_group():
        sup = epo if gmode == "support_given" else nap.IntervalSet(lo, hi)
        tA = G.arr(ts)
        if gform in ("dict_arrays", "dict_lists"):
            f = {"s": 1e9, "ms": 1e6, "us": 1e3}[gunits]
            raw = [np.asarray(m, dtype=np.float64) / f for m in mem_ts[:nmem]]
            data = {k: (raw[i] if gform == "dict_arrays" else raw[i].tolist()) for i, k in enumerate(keys)}
            return nap.TsGroup(data, time_support=sup, time_units=gunits)
        wide = nap.IntervalSet(lo, hi)
        if gform == "dict_tsd_members":
            objs = [nap.Tsd(G.arr(m), np.arange(len(m)), time_support=wide) for m in mem_ts[:nmem]]
        else:
            objs = [nap.Ts(G.arr(m), time_support=wide) if i != 2 else nap.Tsd(G.arr(m), np.asarray(values_of(m), float), time_support=wide) for i, m in enumerate(mem_ts[:nmem])]
        if gform == "shared_member":
            objs[3] = objs[0]                                      # the same live object under two keys
        if gform == "list":
            return nap.TsGroup(objs, time_support=sup)
        data = {k: objs[i] for i, k in enumerate(keys)}
        if gform == "bypass_check":
            if gmode == "support_given":                           # bypass_check skips the restriction: hand over members that already lie in the support
                data = {k: o.restrict(sup) for k, o in data.items()}
            return nap.TsGroup(data, time_support=sup, bypass_check=True)
        if gform == "metadata":
            return nap.TsGroup(data, time_support=sup, metadata={"area": ["x%d" % i for i in range(nmem)]})
        if gform == "positional_support":
            return nap.TsGroup(data, sup, "s", False)
        if gform == "saveload":
            path = os.path.join(tmpdir(), "g.npz")
            nap.TsGroup(data, time_support=sup).save(path)
            return nap.load_file(path)
        return nap.TsGroup(data, time_support=sup)

    g = guarded("TsGroup", flags, build_group)
    if g is None:
        return out
    if ghist == "subset":
        sub = labels[::2]
        pick = rng.choice(["list", "array", "bool"])
        cnt("group_subset_by=" + pick)
        g = guarded("TsGroup.__getitem__", flags, lambda: g[sub] if pick == "list" else g[np.asarray(sub)] if pick == "array" else g[np.asarray([k in sub for k in labels])])
        labels = sub
    elif ghist == "restrict":
        g = guarded("TsGroup.restrict", flags, lambda: g.restrict(epo))
        gmode = "support_given"
    if g is None:
        return out
    gprev = None
    for _rep in range(2 if ghist == "twice" else 1):
        gc = guarded("TsGroup.count", flags, lambda: call(g, "count", style, bval, epo, units, dt_name, dt, gmode == "explicit"), documented)
        if gc is None and not documented:
            gc = guarded("TsGroup.count", flags, lambda: call(g, "count", style, float(bval), epo, units, dt_name, dt, gmode == "explicit"))
        if gc is None:
            break
        gt = [C.to_ns(q) for q in gc.t]
        part, what = None, ""
        if type(gc).__name__ != "TsdFrame" or gc.values.ndim != 2:
            part, what = "class", "group count is not a TsdFrame"
        elif [int(q) for q in gc.columns] != labels or any(isinstance(q, str) for q in gc.columns):
            part, what = "labels", "columns are not the sorted (integer) keys"
        elif nmem and gc.values.dtype != np.dtype(np.int64 if dt is None else dt):
            part, what = "dtype", "group count dtype is not the requested one"
        elif not nmem:
            part = diff_count([(q, 0) for q in gt], [(c2, 0) for c2, _ in oracle([], ep, b)])
            what = "rows of an EMPTY group's count are not the stated grid"
        else:
            for k, key in enumerate(labels):
                gotk = list(zip(gt, [int(v) for v in gc.values[:, k]]))
                part = diff_count(gotk, oracle(members[key], ep, b))
                if part:
                    what = "group count column %d differs from member %d's count on the stated grid" % (k, key)
                    break
        if part is None and support_of(gc) != list(ep) and not (not gt and support_of(gc) == []):
            part, what = "support", "support of the group count is not ep"
        snap = gc.values.tolist()
        if part is None and gprev is not None and snap != gprev:
            part, what = "second_call", "the same call on the same live group gave another result"
        if part:
            out.append(viol("TsGroup.count", part, what + " (another argument form)", inp, flags, impl=[gt, snap, [str(q) for q in gc.columns]]))
            break
        gprev = snap
    styleB = rng.choice(["ep_kw", "positional_None", "all_kw"]) if gmode == "explicit" else rng.choice(["no_args", "dtype_only"])
    cnt("group_nobin_call=" + styleB)
    fB = {"ep_kw": lambda: g.count(ep=epo, dtype=dt) if dt is not None else g.count(ep=epo), "positional_None": lambda: g.count(None, epo, units, dt),
          "all_kw": lambda: g.count(dtype=dt, time_units=units, ep=epo, bin_size=None), "no_args": lambda: g.count(), "dtype_only": lambda: g.count(dtype=dt)}[styleB]
    flagsB = dict(flags, call=styleB)
    g0 = guarded("TsGroup.count(ep=)", flagsB, fB)
    if g0 is not None:
        wantg = [[sum(1 for q in members[key] if s <= q <= e) for key in labels] for s, e in ep]
        dtw = np.dtype(np.int64) if (dt is None or styleB == "no_args") else np.dtype(dt)
        if [int(q) for q in g0.columns] != labels or [[int(v) for v in row] for row in g0.values] != wantg or (nmem and g0.values.dtype != dtw):
            out.append(viol("TsGroup.count(ep=)", "count", "group per-interval counts / labels / dtype wrong (another argument form)", inp, flagsB,
                            impl=[g0.values.tolist(), str(g0.values.dtype), [str(q) for q in g0.columns]], expected=wantg))
    return out


def run(res, tier, seed, only=None):
    nap, J = _nap()
    warnings.simplefilter("ignore")
    res.rule = ("kernel jitcount + jitbin_array and public count (Ts/Tsd/TsdFrame/TsdTensor) / bin_average (Tsd/TsdFrame/TsdTensor, s/ms/us) / TsGroup.count (3 members incl. a "
                "Tsd, units, dtype, and without bin size): ALL (<=2 intervals incl. the empty IntervalSet, <=3(4) samples, 5 bin sizes shorter than/equal to/longer than/"
                "not dividing the interval) on a 7(8)-point dyadic lattice (2^-9 s) [seeded subsample of the complete product in quick, complete in thorough] incl. samples on bin "
                "edges and interval ends, centre == end; + random decimal-lattice cases with even bin sizes; + random cases with ODD numbers of ns (1 ns .. 1000001 ns; ends on, "
                "half a tick before and half a tick beyond a bin centre); + (public API only, statement in exact rationals) bin sizes that are NOT a whole number of ns "
                "(1/1024 s, 1/256 us, 1/3 ms, 1/30000 s ...; samples next to the exact and to the ns-rounded bin edges) and positive bin sizes below 0.5 ns; time offsets 0, "
                "-5.9 ms, -1.95 s, +1 day. Whole-ns cases are compared with the extracted model AND the brute-force statement of the property; 7 count dtypes rotate. "
                "non-trivial = at least one sample; distinct = distinct (ts, ep, b). "
                "ARGUMENT FORMS (widening; same abstract input, same oracle functions; every whole-ns public case of the three kinds below and every second other one in quick, "
                "every twentieth in thorough; one point of the product of the axes per operation, drawn from random.Random(seed*7919+n)): "
                "[kinds] us_lattice = instants and bin size whole numbers of us / ms with origins 0, straddling 0, negative, +-1e5 s; many_intervals = 5..12 intervals, most holding "
                "zero or one sample; all_equal = every timestamp coincides (explicit time support). "
                "[axis 1, data] bin_average on float64/float32/int64..int8/uint8..uint64/bool data, the extreme values of each small dtype, NaN, +inf, -inf and both infinities in one "
                "bin (mean = IEEE mean: NaN / +-inf), zeros, all-equal data, data that is a strided view; count on receivers holding any of these (a NaN sample is a sample). "
                "[axis 2, time arguments] the receiver's t as ndarray / list / tuple / pandas Index / pandas Series or DataFrame / another object's TsIndex / x.t / read-only / "
                "strided view / float32 (exactly representable instants) / float ms and us / int64 int32 uint64 uint32 uint16 arrays and lists of Python ints in us and ms; the "
                "IntervalSet from arrays / lists / tuples / 2-d array / DataFrame / Series / TsIndex + x.t / another IntervalSet / Python, numpy and 0-d scalars / Python-int "
                "scalars / float ms and us / int64 uint64 uint32 uint8 arrays in us / keyword order swapped / with metadata; the bin size as float, np.float64, Python int, and "
                "(undocumented: a TypeError / ValueError or the stated result) np.float32, np.int64, np.int32, 0-d array, bin_average with a Python int. "
                "[axis 3, parameters] every call positional / keyword / mixed / keywords in reverse order; ep explicit, omitted, None; bin_size None explicit; dtype omitted, None and "
                "17 spellings (types, strings, np.dtype, int, float, bool when no count exceeds 1) also WITHOUT a bin size; time_units combined with dtype and ep. "
                "[axis 4, units] s / ms / us for the bin size, the receiver's times, the IntervalSet and the raw members of a TsGroup; time_units in another letter case must raise "
                "or mean the lower-case unit. [axis 5, placement] see kinds; samples on interval ends and bin edges throughout. "
                "[axis 6, degenerate] empty series in every form, one sample, coinciding timestamps, empty IntervalSet, empty TsGroup (rows = the stated grid, no columns), a group "
                "with an empty member, the same live object under two keys, keys 0..n-1 / unsorted / negative / sparse and large / multi-digit strings / integral floats / np.int64 / "
                "strings mixed with ints. [axis 7, classes] Ts, Tsd, TsdFrame (default, string, integer, unsorted column labels, with metadata; 1..3 columns), TsdTensor; TsGroup from "
                "a dict of Ts, of Tsd, a list, raw arrays or lists with time_units, with metadata, positional time_support, bypass_check=True. "
                "[axis 8, histories] the receiver after restrict / x[0:n] / get / boolean index / x*1 / np.add(x,0) / save+load, the same call twice on one live object; the "
                "IntervalSet after slicing a larger one, intersect, save+load; the group after g[[keys]] (list, array, boolean), restrict, save+load; ep taken from the time support "
                "the receiver was built with and from its default time support (first..last sample).")
    res.exhaustive = tier == "thorough"
    cs = [shifted(c, n) for n, c in enumerate(cases(tier, seed))]
    if only is not None:
        cs = [c for c in cs if only(c)]
    wh = [c for c in cs if "value" not in c]
    lines = []
    for c in wh:
        ts, ep, b = c["ts"], c["ep"], c["bin"]
        lines.append("count\t%s\t%s\t%d" % (C.fmt_ints(ts), C.fmt_iset(ep), b))
        lines.append("bin_average\t%s\t%s\t%s\t%d" % (C.fmt_ints(ts), C.fmt_ints(values_of(ts)), C.fmt_iset(ep), b))
    out = C.run_model(lines) if lines else []
    stride = 5 if tier == "quick" else 3
    fstride = 2 if tier == "quick" else 20
    mi = -1
    for n, c in enumerate(cs):
        ts, ep, b, kind = c["ts"], c["ep"], c["bin"], c["kind"]
        whole = "value" not in c
        mi += 1 if whole else 0
        inp = {"ts": ts, "ep": ep, "bin": b if whole else str(b), "kind": kind, "n": n, "seed": seed}
        if not whole:
            inp.update(value=c["value"], units=c["units"])
        res.case((tuple(ts), tuple(ep), b), nontrivial=len(ts) > 0)
        res.count("kind=" + kind)
        res.count("n_samples=%d" % min(len(ts), 4))
        if not ep:
            res.count("empty_intervalset")
        if any((x - s) % b == 0 for s, e in ep for x in ts if s <= x <= e):
            res.count("sample_on_bin_edge")
        if any(e - s >= b / 2 and (2 * (e - s) - b) % (2 * b) == 0 for s, e in ep):
            res.count("centre_equals_end")
        if whole and late_candidates(ep, b):
            res.count("centre_half_tick_beyond_end")
        if whole and b % 2 and any(e - s >= Fr(b + 1, 2) and (2 * (e - s) - 1 - b) % (2 * b) == 0 for s, e in ep):
            res.count("centre_half_tick_before_end")
        if whole:
            vk, impl, impla, exp, expa = kernel_case(J, c, inp)
            res.violations.extend(vk)
            m0 = out[2 * mi].split("|")
            mod = list(zip([int(x) for x in m0[0].split()], [int(x) for x in m0[1].split()]))
            if mod != exp:
                res.disagreements.append({"op": "count model vs statement", "input": inp, "model": mod, "expected": exp})
            elif diff_count(impl, mod) and not vk:
                res.disagreements.append({"op": "jitcount", "input": inp, "impl": impl, "model": mod})
            m1 = out[2 * mi + 1].split("|")
            moda = list(zip([int(x) for x in m1[0].split()], [int(x) for x in m1[1].split()], [int(x) for x in m1[2].split()]))
            if moda != expa:
                res.disagreements.append({"op": "bin_average model vs statement", "input": inp, "model": moda, "expected": expa})
            if n % 4001 == 0:
                res.sample({"ts": ts, "ep": ep, "bin": b, "count": impl})
        elif near_miss(ts, ep, b):
            res.float_ambiguous += 1
            continue
        # public API: a subsample of the lattice cases, every odd / non-whole / sub-ns case
        if n % stride == 0 or kind in ("not_whole_ns", "below_half_ns") or (kind == "odd_ns" and n % 2 == 0) or kind in NOSHIFT:
            res.evaluations += 1
            res.count("public_cases")
            try:
                vp = public_case(nap, n, c, inp)
            except Exception as ex:
                vp = [viol("public", "exception", "harness-level exception in the public calls %s: %s" % (type(ex).__name__, str(ex)[:160]), inp,
                           {"exc": type(ex).__name__, "bin_whole_ns": bool(whole), "bin_below_half_ns": bool(b < Fr(1, 2))})]
            res.violations.extend(vp)
            # the same case in other ARGUMENT FORMS (whole-ns bin sizes; the kinds made for it always, the others on a stride)
            if whole and (kind in NOSHIFT or (n // stride) % fstride == 0):
                res.evaluations += 1
                res.count("form_cases")
                try:
                    vf = forms_case(nap, n, c, inp, seed, res)
                except Exception as ex:
                    vf = [viol("forms", "exception", "harness-level exception in the argument-form calls %s: %s" % (type(ex).__name__, str(ex)[:160]), inp,
                               {"widened": True, "exc": type(ex).__name__})]
                res.violations.extend(vf)
            if not whole and len(res.samples) < 5 and n % 97 == 0:
                res.sample({"ts": ts, "ep": ep, "bin_ticks": str(b), "value": c["value"], "units": c["units"], "violations": len(vp)})


def search(res, seed):
    r2 = C.Result()
    run(r2, "thorough", seed)
    return r2.violations[0] if r2.violations else None


def replay(payload):
    nap, J = _nap()
    warnings.simplefilter("ignore")
    v = payload.get("violation") or (payload.get("disagreements") or [{}])[0]
    inp = v.get("input", {})
    c = {"ts": list(inp.get("ts", [])), "ep": [tuple(x) for x in inp.get("ep", [])], "kind": inp.get("kind", "replay")}
    n = int(inp.get("n", 0))
    if "value" in inp:
        c.update(value=float(inp["value"]), units=inp["units"], bin=Fr(float(inp["value"])) * UNITS[inp["units"]])
    else:
        c["bin"] = int(inp.get("bin", 1000))
    print("input", inp)
    vs = []
    if "value" not in c:
        vk, impl, impla, exp, expa = kernel_case(J, c, inp)
        print("jitcount (centre tick, count)  :", impl)
        print("statement (2*centre, count)    :", exp)
        vs += vk
    try:
        vs += public_case(nap, n, c, inp)
        if "value" not in c:
            vs += forms_case(nap, n, c, inp, int(inp.get("seed", 0)))
    except Exception as ex:
        print("public calls raised", type(ex).__name__, ex)
        return 1
    for x in vs:
        print("VIOLATED:", x["key"], "-", x["what"])
        if "impl" in x:
            print("   implementation:", x["impl"])
        if "expected" in x:
            print("   expected      :", x["expected"])
    return 1 if vs else 0

# --- Glue layer (DESIGN.md 10.11): the Python between the API and the kernels, tied by proof in Properties/C05c.v; this is the
# executable tie of its trusted parts (translator tools/py2glue.py + primitive semantics Glue/Interp.v): the TRANSLATED term run by the
# extracted evaluator (ocaml/gluedriver) against the REAL routine of pynapple on the same inputs (harness/gluecmp.py).
import gluecmp  # noqa: E402

DRIVERS = list(globals().get("DRIVERS", ["driver"])) + ["gluedriver"]
GLUE_ROUTINES = ['_count', 'jitbin_array', '_bin_average', '_Base.count', '_BaseTsd.bin_average']
_run_without_glue = run


def run(res, tier, seed):
    _run_without_glue(res, tier, seed)
    gluecmp.check(res, GLUE_ROUTINES, tier, seed)
    res.rule += (" | glue: for each of %s the translated Glue.Lang term (coq/Gen/Glue.v) is evaluated by the extracted Glue/Interp.v and compared with the "
                 "real pynapple routine on canonical sets of a dyadic lattice (incl. negative times, empty, touching, duplicates, unsorted/improper "
                 "constructor input, thresholds equal to a length or gap); exceptions must match the model's error kind" % ", ".join(GLUE_ROUTINES))
