"""C05 count and bin_average attribute each sample to exactly its own bin."""
import itertools
import random
import warnings

import numpy as np

import common as C
import gen as G

LEVEL = "proof"
TRUSTED = ["model: coq/Model/Count.v (bins_go, count_binned, bin_sum_cnt) over Model/Restrict.v; theorems: Proofs/CountProofs.v"]
ASSUMPTIONS = ["bin sizes are even numbers of ticks (centres on ticks) or the rounded centre may be either neighbour tick (rounding of x.5 ns is C09's)",
               "exhaustive cases live on the dyadic lattice 2^-9 s; random cases on decimal lattices incl. centres exactly on the interval end (deterministic since the kernel "
               "rounds the centre like the edges)"]

U = 1953125  # 2^-9 s in ticks: dyadic AND a whole number of ns


def _nap():
    import pynapple as nap
    from pynapple.core import _jitted_functions as J
    return nap, J


def oracle(ts, ep, b):
    out = []
    for s, e in ep:
        l = s
        while 2 * l + b <= 2 * e:
            out.append((2 * l + b, sum(1 for t in ts if s <= t <= e and l <= t < l + b)))
            l += b
    return out


def oracle_avg(ts, vs, ep, b):
    out = []
    for s, e in ep:
        l = s
        while 2 * l + b <= 2 * e:
            sel = [v for t, v in zip(ts, vs) if s <= t <= e and l <= t < l + b]
            out.append((2 * l + b, len(sel), sum(sel)))
            l += b
    return out


def centre_ok(rep_tick, c2):
    """reported tick vs doubled exact centre"""
    return 2 * rep_tick == c2 or (c2 % 2 == 1 and abs(2 * rep_tick - c2) == 1)


def cases(tier, seed):
    out = []
    N = 7 if tier == "quick" else 8
    pts = G.lattice(N, step=U)
    eps = G.canonical_isets(pts, 2)
    tss = G.sorted_multisets(pts, 3 if tier == "quick" else 4)
    bs = [U, 2 * U, 3 * U, 4 * U, 7 * U]
    for ep in eps:
        if not ep:
            continue
        for ts in tss:
            for b in bs:
                out.append((ts, ep, b, "dyadic"))
    rng = random.Random(seed * 17 + 2)
    if tier == "quick":
        out = rng.sample(out, 9000) + [c for c in out if len(c[0]) == 0][:200]
    # decimal lattice, random
    for _ in range(600 if tier == "quick" else 6000):
        ep = G.rand_canonical_iset(rng, 4, gaps=(1000, 2000, 5000, 10000, 30000, 1000000))
        if not ep:
            continue
        b = rng.choice([1000, 2000, 4000, 10000, 50000, 3000])
        anchors = [s + k * b for s, e in ep for k in range(0, 6)]
        ts = sorted(rng.choice(anchors + [e for _, e in ep] + [s + rng.randrange(0, 40000) for s, _ in ep]) for _ in range(rng.randint(0, 12)))
        out.append((ts, ep, b, "decimal"))
    return out


def run(res, tier, seed):
    nap, J = _nap()
    warnings.simplefilter("ignore")
    res.rule = ("kernel jitcount + jitbin_array and public count/bin_average/TsGroup.count: ALL (<=2 intervals, <=3(4) samples, 5 bin sizes shorter than/equal to/longer than/"
                "not dividing the interval) on a 7(8)-point dyadic lattice (2^-9 s) [seeded subsample of the complete product in quick, complete in thorough] incl. samples on bin "
                "edges and interval ends, centre == end; + random decimal-lattice cases. Compared with the extracted model AND the brute-force statement of the property. "
                "non-trivial = at least one sample; distinct = distinct (ts, ep, b)")
    res.exhaustive = tier == "thorough"
    cs = cases(tier, seed)
    offs = [0, -3 * U, -1000 * U]
    cs = [([t + offs[n % 3] for t in ts], [(a + offs[n % 3], b_ + offs[n % 3]) for a, b_ in ep], b, kind) for n, (ts, ep, b, kind) in enumerate(cs)]
    lines = []
    for ts, ep, b, kind in cs:
        vs = [(i * 7 + 3) % 11 for i in range(len(ts))]
        lines.append("count\t%s\t%s\t%d" % (C.fmt_ints(ts), C.fmt_iset(ep), b))
        lines.append("bin_average\t%s\t%s\t%s\t%d" % (C.fmt_ints(ts), C.fmt_ints(vs), C.fmt_iset(ep), b))
    out = C.run_model(lines)
    for n, (ts, ep, b, kind) in enumerate(cs):
        t = G.arr(ts)
        st, en = G.arr([s for s, _ in ep]), G.arr([e for _, e in ep])
        vs = [(i * 7 + 3) % 11 for i in range(len(ts))]
        inp = {"ts": ts, "ep": ep, "bin": b}
        res.case((tuple(ts), tuple(ep), b), nontrivial=len(ts) > 0)
        res.count("kind=" + kind)
        res.count("n_samples=%d" % min(len(ts), 4))
        tie = any(2 * (s + j * b) + b == 2 * e for s, e in ep for j in range(0, 50))
        on_edge = any((x - s) % b == 0 for s, e in ep for x in ts if s <= x <= e)
        if on_edge:
            res.count("sample_on_bin_edge")
        if tie:
            res.count("centre_equals_end")
        amb = False  # since the centre is rounded like the edges (fix in /repo) ties are deterministic on decimal lattices too
        bt, bc = J.jitcount(t, st, en, b / 1e9, np.dtype(np.int64))
        exp = oracle(ts, ep, b)
        m0 = out[2 * n].split("|")
        mod = list(zip([int(x) for x in m0[0].split()], [int(x) for x in m0[1].split()]))
        impl = list(zip([C.to_ns(x) for x in bt], [int(x) for x in bc]))
        ok_impl = len(impl) == len(exp) and all(centre_ok(a[0], e_[0]) and a[1] == e_[1] for a, e_ in zip(impl, exp))
        if not ok_impl:
            if amb:
                res.float_ambiguous += 1
            else:
                res.violations.append({"key": {"op": "jitcount"}, "what": "binned count differs from the bin grid the property states", "input": inp,
                                       "impl": impl, "expected": exp})
        if mod != exp:
            res.disagreements.append({"op": "count model vs statement", "input": inp, "model": mod, "expected": exp})
        ok_mod = len(impl) == len(mod) and all(centre_ok(a[0], e_[0]) and a[1] == e_[1] for a, e_ in zip(impl, mod))
        if not ok_mod and not amb:
            res.disagreements.append({"op": "jitcount", "input": inp, "impl": impl, "model": mod})
        # bin_average
        at, ad = J.jitbin_array(t, np.asarray(vs, dtype=np.float64).reshape(-1, 1), st, en, b / 1e9)
        expa = oracle_avg(ts, vs, ep, b)
        m1 = out[2 * n + 1].split("|")
        moda = list(zip([int(x) for x in m1[0].split()], [int(x) for x in m1[1].split()], [int(x) for x in m1[2].split()]))
        if moda != expa:
            res.disagreements.append({"op": "bin_average model vs statement", "input": inp, "model": moda, "expected": expa})
        okb = len(at) == len(expa)
        if okb:
            for x, d, (c2, cnt, sm) in zip(at, ad[:, 0], expa):
                if not centre_ok(C.to_ns(x), c2):
                    okb = False
                elif cnt == 0:
                    okb = okb and np.isnan(d)
                else:
                    okb = okb and (not np.isnan(d)) and abs(d * cnt - sm) < 1e-9
        if not okb:
            if amb:
                res.float_ambiguous += 1
            else:
                res.violations.append({"key": {"op": "jitbin_array"}, "what": "bin_average differs from per-bin mean on the stated grid", "input": inp,
                                       "impl": [[C.to_ns(x) for x in at], ad[:, 0].tolist()], "expected": expa})
        if n % 4001 == 0:
            res.sample({"ts": ts, "ep": ep, "bin": b, "count": impl})
        # public API on a subsample
        if n % (5 if tier == "quick" else 3) == 0 and not amb:
            try:
                v = public_case(nap, ts, vs, ep, b, exp, expa)
            except Exception as ex:
                v = {"key": {"op": "public", "part": "exception"}, "what": "public count/bin_average raised %s: %s" % (type(ex).__name__, str(ex)[:120])}
            res.evaluations += 1
            if v:
                v["input"] = inp
                res.violations.append(v)


def public_case(nap, ts, vs, ep, b, exp, expa):
    t = G.arr(ts)
    epo = nap.IntervalSet(G.arr([s for s, _ in ep]), G.arr([e for _, e in ep]))
    x = nap.Ts(t)
    # no bin size: per-interval counts, sum = len(restrict)
    c0 = x.count(ep=epo)
    want = [sum(1 for q in ts if s <= q <= e) for s, e in ep]
    if [int(v) for v in c0.values] != want or sum(want) != len(x.restrict(epo)):
        return {"key": {"op": "count(ep=)"}, "what": "per-interval counts wrong or do not sum to len(restrict)", "impl": c0.values.tolist(), "expected": want}
    for units, f in (("s", 1e9), ("ms", 1e6), ("us", 1e3)):
        c = x.count(b / f, epo, time_units=units)
        got = list(zip([C.to_ns(q) for q in c.t], [int(v) for v in c.values]))
        if not (len(got) == len(exp) and all(centre_ok(a[0], e_[0]) and a[1] == e_[1] for a, e_ in zip(got, exp))):
            return {"key": {"op": "Ts.count", "units": units}, "what": "public count differs from the stated grid", "impl": got, "expected": exp}
        if [(C.to_ns(s), C.to_ns(e)) for s, e in c.time_support.values] != (list(ep) if exp else []):
            return {"key": {"op": "Ts.count", "part": "support"}, "what": "support of count is not ep"}
    for dt in (np.int32, np.float64, np.int64):
        c = x.count(b / 1e9, epo, dtype=dt)
        if c.values.dtype != np.dtype(dt) or [int(v) for v in c.values] != [e_[1] for e_ in exp]:
            return {"key": {"op": "Ts.count", "dtype": str(dt)}, "what": "count with dtype differs", "impl": c.values.tolist()}
    if len(ts):
        d2 = np.stack([np.asarray(vs, float), np.asarray(vs, float) * 2], axis=1)
        fr = nap.TsdFrame(t, d2, columns=["a", "b"])
        r = fr.bin_average(b / 1e9, epo)
        if len(r) != len(expa) or list(r.columns) != ["a", "b"]:
            return {"key": {"op": "TsdFrame.bin_average"}, "what": "bin_average grid/columns wrong", "impl": [len(r)], "expected": len(expa)}
        for row, (c2, cnt, sm) in zip(r.values, expa):
            if cnt == 0:
                if not np.all(np.isnan(row)):
                    return {"key": {"op": "TsdFrame.bin_average"}, "what": "empty bin is not NaN"}
            elif abs(row[0] * cnt - sm) > 1e-9 or abs(row[1] * cnt - 2 * sm) > 1e-9:
                return {"key": {"op": "TsdFrame.bin_average"}, "what": "per-column mean wrong", "impl": row.tolist(), "expected": [sm, cnt]}
    # TsGroup.count: column k = member k's count, labels = sorted keys
    wide = nap.IntervalSet(min([s for s, _ in ep] + ts) / 1e9 - 1.0, max([e for _, e in ep] + ts) / 1e9 + 1.0)
    t2 = t[::2]
    g = nap.TsGroup({5: nap.Ts(t), 2: nap.Ts(t2)}, time_support=wide)
    gc = g.count(b / 1e9, epo)
    exp2 = oracle(ts[::2], ep, b)
    if list(gc.columns) != [2, 5] or [int(v) for v in gc.values[:, 1]] != [e_[1] for e_ in exp] or [int(v) for v in gc.values[:, 0]] != [e_[1] for e_ in exp2]:
        return {"key": {"op": "TsGroup.count"}, "what": "group count column differs from member count / labels not sorted keys", "impl": gc.values.tolist()}
    return None


def search(res, seed):
    r2 = C.Result()
    run(r2, "thorough", seed)
    return r2.violations[0] if r2.violations else None


def replay(payload):
    nap, J = _nap()
    warnings.simplefilter("ignore")
    v = payload.get("violation") or (payload.get("disagreements") or [{}])[0]
    inp = v.get("input", {})
    ts, ep, b = inp.get("ts", []), [tuple(x) for x in inp.get("ep", [])], inp.get("bin", 1000)
    bt, bc = J.jitcount(G.arr(ts), G.arr([s for s, _ in ep]), G.arr([e for _, e in ep]), b / 1e9, np.dtype(np.int64))
    impl = list(zip([C.to_ns(x) for x in bt], [int(x) for x in bc]))
    exp = oracle(ts, ep, b)
    print("input", inp)
    print("implementation (centre tick, count):", impl)
    print("expected (2*centre, count)         :", exp)
    ok = len(impl) == len(exp) and all(centre_ok(a[0], e_[0]) and a[1] == e_[1] for a, e_ in zip(impl, exp))
    return 0 if ok else 1
