"""C05 count and bin_average attribute each sample to exactly its own bin."""
import itertools
import random
import warnings
from fractions import Fraction as Fr

import numpy as np

import common as C
import gen as G

LEVEL = "proof"
TRUSTED = ["model: coq/Model/Count.v (bins_go, count_binned, bin_sum_cnt) over Model/Restrict.v; theorems: Proofs/CountProofs.v "
           "(the model takes a bin size that is a whole number of ticks; other bin sizes are checked against the statement only, in exact rationals)"]
ASSUMPTIONS = ["a reported timestamp is a tick (1 ns, the library's time resolution): when the exact centre l+b/2 is not on a tick either neighbouring tick is accepted, "
               "when it is on a tick that tick is required; the test 'centre <= interval end' is NOT relaxed (a centre half a tick beyond the end must not be reported)",
               "a bin size given as the float b/1e9, b/1e6 or b/1e3 with b a whole number of ns is read as exactly b ns (the float nearest to a decimal: C09); every other bin size "
               "is read as the exact value of the float and the grid is computed in exact rationals; non-dyadic ones (1/3 ms, 1/30 s ...) only on inputs where no sample lies "
               "within 0.001 ns of a bin edge without being on it and no end within 0.001 ns of a centre (such inputs are counted as float_ambiguous, not checked)",
               "exhaustive cases live on the dyadic lattice 2^-9 s; random cases on decimal lattices incl. odd numbers of ns and centres on / half a tick before / half a tick "
               "beyond the interval end"]

U = 1953125  # 2^-9 s in ticks: dyadic AND a whole number of ns
UNITS = {"s": 10**9, "ms": 10**6, "us": 10**3}
DTYPES = (np.int64, np.int32, np.float64, np.uint8, np.float32, np.int16, "uint64")


def _nap():
    import pynapple as nap
    from pynapple.core import _jitted_functions as J
    return nap, J


# ---------------------------------------------------------------------------------------------------------------
# the statement, brute force.  b: int or Fraction, in ticks.  `late` (explanation variants only): intervals granted the bin
# whose centre lies exactly half a tick beyond the end.
def oracle_avg(ts, vs, ep, b, late=()):
    out = []
    for i, (s, e) in enumerate(ep):
        l = s
        while 2 * l + b <= 2 * e + (1 if i in late else 0):
            sel = [v for t, v in zip(ts, vs) if s <= t <= e and l <= t < l + b]
            out.append((2 * l + b, len(sel), sum(sel)))
            l += b
    return out


def oracle(ts, ep, b, late=()):
    return [(c2, n) for c2, n, _ in oracle_avg(ts, [0] * len(ts), ep, b, late)]


def centre_ok(rep_tick, c2):
    """reported tick vs doubled exact centre: the centre itself when it is a tick, else one of its two neighbours"""
    d = abs(2 * rep_tick - c2)
    return d == 0 if c2 % 2 == 0 else d < 2


def diff_count(got, exp):
    """got [(tick, count)], exp [(2*centre, count)] -> None or the part that differs"""
    if len(got) != len(exp):
        return "grid"
    if not all(centre_ok(a[0], e_[0]) for a, e_ in zip(got, exp)):
        return "timestamp"
    if not all(a[1] == e_[1] for a, e_ in zip(got, exp)):
        return "count"
    return None


def diff_avg(got, exp, scale=1):
    """got [(tick, value)], exp [(2*centre, cnt, sum)]; the column holds scale * vs"""
    if len(got) != len(exp):
        return "grid"
    if not all(centre_ok(a[0], e_[0]) for a, e_ in zip(got, exp)):
        return "timestamp"
    for (_, d), (_, cnt, sm) in zip(got, exp):
        if (cnt == 0) != bool(np.isnan(d)):
            return "nan"
        if cnt and abs(d * cnt - scale * sm) > 1e-9:
            return "mean"
    return None


def late_candidates(ep, b):
    """intervals that have a bin centre exactly half a tick beyond their end (possible only for an odd whole number of ticks)"""
    if b != int(b) or int(b) % 2 == 0:
        return []
    b = int(b)
    return [i for i, (s, e) in enumerate(ep) if 2 * (e - s) + 1 - b >= 0 and (2 * (e - s) + 1 - b) % (2 * b) == 0]


def explain(differ, got, mk, ep, b):
    """Which known deviation (if any) reproduces the implementation's output exactly:
       bin_rounded_to_ns    - the grid is built with the bin size rounded to a whole number of ns;
       centre_rounded_to_ns - the centre is rounded to ns before it is compared with the interval end (a centre half a tick beyond the end passes).
       mk(bb, late) = the statement's output for bin size bb with the `late` intervals granted that extra bin."""
    whole = b == int(b)
    flags = {"bin_whole_ns": bool(whole), "bin_rounded_to_ns": False, "centre_rounded_to_ns": False}
    cands = [(int(b), False)] if whole else [(bb, True) for bb in sorted({int(b // 1), int(-((-b) // 1))}) if bb > 0 and abs(b - bb) <= Fr(1, 2)]
    for bb, rounded in cands:
        lc = late_candidates(ep, bb)
        for r in range(0 if rounded else 1, len(lc) + 1):
            for sub in itertools.combinations(lc, r):
                if differ(got, mk(bb, set(sub))) is None:
                    flags["bin_rounded_to_ns"] = rounded
                    flags["centre_rounded_to_ns"] = r > 0
                    return flags
    return flags


def near_miss(ts, ep, b):
    """non-dyadic bin size: a sample within 0.001 tick of a bin edge without being on it, or an end within 0.001 tick of a centre without
    being on it (the float handed to the library is not the rational the user meant; the attribution is then a matter of reading the float)"""
    eps = Fr(1, 1000)
    for s, e in ep:
        for t in [x for x in ts if s <= x <= e]:
            r = (t - s) % b
            if 0 < r < eps or 0 < b - r < eps:
                return True
        r = (e - s - b / 2) % b
        if e - s >= b / 2 and (0 < r < eps or 0 < b - r < eps):
            return True
    return False


# ---------------------------------------------------------------------------------------------------------------
# generators
def cases(tier, seed):
    """-> list of dicts {ts, ep, bin (ticks, int) | value+units (+bin = exact Fraction ticks), kind}"""
    out = []
    N = 7 if tier == "quick" else 8
    pts = G.lattice(N, step=U)
    eps = G.canonical_isets(pts, 2)          # includes the empty IntervalSet
    tss = G.sorted_multisets(pts, 3 if tier == "quick" else 4)
    bs = [U, 2 * U, 3 * U, 4 * U, 7 * U]
    for ep in eps:
        for ts in tss:
            for b in bs:
                out.append((ts, ep, b, "dyadic"))
    rng = random.Random(seed * 17 + 2)
    if tier == "quick":
        out = rng.sample(out, 7000) + [c for c in out if len(c[0]) == 0][:200] + [c for c in out if not c[1]][:60]
    q = tier == "quick"
    # decimal lattice, random, even numbers of ns
    for _ in range(500 if q else 5000):
        ep = G.rand_canonical_iset(rng, 4, gaps=(1000, 2000, 5000, 10000, 30000, 1000000))
        b = rng.choice([1000, 2000, 4000, 10000, 50000, 3000])
        anchors = [s + k * b for s, e in ep for k in range(0, 6)]
        ts = sorted(rng.choice(anchors + [e for _, e in ep] + [s + rng.randrange(0, 40000) for s, _ in ep]) for _ in range(rng.randint(0, 12))) if ep else \
            sorted(rng.randrange(0, 40000) for _ in range(rng.randint(0, 4)))
        out.append((ts, ep, b, "decimal"))
    # odd numbers of ns: the centre is a half-tick; ends placed on / half a tick before / half a tick beyond a centre, and elsewhere
    for _ in range(700 if q else 7000):
        b = rng.choice([1, 3, 5, 7, 999, 1001, 2001, 12345, 1000001])
        ep, x = [], rng.choice([0, 1, 17, 1000, 123456789])
        for _i in range(rng.randint(1, 3)):
            s = x + rng.choice([1, 2, 3, 1000, b, 2 * b + 1])
            j = rng.randint(0, 6)
            e = s + j * b + rng.choice([(b - 1) // 2, (b + 1) // 2, (b - 1) // 2, (b + 1) // 2, b, b - 1, 1, rng.randint(1, b + 1)])
            if e <= s:
                e = s + 1
            ep.append((s, e))
            x = e
        anchors = [s + k * b + d for s, e in ep for k in range(0, 8) for d in (-1, 0, 1)] + [e for _, e in ep]
        ts = sorted(rng.choice(anchors) for _ in range(rng.randint(0, 10)))
        out.append((ts, ep, b, "odd_ns"))
    out = [{"ts": ts, "ep": ep, "bin": b, "kind": kind} for ts, ep, b, kind in out]
    # bin sizes that are not a whole number of ns (public API only; exact rationals), dyadic ones first
    fr = [(1 / 1024, "s"), (1 / 2048, "s"), (1 / 4096, "s"), (1000 / 8192, "us"), (1 / 256, "us"), (3 / 2048, "us"), (5 / 2048, "us"), (21 / 8, "us"),
          (1 / 1024, "ms"), (1 / 3, "ms"), (1e3 / 7, "us"), (1 / 30000, "s")]
    for i in range(260 if q else 2600):
        value, units = fr[i % len(fr)]
        b = Fr(value) * UNITS[units]
        ep, x = [], rng.choice([0, 1000, 123456789])
        for _i in range(rng.randint(1, 2)):
            s = x + rng.choice([1, 1000, 54321])
            j = rng.randint(0, 14)
            c = s + j * b + b / 2
            e = rng.choice([int(c // 1), int(-((-c) // 1)), int(c // 1) + 1, int(c // 1) - 1, int((c + b / 2) // 1), int(c // 1) + rng.randint(0, max(1, int(b)))])
            if e <= s:
                e = s + 1
            ep.append((s, e))
            x = e
        br = max(1, round(b))
        anchors = []
        for s, e in ep:
            for k in range(0, 16):
                for edge in (s + k * b, s + k * br):
                    anchors += [int(edge // 1), int(-((-edge) // 1)), int(edge // 1) - 1, int(-((-edge) // 1)) + 1]
        ts = sorted(rng.choice(anchors) for _ in range(rng.randint(1, 10)))
        out.append({"ts": ts, "ep": ep, "bin": b, "value": value, "units": units, "kind": "not_whole_ns"})
    # positive bin sizes below half a ns (tiny intervals: the stated grid has 2.5 to 4 bins per tick)
    sub = [(4e-10, "s"), (1 / 4096, "us"), (0.0004, "us"), (1 / 2**32, "s"), (1e-10, "s"), (3e-7, "ms")]
    for i in range(36 if q else 120):
        value, units = sub[i % len(sub)]
        s = rng.choice([0, 7, 1000])
        ep = [(s, s + rng.randint(1, 4))]
        ts = sorted(rng.randint(s, s + 4) for _ in range(rng.randint(0, 4)))
        out.append({"ts": ts, "ep": ep, "bin": Fr(value) * UNITS[units], "value": value, "units": units, "kind": "below_half_ns"})
    return out


OFFS = [0, -3 * U, -1000 * U, 44236800 * U]     # the last one: one day (86400 s), still dyadic and a whole number of ns


def shifted(c, n):
    o = OFFS[n % len(OFFS)]
    d = dict(c)
    d["ts"] = [t + o for t in c["ts"]]
    d["ep"] = [(a + o, b_ + o) for a, b_ in c["ep"]]
    return d


def viol(op, part, what, inp, flags=None, **kw):
    key = {"op": op, "part": part}
    key.update(flags or {})
    v = {"key": key, "what": what, "input": inp}
    v.update(kw)
    return v


# ---------------------------------------------------------------------------------------------------------------
def kernel_case(J, c, inp):
    """jitcount / jitbin_array against the statement (whole-ns bin sizes). -> (violations, impl count, impl avg)"""
    ts, ep, b = c["ts"], c["ep"], c["bin"]
    t = G.arr(ts)
    st, en = G.arr([s for s, _ in ep]), G.arr([e for _, e in ep])
    vs = values_of(ts)
    out = []
    bt, bc = J.jitcount(t, st, en, b / 1e9, np.dtype(np.int64))
    impl = list(zip([C.to_ns(x) for x in bt], [int(x) for x in bc]))
    exp = oracle(ts, ep, b)
    part = diff_count(impl, exp)
    if part:
        fl = explain(diff_count, impl, lambda bb, late: oracle(ts, ep, bb, late), ep, b)
        out.append(viol("jitcount", part, "binned count differs from the bin grid the property states", inp, fl, impl=impl, expected=exp))
    at, ad = J.jitbin_array(t, np.asarray(vs, dtype=np.float64).reshape(-1, 1), st, en, b / 1e9)
    impla = list(zip([C.to_ns(x) for x in at], ad[:, 0].tolist()))
    expa = oracle_avg(ts, vs, ep, b)
    part = diff_avg(impla, expa)
    if part:
        fl = explain(diff_avg, impla, lambda bb, late: oracle_avg(ts, vs, ep, bb, late), ep, b)
        out.append(viol("jitbin_array", part, "bin_average differs from per-bin mean on the stated grid", inp, fl, impl=impla, expected=expa))
    return out, impl, impla, exp, expa


def values_of(ts):
    return [(i * 7 + 3) % 11 for i in range(len(ts))]


def support_of(x):
    return [(C.to_ns(s), C.to_ns(e)) for s, e in x.time_support.values]


def public_case(nap, n, c, inp):
    """public count / bin_average / TsGroup.count against the statement. Returns every violation of the case."""
    ts, ep, b = c["ts"], c["ep"], c["bin"]
    vs = values_of(ts)
    whole = b == int(b)
    out = []
    t = G.arr(ts)
    epo = nap.IntervalSet(G.arr([s for s, _ in ep]), G.arr([e for _, e in ep]))
    fvs = np.asarray(vs, float)
    makers = {"Ts": lambda: nap.Ts(t), "Tsd": lambda: nap.Tsd(t, fvs), "TsdFrame": lambda: nap.TsdFrame(t, np.stack([fvs, fvs * 2], axis=1), columns=["a", "b"]),
              "TsdTensor": lambda: nap.TsdTensor(t, np.stack([fvs, fvs * 2, fvs * 3, fvs * 4], axis=1).reshape(-1, 2, 2))}
    order = ["Ts", "Tsd", "TsdFrame", "TsdTensor"]
    cls = order[n % 4] if n % 3 else "Ts"
    x = makers[cls]()
    base = {"bin_whole_ns": bool(whole)}

    def guarded(op, units, f):
        try:
            return f()
        except Exception as ex:
            fl = dict(base, units=units, exc=type(ex).__name__, bin_below_half_ns=bool(b < Fr(1, 2)))
            out.append(viol(op, "exception", "%s raised %s: %s" % (op, type(ex).__name__, str(ex)[:120]), inp, fl))
            return None

    # 1. no bin size: per-interval counts over the closed intervals; they sum to len(restrict)
    want = [sum(1 for q in ts if s <= q <= e) for s, e in ep]
    c0 = guarded(cls + ".count(ep=)", "s", lambda: x.count(ep=epo))
    if c0 is not None and ([int(v) for v in c0.values] != want or sum(want) != len(x.restrict(epo))):
        out.append(viol(cls + ".count(ep=)", "count", "per-interval counts wrong or do not sum to len(restrict)", inp, impl=c0.values.tolist(), expected=want))
    # 2. count with a bin size, in s / ms / us
    exp = oracle(ts, ep, b)
    ulist = [(u, b / f) for u, f in UNITS.items()] if whole else [(c["units"], c["value"])]
    grid_ok = True
    for units, val in ulist:
        r = guarded(cls + ".count", units, lambda: x.count(float(val), epo, time_units=units))
        if r is None:
            grid_ok = False
            continue
        got = list(zip([C.to_ns(q) for q in r.t], [int(v) for v in r.values]))
        part = diff_count(got, exp)
        if part:
            grid_ok = False
            fl = dict(explain(diff_count, got, lambda bb, late: oracle(ts, ep, bb, late), ep, b), units=units)
            out.append(viol(cls + ".count", part, "public count differs from the stated grid", inp, fl, impl=got, expected=exp))
        elif support_of(r) != list(ep) and not (not exp and support_of(r) == []):
            out.append(viol(cls + ".count", "support", "support of count is not ep", inp, dict(base, units=units), impl=support_of(r)))
    # 3. dtypes (rotating; the grid itself was judged in 2.)
    if whole and grid_ok:
        for dt in (DTYPES[n % len(DTYPES)], DTYPES[(n // 7 + 1) % len(DTYPES)]):
            r = guarded(cls + ".count", "s", lambda: x.count(b / 1e9, epo, dtype=dt))
            if r is not None and (r.values.dtype != np.dtype(dt) or [int(v) for v in r.values] != [e_[1] for e_ in exp]):
                out.append(viol(cls + ".count", "dtype", "count with dtype %s differs" % np.dtype(dt), inp, dict(base, dtype=str(np.dtype(dt))), impl=r.values.tolist()))
    # 4. bin_average on Tsd / TsdFrame / TsdTensor (rotating), in s / ms / us, empty series included
    expa = oracle_avg(ts, vs, ep, b)
    acls = order[1 + n % 3]
    y = makers[acls]()
    for units, val in ulist:
        op = acls + ".bin_average"
        r = guarded(op, units, lambda: y.bin_average(float(val), epo, time_units=units))
        if r is None:
            continue
        if type(r).__name__ != acls or r.values.shape[1:] != y.values.shape[1:] or (acls == "TsdFrame" and list(r.columns) != ["a", "b"]):
            out.append(viol(op, "shape", "bin_average changed the class / trailing shape / columns", inp, dict(base, units=units), impl=[type(r).__name__, list(r.values.shape)]))
            continue
        flat = r.values.reshape(len(r), int(np.prod(r.values.shape[1:])))
        rt = [C.to_ns(q) for q in r.t]
        part = None
        for k in range(flat.shape[1]):
            got = list(zip(rt, flat[:, k].tolist()))
            part = diff_avg(got, expa, scale=k + 1)
            if part:
                fl = dict(explain(lambda g, e_: diff_avg(g, e_, scale=k + 1), got, lambda bb, late: oracle_avg(ts, vs, ep, bb, late), ep, b), units=units)
                out.append(viol(op, part, "bin_average differs from the per-bin mean (NaN if none) on the stated grid, column %d" % k, inp, fl, impl=got, expected=expa))
                break
        if flat.shape[1] == 0 and len(r) != len(expa):
            part = "grid"
            out.append(viol(op, part, "bin_average grid differs", inp, dict(base, units=units), impl=rt, expected=expa))
        if part is None and support_of(r) != list(ep) and not (not expa and support_of(r) == []):
            out.append(viol(op, "support", "support of bin_average is not ep", inp, dict(base, units=units), impl=support_of(r)))
    # 5. TsGroup.count: column k = member k's count (timestamps = the centres), labels = sorted keys; with units and dtype; and without bin size
    allt = [s for s, _ in ep] + [e for _, e in ep] + ts
    wide = nap.IntervalSet(min(allt + [0]) / 1e9 - 1.0, max(allt + [0]) / 1e9 + 1.0)
    t2 = t[::2]
    g = nap.TsGroup({5: nap.Ts(t), 2: nap.Ts(t2), 3: nap.Tsd(t[:1], fvs[:1])}, time_support=wide)
    members = {2: ts[::2], 3: ts[:1], 5: ts}
    units, val = ulist[n % len(ulist)]
    dt = DTYPES[(n // 3) % len(DTYPES)] if whole else np.int64
    gc = guarded("TsGroup.count", units, lambda: g.count(float(val), epo, time_units=units, dtype=dt))
    if gc is not None:
        gt = [C.to_ns(q) for q in gc.t]
        if list(gc.columns) != [2, 3, 5]:
            out.append(viol("TsGroup.count", "labels", "columns are not the sorted keys", inp, dict(base, units=units), impl=list(gc.columns)))
        elif gc.values.dtype != np.dtype(dt):
            out.append(viol("TsGroup.count", "dtype", "group count dtype is not %s" % np.dtype(dt), inp, dict(base, dtype=str(np.dtype(dt))), impl=str(gc.values.dtype)))
        else:
            for k, key in enumerate([2, 3, 5]):
                got = list(zip(gt, [int(v) for v in gc.values[:, k]]))
                expk = oracle(members[key], ep, b)
                part = diff_count(got, expk)
                if part:
                    fl = dict(explain(diff_count, got, lambda bb, late: oracle(members[key], ep, bb, late), ep, b), units=units)
                    out.append(viol("TsGroup.count", part, "group count column %d differs from member %d's count on the stated grid" % (k, key), inp, fl, impl=got, expected=expk))
                    break
    g0 = guarded("TsGroup.count(ep=)", "s", lambda: g.count(ep=epo))
    if g0 is not None:
        wantg = [[sum(1 for q in members[key] if s <= q <= e) for key in (2, 3, 5)] for s, e in ep]
        if list(g0.columns) != [2, 3, 5] or [[int(v) for v in row] for row in g0.values] != wantg:
            out.append(viol("TsGroup.count(ep=)", "count", "group per-interval counts / labels wrong", inp, impl=g0.values.tolist(), expected=wantg))
    return out


def run(res, tier, seed, only=None):
    nap, J = _nap()
    warnings.simplefilter("ignore")
    res.rule = ("kernel jitcount + jitbin_array and public count (Ts/Tsd/TsdFrame/TsdTensor) / bin_average (Tsd/TsdFrame/TsdTensor, s/ms/us) / TsGroup.count (3 members incl. a "
                "Tsd, units, dtype, and without bin size): ALL (<=2 intervals incl. the empty IntervalSet, <=3(4) samples, 5 bin sizes shorter than/equal to/longer than/"
                "not dividing the interval) on a 7(8)-point dyadic lattice (2^-9 s) [seeded subsample of the complete product in quick, complete in thorough] incl. samples on bin "
                "edges and interval ends, centre == end; + random decimal-lattice cases with even bin sizes; + random cases with ODD numbers of ns (1 ns .. 1000001 ns; ends on, "
                "half a tick before and half a tick beyond a bin centre); + (public API only, statement in exact rationals) bin sizes that are NOT a whole number of ns "
                "(1/1024 s, 1/256 us, 1/3 ms, 1/30000 s ...; samples next to the exact and to the ns-rounded bin edges) and positive bin sizes below 0.5 ns; time offsets 0, "
                "-5.9 ms, -1.95 s, +1 day. Whole-ns cases are compared with the extracted model AND the brute-force statement of the property; 7 count dtypes rotate. "
                "non-trivial = at least one sample; distinct = distinct (ts, ep, b)")
    res.exhaustive = tier == "thorough"
    cs = [shifted(c, n) for n, c in enumerate(cases(tier, seed))]
    if only is not None:
        cs = [c for c in cs if only(c)]
    wh = [c for c in cs if "value" not in c]
    lines = []
    for c in wh:
        ts, ep, b = c["ts"], c["ep"], c["bin"]
        lines.append("count\t%s\t%s\t%d" % (C.fmt_ints(ts), C.fmt_iset(ep), b))
        lines.append("bin_average\t%s\t%s\t%s\t%d" % (C.fmt_ints(ts), C.fmt_ints(values_of(ts)), C.fmt_iset(ep), b))
    out = C.run_model(lines) if lines else []
    stride = 5 if tier == "quick" else 3
    mi = -1
    for n, c in enumerate(cs):
        ts, ep, b, kind = c["ts"], c["ep"], c["bin"], c["kind"]
        whole = "value" not in c
        mi += 1 if whole else 0
        inp = {"ts": ts, "ep": ep, "bin": b if whole else str(b), "kind": kind, "n": n}
        if not whole:
            inp.update(value=c["value"], units=c["units"])
        res.case((tuple(ts), tuple(ep), b), nontrivial=len(ts) > 0)
        res.count("kind=" + kind)
        res.count("n_samples=%d" % min(len(ts), 4))
        if not ep:
            res.count("empty_intervalset")
        if any((x - s) % b == 0 for s, e in ep for x in ts if s <= x <= e):
            res.count("sample_on_bin_edge")
        if any(e - s >= b / 2 and (2 * (e - s) - b) % (2 * b) == 0 for s, e in ep):
            res.count("centre_equals_end")
        if whole and late_candidates(ep, b):
            res.count("centre_half_tick_beyond_end")
        if whole and b % 2 and any(e - s >= Fr(b + 1, 2) and (2 * (e - s) - 1 - b) % (2 * b) == 0 for s, e in ep):
            res.count("centre_half_tick_before_end")
        if whole:
            vk, impl, impla, exp, expa = kernel_case(J, c, inp)
            res.violations.extend(vk)
            m0 = out[2 * mi].split("|")
            mod = list(zip([int(x) for x in m0[0].split()], [int(x) for x in m0[1].split()]))
            if mod != exp:
                res.disagreements.append({"op": "count model vs statement", "input": inp, "model": mod, "expected": exp})
            elif diff_count(impl, mod) and not vk:
                res.disagreements.append({"op": "jitcount", "input": inp, "impl": impl, "model": mod})
            m1 = out[2 * mi + 1].split("|")
            moda = list(zip([int(x) for x in m1[0].split()], [int(x) for x in m1[1].split()], [int(x) for x in m1[2].split()]))
            if moda != expa:
                res.disagreements.append({"op": "bin_average model vs statement", "input": inp, "model": moda, "expected": expa})
            if n % 4001 == 0:
                res.sample({"ts": ts, "ep": ep, "bin": b, "count": impl})
        elif near_miss(ts, ep, b):
            res.float_ambiguous += 1
            continue
        # public API: a subsample of the lattice cases, every odd / non-whole / sub-ns case
        if n % stride == 0 or kind in ("not_whole_ns", "below_half_ns") or (kind == "odd_ns" and n % 2 == 0):
            res.evaluations += 1
            res.count("public_cases")
            try:
                vp = public_case(nap, n, c, inp)
            except Exception as ex:
                vp = [viol("public", "exception", "harness-level exception in the public calls %s: %s" % (type(ex).__name__, str(ex)[:160]), inp,
                           {"exc": type(ex).__name__, "bin_whole_ns": bool(whole), "bin_below_half_ns": bool(b < Fr(1, 2))})]
            res.violations.extend(vp)
            if not whole and len(res.samples) < 5 and n % 97 == 0:
                res.sample({"ts": ts, "ep": ep, "bin_ticks": str(b), "value": c["value"], "units": c["units"], "violations": len(vp)})


def search(res, seed):
    r2 = C.Result()
    run(r2, "thorough", seed)
    return r2.violations[0] if r2.violations else None


def replay(payload):
    nap, J = _nap()
    warnings.simplefilter("ignore")
    v = payload.get("violation") or (payload.get("disagreements") or [{}])[0]
    inp = v.get("input", {})
    c = {"ts": list(inp.get("ts", [])), "ep": [tuple(x) for x in inp.get("ep", [])], "kind": inp.get("kind", "replay")}
    n = int(inp.get("n", 0))
    if "value" in inp:
        c.update(value=float(inp["value"]), units=inp["units"], bin=Fr(float(inp["value"])) * UNITS[inp["units"]])
    else:
        c["bin"] = int(inp.get("bin", 1000))
    print("input", inp)
    vs = []
    if "value" not in c:
        vk, impl, impla, exp, expa = kernel_case(J, c, inp)
        print("jitcount (centre tick, count)  :", impl)
        print("statement (2*centre, count)    :", exp)
        vs += vk
    try:
        vs += public_case(nap, n, c, inp)
    except Exception as ex:
        print("public calls raised", type(ex).__name__, ex)
        return 1
    for x in vs:
        print("VIOLATED:", x["key"], "-", x["what"])
        if "impl" in x:
            print("   implementation:", x["impl"])
        if "expected" in x:
            print("   expected      :", x["expected"])
    return 1 if vs else 0

# --- Glue layer (DESIGN.md 10.11): the Python between the API and the kernels, tied by proof in Properties/C05c.v; this is the
# executable tie of its trusted parts (translator tools/py2glue.py + primitive semantics Glue/Interp.v): the TRANSLATED term run by the
# extracted evaluator (ocaml/gluedriver) against the REAL routine of pynapple on the same inputs (harness/gluecmp.py).
import gluecmp  # noqa: E402

DRIVERS = list(globals().get("DRIVERS", ["driver"])) + ["gluedriver"]
GLUE_ROUTINES = ['_count', 'jitbin_array', '_bin_average', '_Base.count', '_BaseTsd.bin_average']
_run_without_glue = run


def run(res, tier, seed):
    _run_without_glue(res, tier, seed)
    gluecmp.check(res, GLUE_ROUTINES, tier, seed)
    res.rule += (" | glue: for each of %s the translated Glue.Lang term (coq/Gen/Glue.v) is evaluated by the extracted Glue/Interp.v and compared with the "
                 "real pynapple routine on canonical sets of a dyadic lattice (incl. negative times, empty, touching, duplicates, unsorted/improper "
                 "constructor input, thresholds equal to a length or gap); exceptions must match the model's error kind" % ", ".join(GLUE_ROUTINES))
