"""C18 convolution and filtering act per epoch, linearly, and keep the time axis (partial for Butterworth)."""
import itertools
import random
import warnings

import numpy as np

import common as C
import gen as G

LEVEL = "proof"
DRIVERS = ["driver_c18"]
TRUSTED = ["model: coq/Model/Convolve.v (conv, cut/trim, splice/apply_epochs, convolve_epochs/_frame/_arg, spectral_inversion, sinc kernels, butter_epochs with "
           "the filter as a function argument) over Model/Slice.v (searchsorted as counts); theorems: Proofs/ConvolveProofs.v",
           "np.searchsorted's contract on a sorted array (left = #{t < v}, right = #{t <= v}) is NumPy's (C08)",
           "PARTIAL (Butterworth): scipy.signal.sosfiltfilt is an unknown length-preserving (for linearity: linear) function F of the epoch's slice; "
           "the premises len_pres F / lin_op F are visible in the closed theorems C18_butter_*_partial",
           "scipy.signal.convolve = np.convolve 'full' (direct method; scipy's FFT branch is SciPy's numerics, not modelled - it is exercised through the public "
           "filters on a 12000-sample epoch with an 801-tap kernel and judged by the statement's relations to the tolerance)",
           "correspondence for the Butterworth bookkeeping patches pynapple.process.filtering.sosfiltfilt INSIDE the harness process by an "
           "integer-valued stand-in (reverse + running sum); /repo is not modified",
           "WHICH routine / coefficients the library uses is not part of the statement: 'each epoch == scipy sosfiltfilt on that epoch alone (bit-exact)', 'fs=None means the "
           "series' rate', 'smooth == convolution with the documented gaussian window' and 'sinc low-pass == convolution with the blackman-windowed sinc' are checked as "
           "CORRESPONDENCE (model instantiated with that F / window / kernel vs implementation; a mismatch is a disagreement, not a violation of the statement)"]
ASSUMPTIONS = ["signals and kernels of the exact part are integer valued and small (sums exact in float64)",
               "real-valued kernels (gaussian smooth, windowed sinc) and Butterworth linearity are compared to a tolerance: |difference| <= 1e-12 * (1 + max|operands|) "
               "(largest deviation observed over three thorough runs: 7e-15 of that scale)",
               "Butterworth: cutoffs in (0.05, 0.45) * fs, orders 1..4. An interval of the support holding NO sample must be left alone (as convolve does since cf7fba4): the call "
               "raising is a violation with key op=butter, empty_epoch=True. An interval holding 1..padlen samples (SciPy's sosfiltfilt refuses such a slice) makes the whole call "
               "raise too: reported with key short_epoch=True (a finding: one interval's length decides whether every other interval gets an output)",
               "the theorems are ring identities over Z; a rational kernel is an integer kernel over a common denominator u (float rounding of real kernels is outside the model)",
               "an epoch holding no sample is expected to be left alone (nothing to convolve); the implementation raising there is reported as a violation "
               "with key empty_epoch=True",
               "trim='both' with an EVEN kernel removes k-1 (odd) entries: the statement does not say which side loses the extra one, so both splits are accepted "
               "(the same one in the whole call); the model and the code cut (k-1)//2 on the left, which the model comparison pins",
               "convolve(k, ep=ep) is read as restrict(ep) followed by convolve: the 'input' whose timestamps and support are kept is the series restricted to ep",
               "a series (or a series restricted to ep) holding no sample at all has, in pynapple, an EMPTY time support (base-class invariant: zero epochs, strictly outside "
               "'one or many epochs'); convolve must still not raise on it: expected result = no timestamp, empty support; key no_sample=True"]

U = 1953125  # 2^-9 s in ticks
TRIMS = ("left", "right", "both")
MODE = {"left": 0, "right": 1, "both": 2}
TOL = 1e-12


def _nap():
    import pynapple as nap
    return nap


# ------------------------------------------------------------------------------------------------
# statement-level oracles (brute force, independent of the model and of NumPy's convolve)
def full_conv(w, k):
    if not len(w):
        return []
    return [sum(w[i] * k[n - i] for i in range(len(w)) if 0 <= n - i < len(k)) for n in range(len(w) + len(k) - 1)]


def trimmed(w, k, trim, ceil_split=False):
    """full convolution of the epoch's samples, trimmed on the requested side back to len(w) entries.
    'both' removes k-1 entries, half on each side; for an EVEN kernel k-1 is odd and the statement does not say which side
    loses the extra entry: ceil_split=False cuts (k-1)//2 on the left (what the model and the code do), True cuts k//2"""
    f = full_conv(w, k)
    t, n = len(w), len(k)
    if trim == "left":        # the left (first) k-1 entries are cut
        return f[n - 1:]
    if trim == "right":       # the right (last) k-1 entries are cut
        return f[:t]
    c = n // 2 if ceil_split else (n - 1) // 2
    return f[c:c + t]


def epoch_rows(ts, ep):
    return [[i for i, t in enumerate(ts) if s <= t <= e] for s, e in ep]


def oracle_convolve(ts, col, ep, k, trim, ceil_split=False):
    """expected column: every epoch's rows replaced by the trimmed full convolution of those rows alone"""
    out = [0] * len(ts)
    for rows in epoch_rows(ts, ep):
        r = trimmed([col[i] for i in rows], k, trim, ceil_split)
        for i, v in zip(rows, r):
            out[i] = v
    return out


def iset(nap, ep):
    return nap.IntervalSet(G.arr([s for s, _ in ep]), G.arr([e for _, e in ep]))


def support_of(x):
    return [(C.to_ns(s), C.to_ns(e)) for s, e in x.time_support.values]


def ints(a):
    a = np.asarray(a, dtype=float)
    if not np.all(np.isfinite(a)) or not np.all(a == np.round(a)):
        return None
    return [int(v) for v in a.ravel()]


def parse(line):
    return [[int(v) for v in f.split()] for f in line.split("|")]


# ------------------------------------------------------------------------------------------------
def part_exhaustive(res, nap, tier, rng):
    """complete small space through the public convolve, both routes (support / ep argument)"""
    def space(npts, nint):
        pts = G.lattice(npts, step=2 * U)
        tss = [ts for ts in G.sorted_multisets(pts, 4) if len(ts) >= 1] + [list(c) for n in range(5, npts + 1) for c in itertools.combinations(pts, n)]
        eps = [e for e in G.canonical_isets(pts, nint) if e]
        return [(ts, ep) for ts in tss for ep in eps]
    kerns = [[3], [1, 10], [1, 10, 100], [2, -1, 5, 7], [1, 0, -2, 0, 4]]
    if tier == "quick":
        # complete: 5-point lattice, supports of <= 2 intervals, all kernels; plus a sample of the 6-point / 3-interval space
        small = space(5, 2)
        seen = set((tuple(ts), tuple(ep)) for ts, ep in small)
        pairs = [(ts, ep, kerns) for ts, ep in small]
        pairs += [(ts, ep, rng.sample(kerns, 2)) for ts, ep in rng.sample(space(6, 3), 1200) if (tuple(ts), tuple(ep)) not in seen]
    else:
        pairs = [(ts, ep, kerns) for ts, ep in space(6, 3)]
    cases, lines = [], []
    for n, (ts, ep, ks) in enumerate(pairs):
        col = [((7 * i + 3 * n) % 19) - 9 for i in range(len(ts))]
        for k in ks:
            for trim in TRIMS:
                cases.append((ts, col, ep, k, trim))
                lines.append("convolve_arg\t%d\t%s\t%s\t%s\t%s" % (MODE[trim], C.fmt_ints(ts), C.fmt_ints(col), C.fmt_iset(ep), C.fmt_ints(k)))
    out = C.run_model(lines, driver="driver_c18")
    wide = nap.IntervalSet(-1.0, 1.0)
    eobj, xobj_a, xobj_b = {}, {}, {}
    for n, (ts, col, ep, k, trim) in enumerate(cases):
        ek, tk = tuple(ep), (tuple(ts), tuple(col))
        if ek not in eobj:
            eobj[ek] = iset(nap, ep)
        epo = eobj[ek]
        if tk not in xobj_b:
            xobj_b[tk] = nap.Tsd(G.arr(ts), np.array(col, dtype=float), time_support=wide)
        if (tk, ek) not in xobj_a:
            xobj_a[(tk, ek)] = nap.Tsd(G.arr(ts), np.array(col, dtype=float), time_support=epo)
        rows = epoch_rows(ts, ep)
        keep = sorted(i for r in rows for i in r)
        ts_in, col_in = [ts[i] for i in keep], [col[i] for i in keep]
        exp = oracle_convolve(ts_in, col_in, ep, k, trim)
        has_empty = any(len(r) == 0 for r in rows)
        short = any(0 < len(r) < len(k) for r in rows)
        res.case((tuple(ts), ek, tuple(k), trim), nontrivial=len(ep) > 1 and not has_empty)
        res.count("exhaustive_cases")
        res.count("k_even" if len(k) % 2 == 0 else "k_odd")
        if has_empty:
            res.count("some_epoch_without_sample")
        if short:
            res.count("some_epoch_shorter_than_kernel")
        if len(set(ts)) < len(ts):
            res.count("duplicate_timestamps")
        inp = {"ts": ts, "col": col, "ep": ep, "kernel": k, "trim": trim}
        m = parse(out[n])
        if m[0] != ts_in or (m[1] if len(m) > 1 else []) != exp:
            res.disagreements.append({"op": "convolve(model vs statement)", "input": inp, "model": m, "expected": [ts_in, exp]})
        # 'both' with an even kernel: the statement leaves open which side loses the extra entry; either split is accepted (one per call)
        alt = oracle_convolve(ts_in, col_in, ep, k, trim, ceil_split=True) if (trim == "both" and len(k) % 2 == 0) else exp
        # a series holding no sample at all has, in pynapple, an EMPTY time support (base-class invariant); the statement's
        # "input's timestamps and time support" is then: no timestamp, empty support (= what x.restrict(ep) has)
        esup = list(ep) if ts_in else []
        for route in ("support", "ep_argument"):
            kk = {"op": "convolve", "route": route, "empty_epoch": bool(has_empty), "no_sample": not ts_in}
            try:
                if route == "support":
                    r = xobj_a[(tk, ek)].convolve(np.array(k, dtype=float), trim=trim)
                else:
                    r = xobj_b[tk].convolve(np.array(k, dtype=float), ep=epo, trim=trim)
            except Exception as ex:
                if not ts_in:
                    res.count("no_sample_raises")
                res.violations.append({"key": dict(kk, part="exception", exception=type(ex).__name__),
                                       "what": "convolve raised %s: %s" % (type(ex).__name__, str(ex)[:80]),
                                       "input": inp, "impl": type(ex).__name__, "expected": exp})
                continue
            if not ts_in:
                res.count("no_sample_ok")
            got_t = [C.to_ns(t) for t in r.t]
            got = ints(r.values)
            if got_t != ts_in or support_of(r) != esup or type(r).__name__ != "Tsd":
                res.violations.append({"key": dict(kk, part="time_axis"), "what": "convolve changed the timestamps / time support / type", "input": inp,
                                       "impl": [got_t, support_of(r)], "expected": [ts_in, esup]})
            elif got != exp and got != alt:
                res.violations.append({"key": dict(kk, part="values", trim=trim, k_even=len(k) % 2 == 0, short_epoch=bool(short)),
                                       "what": "an epoch's output is not the full convolution of that epoch's samples trimmed on the requested side",
                                       "input": inp, "impl": got, "expected": exp})
            elif alt != exp:
                res.count("even_both_extra_entry_cut_on_the_right" if got == exp else "even_both_extra_entry_cut_on_the_left")
            if got != (m[1] if len(m) > 1 else []) or got_t != m[0]:
                res.disagreements.append({"op": "convolve", "route": route, "input": inp, "impl": [got_t, got], "model": m})
        if n % 4001 == 0:
            res.sample({"ts": ts, "col": col, "ep": ep, "kernel": k, "trim": trim, "expected": exp})


def rand_case(rng, nmax=36, emax=5, dup=0.15):
    """random sorted timestamps grouped into epochs of very different lengths (incl. 1-2 samples)"""
    m = rng.randint(1, emax)
    ts, ep, t = [], [], rng.randrange(0, 50) * U
    for _ in range(m):
        ln = rng.choice([1, 1, 2, 3, 4, 6, 9, 14])
        s = t
        inside = []
        for j in range(ln):
            inside.append(t)
            if rng.random() >= dup or j == ln - 1:
                t += rng.choice([1, 1, 2, 3]) * U
        e = inside[-1] + rng.choice([0, 0, U // 5])
        if e <= s:
            e = s + U // 5
        if rng.random() < 0.3:
            s -= U // 5
        ts += inside
        ep.append((s, e))
        t = max(t, e) + rng.choice([U, 2 * U, 10 * U])
    return ts, ep


def part_random(res, nap, tier, rng):
    """Tsd / TsdFrame / TsdTensor x 1-D / 2-D kernels x trims; model op `frame`; linearity and independence"""
    N = 1500 if tier == "quick" else 12000
    cases, lines = [], []
    for c in range(N):
        ts, ep = rand_case(rng)
        rows = epoch_rows(ts, ep)
        keep = sorted(i for r in rows for i in r)
        ts = [ts[i] for i in keep]
        kind = rng.choice(["Tsd", "TsdFrame", "TsdTensor"])
        dshape = {"Tsd": (), "TsdFrame": (rng.randint(1, 3),), "TsdTensor": (2, rng.randint(1, 2))}[kind]
        nc = int(np.prod(dshape)) if dshape else 1
        klen = rng.choice([1, 2, 3, 4, 5, 6, 7, 9])
        kcols = rng.choice([0, 0, 1, 2, 3])      # 0 = 1-D kernel
        data = [[rng.randint(-9, 9) for _ in ts] for _ in range(nc)]
        data2 = [[rng.randint(-9, 9) for _ in ts] for _ in range(nc)]
        kern = [[rng.randint(-5, 5) for _ in range(klen)] for _ in range(max(kcols, 1))]
        trim = rng.choice(TRIMS)
        a, b = rng.randint(-4, 4), rng.randint(-4, 4)
        cases.append((ts, ep, kind, dshape, data, data2, kern, kcols, trim, a, b))
        lines.append("frame\t%d\t%s\t%s\t%d %d\t%s\t%s" % (MODE[trim], C.fmt_ints(ts), C.fmt_iset(ep), nc, len(kern),
                                                        "\t".join(C.fmt_ints(d) for d in data), "\t".join(C.fmt_ints(k) for k in kern)))
    out = C.run_model(lines, driver="driver_c18")
    from scipy import signal
    for n, (ts, ep, kind, dshape, data, data2, kern, kcols, trim, a, b) in enumerate(cases):
        nc, nk, T = len(data), len(kern), len(ts)
        klen = len(kern[0])
        epo = iset(nap, ep)
        rows = epoch_rows(ts, ep)

        # every 5th case: an INTEGER-dtype signal against a kernel of halves (the output is still the exact real convolution: seed C18-5 allocated the
        # result in the signal's dtype); outputs are doubled before they are compared with the integer oracle / model
        half = n % 5 == 4
        dt = np.int64 if half else float

        def build(cols):
            arr = np.array(cols, dtype=dt).T.reshape((T,) + dshape) if dshape else np.array(cols[0], dtype=dt)
            if kind == "Tsd":
                return nap.Tsd(G.arr(ts), arr, time_support=epo)
            if kind == "TsdFrame":
                return nap.TsdFrame(G.arr(ts), arr, time_support=epo, columns=["c%d" % (3 * i + 1) for i in range(dshape[0])])
            return nap.TsdTensor(G.arr(ts), arr, time_support=epo)

        karr = np.array(kern, dtype=float).T if kcols else np.array(kern[0], dtype=float)
        if rng.random() < 0.3:
            karr = karr.astype(int)
        if half:
            karr = karr.astype(float) * 0.5
            res.count("integer_signal_half_kernel")
        x = build(data)
        inp = {"ts": ts, "ep": ep, "kind": kind, "data": data, "kernel": kern, "kernel_2d": bool(kcols), "trim": trim, "integer_signal_kernel_halved": half}
        short = any(0 < len(r) < klen for r in rows)
        res.case((tuple(ts), tuple(ep), kind, kcols, klen, trim, n), nontrivial=len(ep) > 1)
        res.count("random_cases")
        res.count("kind_" + kind)
        res.count("kernel_2d" if kcols else "kernel_1d")
        res.count("k_even" if klen % 2 == 0 else "k_odd")
        if short:
            res.count("some_epoch_shorter_than_kernel")
        if len(set(len(r) for r in rows)) > 1:
            res.count("epochs_of_different_lengths")
        if signal.choose_conv_method(np.zeros(max(len(r) for r in rows)), np.zeros(klen)) != "direct":
            res.count("scipy_fft_method")
        kk = {"op": "convolve", "kind": kind, "kernel_2d": bool(kcols)}
        try:
            r = x.convolve(karr, trim=trim)
        except Exception as ex:
            res.violations.append({"key": dict(kk, part="exception"), "what": "convolve raised %s: %s" % (type(ex).__name__, str(ex)[:80]), "input": inp})
            continue
        exp = [[oracle_convolve(ts, data[i], ep, kern[j], trim) for j in range(nk)] for i in range(nc)]
        eshape = (T,) + dshape + ((nk,) if kcols else ())
        etype = {1: "Tsd", 2: "TsdFrame"}.get(len(eshape), "TsdTensor")
        got_flat = ints(np.asarray(r.values) * (2 if half else 1))
        ok_axis = [C.to_ns(t) for t in r.t] == ts and support_of(r) == list(ep)
        if not ok_axis:
            res.violations.append({"key": dict(kk, part="time_axis"), "what": "convolve changed the timestamps / time support", "input": inp})
            continue
        if tuple(r.shape) != eshape or type(r).__name__ != etype:
            res.violations.append({"key": dict(kk, part="shape"), "what": "output shape/type is not input shape (+ kernel columns)", "input": inp,
                                   "impl": [type(r).__name__, list(r.shape)], "expected": [etype, list(eshape)]})
            continue
        if kind == "TsdFrame" and not kcols and list(r.columns) != list(x.columns):
            res.violations.append({"key": dict(kk, part="columns"), "what": "1-D kernel: column labels not kept", "input": inp,
                                   "impl": list(map(str, r.columns)), "expected": list(map(str, x.columns))})
        got = None
        if got_flat is not None:
            g3 = np.array(got_flat).reshape(T, nc, nk)
            got = [[[int(v) for v in g3[:, i, j]] for j in range(nk)] for i in range(nc)]
        alt = exp
        if trim == "both" and klen % 2 == 0:      # even kernel: either side may lose the extra entry (the same side in the whole call)
            alt = [[oracle_convolve(ts, data[i], ep, kern[j], trim, ceil_split=True) for j in range(nk)] for i in range(nc)]
        if got != exp and got != alt:
            res.violations.append({"key": dict(kk, part="values", trim=trim, k_even=klen % 2 == 0, short_epoch=bool(short)),
                                   "what": "entry (column i, kernel column j) is not column i convolved per epoch with kernel column j, trimmed on the requested side",
                                   "input": inp, "impl": got, "expected": exp})
        m = parse(out[n]) if T else [[] for _ in range(nc * nk)]
        mm = [[m[i * nk + j] for j in range(nk)] for i in range(nc)]
        if mm != got:
            res.disagreements.append({"op": "convolve_frame", "input": inp, "impl": got, "model": mm})
        # linearity in the signal through the public API (exact: integers)
        y = build(data2)
        comb = build([[a * u + b * v for u, v in zip(d1, d2)] for d1, d2 in zip(data, data2)])
        try:
            lhs = comb.convolve(karr, trim=trim).values
            rhs = a * r.values + b * y.convolve(karr, trim=trim).values
            if not np.array_equal(lhs, rhs):
                res.violations.append({"key": dict(kk, part="linearity"), "what": "convolve(a*x + b*y) != a*convolve(x) + b*convolve(y)",
                                       "input": dict(inp, data2=data2, a=a, b=b)})
        except Exception as ex:
            res.violations.append({"key": dict(kk, part="exception"), "what": "convolve raised " + type(ex).__name__, "input": inp})
        # independence through the public API: overwrite every other epoch, epoch q's output must not move
        if len(ep) > 1:
            q = rng.randrange(len(ep))
            data3 = [[d[i] if i in rows[q] else rng.randint(-50, 50) for i in range(T)] for d in data]
            r3 = build(data3).convolve(karr, trim=trim).values
            if not np.array_equal(r3[rows[q]], r.values[rows[q]]):
                res.violations.append({"key": dict(kk, part="independence"), "what": "output inside an epoch changed when only data of OTHER epochs changed",
                                       "input": dict(inp, epoch=q, data_changed=data3)})
            res.count("independence_checks")
        if n % 211 == 0:
            res.sample({"ts": ts, "ep": ep, "kind": kind, "kernel": kern, "trim": trim, "out_col0_k0": exp[0][0]})


def gauss_window(rate, std_s, windowsize_s, size_factor, norm):
    """the window the docstring of smooth promises, computed independently"""
    from scipy.signal.windows import gaussian
    std = round(std_s * 1e9) / 1e9
    std_size = int(rate * std)
    if windowsize_s is not None:
        M = int(rate * (round(windowsize_s * 1e9) / 1e9))
    else:
        M = std_size * size_factor
    if M % 2 == 0:
        M += 1
    w = gaussian(M=M, std=std_size)
    return w / w.sum() if norm else w


def sinc_lowpass(fc, fs, tb):
    M = int(np.rint(4.0 / tb))
    x = np.arange(-(M // 2), 1 + (M // 2))
    k = np.sinc(2 * (fc / fs) * x) * np.blackman(len(x))
    return k / k.sum()


def close(a, b, scale):
    return np.all(np.abs(np.asarray(a) - np.asarray(b)) <= TOL * (1.0 + scale))


def regular_case(rng, min_len, emax=3):
    """regularly sampled epochs (step 2U... = 256 Hz lattice) of different lengths >= min_len, with gaps"""
    m = rng.randint(1, emax)
    ts, ep, t = [], [], rng.randrange(0, 20) * 2 * U
    for _ in range(m):
        ln = min_len + rng.choice([0, 1, 2, 5, 9, 17])
        inside = [t + j * 2 * U for j in range(ln)]
        ts += inside
        ep.append((inside[0] - U // 5, inside[-1] + U // 5))
        t = inside[-1] + rng.choice([2, 3, 11]) * 2 * U
    return ts, ep


def build_any(nap, kind, ts, cols, epo, dshape):
    T = len(ts)
    arr = np.array(cols, dtype=float).T.reshape((T,) + dshape) if dshape else np.array(cols[0], dtype=float)
    if kind == "Tsd":
        return nap.Tsd(G.arr(ts), arr, time_support=epo)
    if kind == "TsdFrame":
        return nap.TsdFrame(G.arr(ts), arr, time_support=epo, columns=["c%d" % (3 * i + 1) for i in range(dshape[0])])
    return nap.TsdTensor(G.arr(ts), arr, time_support=epo)


def axis_ok(r, x, ts, ep):
    return ([C.to_ns(t) for t in r.t] == ts and support_of(r) == list(ep) and tuple(r.shape) == tuple(x.shape)
            and type(r) is type(x) and (not hasattr(x, "columns") or list(r.columns) == list(x.columns)))


def _others_overwritten(rng, data, rows, q, T):
    return [[d[i] if i in rows[q] else rng.randint(-50, 50) for i in range(T)] for d in data]


def part_smooth_sinc(res, nap, tier, rng, variant="small"):
    """real-valued kernels through the public API: smooth, windowed-sinc filters (to the declared tolerance).
    variant "small": transition bandwidth 0.1..0.5 (9..41 taps), epochs of 1..25 samples;
    "default_bw": the DEFAULT transition bandwidth (0.02 -> 201 taps) and smooth's default size_factor on epochs of 150..440 samples;
    "fft": transition bandwidth 0.005 (801 taps) on an epoch of 12000 samples, where scipy.signal.convolve switches to its FFT method"""
    from scipy import signal
    long_kernel = variant != "small"
    N = {"small": (400, 4000), "default_bw": (10, 100), "fft": (2, 12)}[variant][0 if tier == "quick" else 1]
    TB = {"default_bw": 0.02, "fft": 0.005}
    fs = 1e9 / (2 * U)
    SINC = (("lowpass", nap.apply_lowpass_filter), ("highpass", nap.apply_highpass_filter),
            ("bandpass", nap.apply_bandpass_filter), ("bandstop", nap.apply_bandstop_filter))
    for c in range(N):
        if variant == "fft":
            ts, ep = regular_case(rng, 12000, emax=1)
        else:
            ts, ep = regular_case(rng, rng.choice([150, 260, 420]) if long_kernel else rng.choice([1, 2, 3, 8]))
        if long_kernel and rng.random() < 0.5:      # plus one epoch much shorter than the 201-tap kernel
            t0 = ts[-1] + 5 * 2 * U
            extra = [t0 + j * 2 * U for j in range(rng.choice([1, 7, 40]))]
            ts, ep = ts + extra, ep + [(extra[0] - U // 5, extra[-1] + U // 5)]
        kind = rng.choice(["Tsd", "TsdFrame", "TsdTensor"]) if variant != "fft" else "Tsd"
        dshape = {"Tsd": (), "TsdFrame": (2,), "TsdTensor": (2, 2)}[kind]
        nc = int(np.prod(dshape)) if dshape else 1
        data = [[rng.randint(-9, 9) for _ in ts] for _ in range(nc)]
        d2 = [[rng.randint(-9, 9) for _ in ts] for _ in range(nc)]
        a, b = rng.randint(-3, 3), rng.randint(-3, 3)
        epo = iset(nap, ep)
        x = build_any(nap, kind, ts, data, epo, dshape)
        y = build_any(nap, kind, ts, d2, epo, dshape)
        z = build_any(nap, kind, ts, [[a * u + b * v for u, v in zip(p, q_)] for p, q_ in zip(data, d2)], epo, dshape)
        rows = epoch_rows(ts, ep)
        T = len(ts)
        scale = 9.0
        inp = {"ts": ts, "ep": ep, "kind": kind, "data": data, "variant": variant}
        res.case(("smooth_sinc", variant, c, kind, len(ep)), nontrivial=len(ep) > 1)
        res.count("smooth_sinc_cases_" + variant)
        q = rng.randrange(len(ep))
        x3 = build_any(nap, kind, ts, _others_overwritten(rng, data, rows, q, T), epo, dshape) if len(ep) > 1 else None
        # ---- smooth
        step = 2 * U / 1e9 * 1.0001
        std_s = rng.choice([1, 2, 3]) * step
        ws = rng.choice([None, 5 * step, 8 * step])
        sf = rng.choice([3, 4])
        if long_kernel:
            std_s, ws, sf = rng.choice([2, 3]) * step, None, (100 if variant == "default_bw" else 400)   # 100 is the default: 201 / 301 taps; 400: 801 / 1201
        norm = rng.random() < 0.7
        kk = {"op": "smooth", "kind": kind, "variant": variant}
        sm = dict(windowsize=ws, size_factor=sf, norm=norm)
        try:
            r = x.smooth(std_s, **sm)
            if not axis_ok(r, x, ts, ep):
                res.violations.append({"key": dict(kk, part="time_axis"), "what": "smooth changed timestamps / support / shape / columns", "input": inp})
            else:
                if x3 is not None and not np.array_equal(x3.smooth(std_s, **sm).values[rows[q]], r.values[rows[q]]):
                    res.violations.append({"key": dict(kk, part="independence"), "what": "smooth: an epoch's output changed with other epochs' data", "input": inp})
                lz, ly = z.smooth(std_s, **sm).values, y.smooth(std_s, **sm).values
                if not close(lz, a * r.values + b * ly, scale * 7 * (1 if norm else 10)):
                    res.violations.append({"key": dict(kk, part="linearity"), "what": "smooth is not linear in the signal (beyond the declared tolerance)",
                                           "input": dict(inp, data2=d2, a=a, b=b, std=std_s, **sm)})
                # correspondence with the model's smooth_epochs, window := the gaussian window the docstring promises (not part of the statement)
                w = gauss_window(x.rate, std_s, ws, sf, norm)
                if any(signal.choose_conv_method(np.zeros(len(rw)), np.zeros(len(w))) != "direct" for rw in rows if rw):
                    res.count("scipy_fft_method_smooth")
                g = np.asarray(r.values).reshape(T, nc)
                for i in range(nc):
                    e = np.zeros(T)
                    for rw in rows:
                        f = signal.convolve(np.array([data[i][j] for j in rw], dtype=float), w)
                        cc = (len(w) - 1) // 2
                        e[rw] = f[cc:cc + len(rw)]
                    if not close(g[:, i], e, scale * (1 if norm else 10)):
                        res.disagreements.append({"op": "smooth(window := documented gaussian)", "input": dict(inp, std=std_s, **sm),
                                                  "impl": g[:, i].tolist()[:40], "model": e.tolist()[:40]})
                        break
        except Exception as ex:
            res.violations.append({"key": dict(kk, part="exception", exception=type(ex).__name__), "what": "smooth raised %s: %s" % (type(ex).__name__, str(ex)[:80]),
                                   "input": dict(inp, std=std_s, **sm)})
        # ---- windowed sinc, four types
        tb = rng.choice([0.5, 0.4, 0.25, 0.1])
        f1 = rng.choice([0.08, 0.15, 0.22]) * fs
        f2 = f1 + rng.choice([0.1, 0.2]) * fs
        kw = {"transition_bandwidth": tb}
        if long_kernel:
            tb = TB[variant]
            kw = {} if variant == "default_bw" else {"transition_bandwidth": tb}
        ntaps = len(sinc_lowpass(f1, fs, tb))
        if any(signal.choose_conv_method(np.zeros(len(rw)), np.zeros(ntaps)) != "direct" for rw in rows if rw):
            res.count("scipy_fft_method_sinc")
        if any(0 < len(rw) < ntaps for rw in rows):
            res.count("sinc_epoch_shorter_than_kernel")
        kk = {"op": "sinc", "kind": kind, "variant": variant}
        try:
            use_fs = rng.choice([fs, None]) if len(ep) == 1 else fs
            # the band limits in every admissible form; ONE object is passed to both complementary calls, as a user would
            band = rng.choice([lambda: (f1, f2), lambda: [f1, f2], lambda: np.array([f1, f2])])()
            cut = {"lowpass": f1, "highpass": f1, "bandpass": band, "bandstop": band}
            use = {"lowpass": use_fs, "highpass": use_fs, "bandpass": fs, "bandstop": fs}
            out = {nm: f(x, cut[nm], fs=use[nm], mode="sinc", **kw) for nm, f in SINC}
            lp, hp, bp, bs = (out[nm] for nm, _ in SINC)
            for nm, f in SINC:
                r = out[nm]
                if not axis_ok(r, x, ts, ep):
                    res.violations.append({"key": dict(kk, part="time_axis", filter=nm), "what": "sinc filter changed timestamps / support / shape / columns", "input": inp})
                    continue
                if x3 is not None and not np.array_equal(f(x3, cut[nm], fs=use[nm], mode="sinc", **kw).values[rows[q]], r.values[rows[q]]):
                    res.violations.append({"key": dict(kk, part="independence", filter=nm), "what": "sinc filter: an epoch's output changed with other epochs' data", "input": inp})
                lz = f(z, cut[nm], fs=use[nm], mode="sinc", **kw).values
                ly = f(y, cut[nm], fs=use[nm], mode="sinc", **kw).values
                if not close(lz, a * r.values + b * ly, scale * 7):
                    res.violations.append({"key": dict(kk, part="linearity", filter=nm), "what": "sinc filter is not linear in the signal (beyond the declared tolerance)",
                                           "input": dict(inp, data2=d2, a=a, b=b, cutoff=str(cut[nm]), tb=kw)})
            if not close(lp.values + hp.values, x.values, scale):
                res.violations.append({"key": dict(kk, part="lp_plus_hp"), "what": "windowed-sinc low-pass + high-pass outputs do not sum to the input",
                                       "input": dict(inp, cutoff=f1, fs=use_fs, tb=kw), "impl": (lp.values + hp.values).ravel().tolist()[:40], "expected": x.values.ravel().tolist()[:40]})
            if not close(bp.values + bs.values, x.values, scale):
                res.violations.append({"key": dict(kk, part="bp_plus_bs"), "what": "windowed-sinc band-pass + band-stop outputs do not sum to the input",
                                       "input": dict(inp, cutoff=[f1, f2], fs=fs, tb=kw)})
            if use_fs is not None:
                # correspondence with the model's sinc_filter, kernel := the documented blackman-windowed sinc (not part of the statement)
                kl = sinc_lowpass(f1, fs, tb)
                g = np.asarray(lp.values).reshape(T, nc)
                for i in range(nc):
                    e = np.zeros(T)
                    for rw in rows:
                        f = signal.convolve(np.array([data[i][j] for j in rw], dtype=float), kl)
                        cc = (len(kl) - 1) // 2
                        e[rw] = f[cc:cc + len(rw)]
                    if not close(g[:, i], e, scale):
                        res.disagreements.append({"op": "sinc lowpass(kernel := documented windowed sinc)", "input": dict(inp, cutoff=f1, fs=fs, tb=kw)})
                        break
        except Exception as ex:
            res.violations.append({"key": dict(kk, part="exception", exception=type(ex).__name__), "what": "sinc filter raised %s: %s" % (type(ex).__name__, str(ex)[:80]),
                                   "input": dict(inp, cutoff=[f1, f2], tb=kw)})
        if c % 29 == 0:
            res.sample({"smooth/sinc": variant, "epochs": [len(r) for r in rows], "kind": kind, "taps": ntaps, "std": std_s})


def butter_padlen(sos):
    """sosfiltfilt's default padlen (SciPy: the slice must hold MORE samples than this)"""
    return int(3 * (2 * len(sos) + 1 - min((sos[:, 2] == 0).sum(), (sos[:, 5] == 0).sum())))


def part_empty_epoch(res, nap, tier, rng):
    """a time support with an interval holding no sample (smooth / sinc / Butterworth; convolve itself: part 1), and, for
    Butterworth, an interval holding 1..padlen samples: "process each interval independently" - the other intervals' outputs
    must not depend on it, so the call must not raise"""
    from scipy.signal import butter
    fs = 1e9 / (2 * U)
    FUN = {"lowpass": nap.apply_lowpass_filter, "highpass": nap.apply_highpass_filter,
           "bandpass": nap.apply_bandpass_filter, "bandstop": nap.apply_bandstop_filter}
    for c in range(12 if tier == "quick" else 80):
        ts, ep = regular_case(rng, 30, emax=2)
        ftype = rng.choice(sorted(FUN))
        order = rng.randint(1, 3)
        cutoff = 0.2 * fs if ftype in ("lowpass", "highpass") else (0.1 * fs, 0.2 * fs)
        padlen = butter_padlen(butter(order, cutoff, btype=ftype, fs=fs, output="sos"))
        nshort = 0 if c % 2 == 0 else rng.choice([1, 2, padlen - 1, padlen])     # samples in the extra interval
        gap_s = ep[-1][1] + 3 * 2 * U
        extra = [gap_s + U + j * 2 * U for j in range(nshort)]
        where = rng.choice(["last", "first", "middle"]) if (len(ep) > 1 and nshort == 0) else rng.choice(["last", "first"])
        width = max(nshort, 1) * 2 * U
        if where == "last":
            ts2, ep2 = ts + extra, ep + [(gap_s, gap_s + width)]
        elif where == "first":
            sh = ts[0] - 4 * 2 * U - width
            ts2, ep2 = [t - gap_s + sh for t in extra] + ts, [(sh, sh + width)] + ep
        else:       # an empty interval strictly between the two epochs (their samples are >= 2 steps apart)
            ts2, ep2 = ts, [ep[0], (ep[0][1] + U // 2, ep[1][0] - U // 2), ep[1]]
        rows = epoch_rows(ts2, ep2)
        data = [rng.randint(-9, 9) for _ in ts2]
        x = nap.Tsd(G.arr(ts2), np.array(data, dtype=float), time_support=iset(nap, ep2))
        if [C.to_ns(t) for t in x.t] != ts2 or support_of(x) != ep2:
            raise RuntimeError("harness: could not build the input %r on %r" % (ts2, ep2))
        inp = {"ts": ts2, "ep": ep2, "data": data}
        empty, short = nshort == 0, nshort > 0
        res.case(("empty_epoch", c), nontrivial=True)
        res.count("empty_epoch_filter_cases" if empty else "short_epoch_butter_cases")
        calls = []
        if empty:
            calls += [("smooth", lambda x_: x_.smooth(2 * U / 1e9 * 1.0001, size_factor=3)),
                      ("sinc", lambda x_: nap.apply_lowpass_filter(x_, 0.2 * fs, fs=fs, mode="sinc", transition_bandwidth=0.5))]
        calls.append(("butter", lambda x_: FUN[ftype](x_, cutoff, fs=fs, mode="butter", order=order)))
        for nm, f in calls:
            key = {"op": nm, "empty_epoch": empty, "short_epoch": short}
            if nm == "butter":
                key["filter"] = ftype
            try:
                r = f(x)
            except Exception as ex:
                res.count(nm + ("_empty_epoch_raises" if empty else "_short_epoch_raises"))
                res.violations.append({"key": dict(key, part="exception", exception=type(ex).__name__),
                                       "what": "%s raised %s (%s) for the WHOLE series because one interval of the support holds %s"
                                               % (nm, type(ex).__name__, str(ex)[:70], "no sample" if empty else "%d sample(s), not more than sosfiltfilt's padlen %d" % (nshort, padlen)),
                                       "input": dict(inp, filter=ftype, order=order), "impl": type(ex).__name__})
                continue
            res.count(nm + ("_empty_epoch_ok" if empty else "_short_epoch_ok"))
            if [C.to_ns(t) for t in r.t] != ts2 or support_of(r) != ep2:
                res.violations.append({"key": dict(key, part="time_axis"), "what": nm + " changed the time axis", "input": inp})
                continue
            # the full intervals' outputs are what they are without the empty / short interval (smooth derives its window
            # from the rate of the object it is given, which restriction changes: not compared)
            for q, rw in enumerate(rows):
                if len(rw) <= padlen or nm == "smooth":
                    continue
                one = f(x.restrict(nap.IntervalSet(ep2[q][0] / 1e9, ep2[q][1] / 1e9))).values
                if not np.array_equal(np.asarray(one), np.asarray(r.values)[rw]):
                    res.violations.append({"key": dict(key, part="independence_restrict"), "what": nm + ": filtering the restricted epoch differs from the epoch's rows of the whole result",
                                           "input": dict(inp, epoch=q)})


def part_sinc_model(res, nap, tier, rng):
    """spectral inversion / band kernels and complementarity on INTEGER kernels: model vs implementation, exact"""
    from pynapple.process import filtering as F
    N = 400 if tier == "quick" else 4000
    cases, lines = [], []
    for c in range(N):
        ts, ep = rand_case(rng, nmax=24, emax=3)
        rows = epoch_rows(ts, ep)
        keep = sorted(i for r in rows for i in r)
        ts = [ts[i] for i in keep]
        col = [rng.randint(-9, 9) for _ in ts]
        cc = rng.randint(0, 4)
        u = rng.choice([1, 1, 7, 16])
        lp0 = [rng.randint(-5, 5) for _ in range(2 * cc + 1)]
        lp1 = [rng.randint(-5, 5) for _ in range(2 * cc + 1)]
        cases.append((ts, ep, col, u, lp0, lp1))
        lines.append("sinc_kernels\t%d\t%s\t%s" % (u, C.fmt_ints(lp0), C.fmt_ints(lp1)))
    out = C.run_model(lines, driver="driver_c18")
    lines2 = []
    for n, (ts, ep, col, u, lp0, lp1) in enumerate(cases):
        hp, bs, bp = parse(out[n])
        for k in (lp0, hp, bs, bp):
            lines2.append("sinc\t%s\t%s\t%s\t%s" % (C.fmt_ints(ts), C.fmt_ints(col), C.fmt_iset(ep), C.fmt_ints(k)))
    out2 = C.run_model(lines2, driver="driver_c18")
    for n, (ts, ep, col, u, lp0, lp1) in enumerate(cases):
        hp, bs, bp = parse(out[n])
        res.case(("sinc_model", n), nontrivial=len(lp0) > 1)
        res.count("sinc_integer_kernel_cases")
        inp = {"ts": ts, "ep": ep, "col": col, "u": u, "lp0": lp0, "lp1": lp1}
        if u == 1:
            # the implementation's own kernel algebra (in place, float)
            i_hp = F._compute_spectral_inversion(np.array(lp0, dtype=float))
            kern = np.array([lp0, lp1], dtype=float).T.copy()
            kern[:, 1] = F._compute_spectral_inversion(kern[:, 1])
            i_bs = np.sum(kern, axis=1)
            i_bp = F._compute_spectral_inversion(i_bs.copy())
            if [ints(i_hp), ints(i_bs), ints(i_bp)] != [hp, bs, bp]:
                res.disagreements.append({"op": "sinc_kernels", "input": inp, "impl": [ints(i_hp), ints(i_bs), ints(i_bp)], "model": [hp, bs, bp]})
        x = nap.Tsd(G.arr(ts), np.array(col, dtype=float), time_support=iset(nap, ep))
        o = []
        for j, k in enumerate((lp0, hp, bs, bp)):
            try:
                r = ints(x.convolve(np.array(k, dtype=float)).values)
            except Exception as ex:
                res.violations.append({"key": {"op": "convolve", "part": "exception", "exception": type(ex).__name__, "integer_kernel": True},
                                       "what": "convolve raised %s: %s" % (type(ex).__name__, str(ex)[:80]), "input": dict(inp, kernel=k)})
                r = None
            o.append(r)
            if r != parse(out2[4 * n + j])[0]:
                res.disagreements.append({"op": "sinc_filter", "input": dict(inp, kernel=k), "impl": r, "model": parse(out2[4 * n + j])[0]})
        if any(r is None for r in o):
            continue
        if [p + q for p, q in zip(o[0], o[1])] != [u * v for v in col]:
            res.violations.append({"key": {"op": "sinc", "part": "lp_plus_hp", "integer_kernel": True}, "what": "conv(x, k) + conv(x, u*delta - k) != u*x for an odd kernel, 'both' trim",
                                   "input": inp})
        if [p + q for p, q in zip(o[2], o[3])] != [u * v for v in col]:
            res.violations.append({"key": {"op": "sinc", "part": "bp_plus_bs", "integer_kernel": True}, "what": "band-stop + band-pass kernels do not give back u*x", "input": inp})


def probe_F(sos, x, axis=0):
    """integer-valued stand-in for sosfiltfilt: reverse along time, then running sums"""
    return np.cumsum(np.asarray(x)[::-1], axis=0)


def part_butter(res, nap, tier, rng):
    from scipy.signal import butter, sosfiltfilt
    from pynapple.process import filtering as F
    fs = 1e9 / (2 * U)
    FUN = {"lowpass": nap.apply_lowpass_filter, "highpass": nap.apply_highpass_filter,
           "bandpass": nap.apply_bandpass_filter, "bandstop": nap.apply_bandstop_filter}
    N = 200 if tier == "quick" else 2000
    for c in range(N):
        ftype = rng.choice(sorted(FUN))
        order = rng.randint(1, 4)
        f1 = rng.choice([0.06, 0.1, 0.2, 0.3]) * fs
        f2 = f1 + rng.choice([0.05, 0.1, 0.14]) * fs
        cutoff = f1 if ftype in ("lowpass", "highpass") else (f1, f2)
        sos = butter(order, cutoff, btype=ftype, fs=fs, output="sos")
        padlen = butter_padlen(sos)
        ts, ep = regular_case(rng, padlen + 1)      # 1..padlen samples and empty intervals: part_empty_epoch
        kind = rng.choice(["Tsd", "TsdFrame", "TsdTensor"])
        dshape = {"Tsd": (), "TsdFrame": (2,), "TsdTensor": (2, 2)}[kind]
        nc = int(np.prod(dshape)) if dshape else 1
        data = [[rng.randint(-9, 9) for _ in ts] for _ in range(nc)]
        epo = iset(nap, ep)
        x = build_any(nap, kind, ts, data, epo, dshape)
        rows = epoch_rows(ts, ep)
        T = len(ts)
        inp = {"ts": ts, "ep": ep, "kind": kind, "data": data, "filter": ftype, "order": order, "cutoff": cutoff, "fs": fs}
        kk = {"op": "butter", "filter": ftype, "kind": kind}
        res.case(("butter", c, ftype, order, kind, len(ep)), nontrivial=len(ep) > 1)
        res.count("butter_cases")
        res.count("butter_" + ftype)
        try:
            r = FUN[ftype](x, cutoff, fs=fs, mode="butter", order=order)
        except Exception as ex:
            res.violations.append({"key": dict(kk, part="exception", exception=type(ex).__name__, empty_epoch=False, short_epoch=False),
                                   "what": "butterworth filter raised %s: %s" % (type(ex).__name__, str(ex)[:80]), "input": inp})
            continue
        if not axis_ok(r, x, ts, ep):
            res.violations.append({"key": dict(kk, part="time_axis"), "what": "butterworth filter changed timestamps / support / shape / columns", "input": inp})
            continue
        g = np.asarray(r.values).reshape(T, nc)
        for q, rw in enumerate(rows):
            e = np.stack([sosfiltfilt(sos, np.array([data[i][j] for j in rw], dtype=float)) for i in range(nc)], axis=1)
            if not np.array_equal(g[rw], e):
                # correspondence with the model's butter_epochs, F := scipy.signal.sosfiltfilt (the statement does not name the routine)
                res.disagreements.append({"op": "butter(F := scipy sosfiltfilt on the epoch's samples alone)", "input": dict(inp, epoch=q),
                                          "impl": g[rw].tolist(), "model": e.tolist()})
                break
        if len(ep) > 1:
            q = rng.randrange(len(ep))
            d3 = [[d[i] if i in rows[q] else rng.randint(-50, 50) for i in range(T)] for d in data]
            r3 = FUN[ftype](build_any(nap, kind, ts, d3, epo, dshape), cutoff, fs=fs, mode="butter", order=order).values
            if not np.array_equal(r3[rows[q]], r.values[rows[q]]):
                res.violations.append({"key": dict(kk, part="independence"), "what": "butterworth: an epoch's output changed with other epochs' data", "input": dict(inp, epoch=q)})
            # the same epoch filtered on its own (public API on the restricted object, same fs)
            one = x.restrict(nap.IntervalSet(ep[q][0] / 1e9, ep[q][1] / 1e9))
            r1 = FUN[ftype](one, cutoff, fs=fs, mode="butter", order=order).values
            if not np.array_equal(np.asarray(r1), np.asarray(r.values)[rows[q]]):
                res.violations.append({"key": dict(kk, part="independence_restrict"), "what": "filtering the restricted epoch differs from the epoch's rows of the whole result",
                                       "input": dict(inp, epoch=q)})
        d2 = [[rng.randint(-9, 9) for _ in ts] for _ in range(nc)]
        a, b = rng.randint(-3, 3), rng.randint(-3, 3)
        y = FUN[ftype](build_any(nap, kind, ts, d2, epo, dshape), cutoff, fs=fs, mode="butter", order=order).values
        z = FUN[ftype](build_any(nap, kind, ts, [[a * u + b * v for u, v in zip(p, q_)] for p, q_ in zip(data, d2)], epo, dshape),
                       cutoff, fs=fs, mode="butter", order=order).values
        sc = max(1.0, float(np.max(np.abs(z))), float(np.max(np.abs(r.values))) * abs(a), float(np.max(np.abs(y))) * abs(b))
        if not close(z, a * r.values + b * y, sc):
            res.violations.append({"key": dict(kk, part="linearity"), "what": "butterworth filter is not linear in the signal (beyond the declared tolerance)",
                                   "input": dict(inp, data2=d2, a=a, b=b), "impl": float(np.max(np.abs(z - a * r.values - b * y)))})
        if len(ep) == 1 and c % 3 == 0:
            r0 = FUN[ftype](x, cutoff, mode="butter", order=order)     # fs inferred from the rate
            sos0 = butter(order, cutoff, btype=ftype, fs=x.rate, output="sos")
            e0 = np.stack([sosfiltfilt(sos0, np.array(data[i], dtype=float)) for i in range(nc)], axis=1)
            if not axis_ok(r0, x, ts, ep):
                res.violations.append({"key": dict(kk, part="time_axis", fs_default=True), "what": "butterworth filter (fs=None) changed timestamps / support / shape / columns", "input": inp})
            elif not np.array_equal(np.asarray(r0.values).reshape(T, nc), e0):
                res.disagreements.append({"op": "butter(fs=None: F := sosfiltfilt designed for the series' rate)", "input": inp})
        if c % 37 == 0:
            res.sample({"butter": ftype, "order": order, "epochs": [len(r_) for r_ in rows], "kind": kind})
    # ---- correspondence of the per-epoch bookkeeping: sosfiltfilt replaced by an integer stand-in (in this process only)
    M = 1000 if tier == "quick" else 10000
    cases, lines = [], []
    for c in range(M):
        ts, ep = rand_case(rng, nmax=30, emax=4)
        rows = epoch_rows(ts, ep)
        keep = sorted(i for r in rows for i in r)
        ts = [ts[i] for i in keep]
        col = [rng.randint(-9, 9) for _ in ts]
        cases.append((ts, ep, col))
        lines.append("butter_probe\t%s\t%s\t%s" % (C.fmt_ints(ts), C.fmt_ints(col), C.fmt_iset(ep)))
    out = C.run_model(lines, driver="driver_c18")
    orig = F.sosfiltfilt
    F.sosfiltfilt = probe_F
    try:
        for n, (ts, ep, col) in enumerate(cases):
            rows = epoch_rows(ts, ep)
            res.case(("butter_probe", tuple(ts), tuple(ep)), nontrivial=len(ep) > 1)
            res.count("butter_probe_cases")
            inp = {"ts": ts, "ep": ep, "col": col}
            x = nap.Tsd(G.arr(ts), np.array(col, dtype=float), time_support=iset(nap, ep))
            try:
                r = nap.apply_lowpass_filter(x, 0.2 * fs, fs=fs, mode="butter", order=2)
            except Exception as ex:
                res.disagreements.append({"op": "butter_probe", "input": inp, "impl": type(ex).__name__ + ": " + str(ex)[:80]})
                continue
            got = ints(r.values)
            exp = [0] * len(ts)
            for rw in rows:
                acc, vals = 0, []
                for j in reversed(rw):
                    acc += col[j]
                    vals.append(acc)
                for i, v in zip(rw, vals):
                    exp[i] = v
            if got != exp or [C.to_ns(t) for t in r.t] != ts or support_of(r) != list(ep):
                res.violations.append({"key": {"op": "butter", "part": "per_epoch_bookkeeping"}, "what": "with sosfiltfilt replaced by a stand-in F, an epoch's rows are not F(that epoch's rows)",
                                       "input": inp, "impl": got, "expected": exp})
            if got != parse(out[n])[0]:
                res.disagreements.append({"op": "butter_probe", "input": inp, "impl": got, "model": parse(out[n])[0]})
    finally:
        F.sosfiltfilt = orig


def run(res, tier, seed):
    nap = _nap()
    warnings.simplefilter("ignore")
    res.rule = ("(1) convolve, COMPLETE small space: all sorted multisets of 1-4 timestamps + all larger subsets on an N-point dyadic lattice x all canonical supports of <= m intervals with endpoints on "
                "the lattice (samples on starts/ends, intervals with 0/1/2.. samples, shorter than the kernel, NO sample inside any interval) x 5 kernels of length 1..5 (odd and even) x 3 trims, through BOTH routes "
                "(time support, ep= argument); thorough: N=6, m=3 complete; quick: N=5, m=2 complete + 1200 sampled pairs of the N=6, m=3 space x 2 kernels. (2) seeded random: Tsd/TsdFrame/TsdTensor x 1-D/2-D integer kernels "
                "(length 1..9) x trims on 1-5 epochs of 1..14 samples with duplicate timestamps; exact equality with the brute-force statement oracle (even kernel, 'both': either split) and with the extracted model; "
                "linearity (a*x+b*y) and independence (other epochs overwritten) through the public API. (3) smooth and the four windowed-sinc filters (real kernels, tolerance 1e-12 relative): "
                "time axis, independence and linearity for smooth and for EACH of the four filters, lp+hp = id, bp+bs = id; three kernel regimes: 9..41 taps on epochs of 1..25 samples, the default "
                "transition bandwidth (201 taps) / default size_factor on epochs of 150..440 samples plus a short one, 801 taps on 12000 samples (SciPy's FFT convolution); integer kernels: model's spectral "
                "inversion / band kernels vs implementation, exact. (4) Butterworth x4 types x orders 1-4: time axis, restricted-object equality, independence, linearity (tolerance); correspondence: each epoch == "
                "sosfiltfilt on that epoch alone (bit-exact), bookkeeping with an integer stand-in for sosfiltfilt. (5) a support with an interval holding no sample (first / middle / last) through smooth / sinc / "
                "Butterworth, and with an interval of 1..padlen samples through Butterworth: no exception, time axis, the full intervals filtered as on their own. "
                "non-trivial = more than one epoch (and no empty epoch in part 1)")
    res.exhaustive = True
    part_exhaustive(res, nap, tier, random.Random(seed * 11 + 1))
    part_random(res, nap, tier, random.Random(seed * 11 + 2))
    part_sinc_model(res, nap, tier, random.Random(seed * 11 + 3))
    part_smooth_sinc(res, nap, tier, random.Random(seed * 11 + 4))
    part_smooth_sinc(res, nap, tier, random.Random(seed * 11 + 7), variant="default_bw")
    part_smooth_sinc(res, nap, tier, random.Random(seed * 11 + 8), variant="fft")
    part_butter(res, nap, tier, random.Random(seed * 11 + 5))
    part_empty_epoch(res, nap, tier, random.Random(seed * 11 + 6))


def search(res, seed):
    r2 = C.Result()
    run(r2, "thorough", seed)
    for v in r2.violations:
        if C.match_known("C18", v) is None:
            return v
    return None


def replay(payload):
    nap = _nap()
    warnings.simplefilter("ignore")
    v = payload.get("violation") or (payload.get("disagreements") or [{}])[0]
    inp = v.get("input", {})
    if "kernel" in inp and "col" in inp:
        ts, col, ep, k, trim = inp["ts"], inp["col"], [tuple(e) for e in inp["ep"]], inp["kernel"], inp.get("trim", "both")
        rows = epoch_rows(ts, ep)
        keep = sorted(i for r in rows for i in r)
        exp = oracle_convolve([ts[i] for i in keep], [col[i] for i in keep], ep, k, trim)
        x = nap.Tsd(G.arr(ts), np.array(col, dtype=float), time_support=nap.IntervalSet(-1.0, 1.0))
        try:
            got = ints(x.convolve(np.array(k, dtype=float), ep=iset(nap, ep), trim=trim).values)
        except Exception as ex:
            got = "%s: %s" % (type(ex).__name__, ex)
        print("ts", ts, "col", col, "ep", ep, "kernel", k, "trim", trim)
        print("impl    ", got)
        print("expected", exp)
        return 0 if got == exp else 1
    if v.get("key", {}).get("op") == "butter" and "filter" in inp and "order" in inp and "ep" in inp and "cutoff" not in inp:
        # an interval of the support holding no / too few samples (part_empty_epoch)
        fs = 1e9 / (2 * U)
        ftype, ep = inp["filter"], [tuple(e) for e in inp["ep"]]
        cutoff = 0.2 * fs if ftype in ("lowpass", "highpass") else (0.1 * fs, 0.2 * fs)
        x = nap.Tsd(G.arr(inp["ts"]), np.array(inp["data"], dtype=float), time_support=iset(nap, ep))
        print("samples per interval", [len(r) for r in epoch_rows(inp["ts"], ep)], "filter", ftype, "order", inp["order"])
        try:
            r = getattr(nap, "apply_%s_filter" % ftype)(x, cutoff, fs=fs, mode="butter", order=inp["order"])
        except Exception as ex:
            print("impl     raised %s: %s" % (type(ex).__name__, ex))
            print("expected every interval filtered on its own; an interval's length must not decide whether the others get an output")
            return 1
        print("impl     returned %d samples on %d intervals" % (len(r), len(r.time_support)))
        return 0
    print("replay input:", inp)
    print("what:", v.get("what"))
    return 1
